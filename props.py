"""Per-property configuration of ./check: which contract modules, bounded stand-ins and monitors decide it."""

ENCODING_ASSUMPTIONS = [
    "pyvc encoding: Python int = mathematical integer; float modelled as real (exact n/N); str = SMT string of code points",
    "pyvc encoding: dict/list/set values are modelled functionally (aliased containers are explicit heap cells); objects live on a Boogie-style heap of per-field maps",
    "pyvc extraction drops docstrings, comments, log_msg(...) calls and the 'verbose' parameter; everything else in a verified body is translated or the run fails",
    "solvers (z3 5.1.0 / 4.8.12, cvc5 1.0.3) are trusted; every 'sat' is additionally replayed natively where inputs are scalar",
    "not modelled: threads, signals, MemoryError/RecursionError, monkey-patching of sheXer",
]

PROPS = {}
MON = ("bounded: run-time monitor of the composed pipeline against the oracle of lib/graphspec.py on enumerated small graphs + seeded random "
       "graphs (labelled bounded, never counted as proved)")

def _p(pid, contracts, bounded, explanation, level="other", **kw):
    d = {"contracts": contracts, "bounded": bounded, "level": level, "explanation": explanation}
    d.update(kw); PROPS[pid] = d

_p("C01", ["instances", "profiling", "shexing", "filtering", "c06_nt", "c18_state"], ["pipeline"],
   "Deductive: step contracts with whole-view frames for both counting passes (node->classes; (node,property,kind)->occurrences incl. shape kinds; "
   "(class,property,kind,cardinality)->#instances), frequency = n/N, every created statement carries its profile figure (loop invariants over the nested "
   "profile dictionaries), and the selection/tuning stage never writes a count (frame obligations; the original figure is kept as first comment before the "
   "probability is overwritten). The fold of the step contracts over the triple stream, the nested loops that enumerate (property, kind, cardinality) per "
   "instance, and the rendering of figures into text are covered by the " + MON)
_p("C02", ["filtering", "shexing", "grouping", "plumbing_profiler", "c06_nt", "instances", "c18_state"], ["pipeline"],
   "Deductive: the threshold filter creates exactly one statement per candidate with frequency >= threshold (counting recurrence n_pass, boundary case kept) "
   "and nothing below it; MergeableConstraints keeps one slot per member (counting invariant) and merge_group yields one constraint for the property; "
   "_decide_best returns a member of its group. The first O(n^2) grouping loop (_group_constraints_with_same_prop_and_obj) is verified with outer and inner "
   "loop invariants: the visited set is characterised exactly and the result holds exactly one statement per (property, kind) key of the candidates, each a member "
   "of the input. Of the second grouping loop the candidate search, the merge and their composition are verified (exactly the later non-literal candidates of the "
   "property join the group, the representation invariant is kept, the constraint returned is a member or a new statement); its outer loop is covered by the monitor. Empty-shape removal: detection, both filters and the "
   "terminating removal loop are verified (no shape without statements is left; the strategy dispatch in between is assumed). Composition: " + MON)
_p("C03", ["shexing", "grouping", "c06_nt", "instances", "profiling"], ["schemas"],
   "Deductive: relaxation rule ('?' iff allow_opt and cardinality 1, else '*'; only below 100 %), exact-cardinality generalisation, '+' always offered and "
   "preferred under keep_less_specific unless useless, with the mode off no cardinality is written. Conformance of every instance (ShEx semantics, "
   "recursive references) is decided by an independent validator on schema-consistent graphs: bounded (schemas.py).")
_p("C04", ["shexing", "c20_config", "c08_channels", "grouping", "c06_nt", "c07_ttl"], ["schemas"],
   "Deductive: exception-freedom (None dereference, missing keys, index range, call shapes, list.remove membership) of the node-kind merge under its "
   "representation invariant, which the constructor is proved to establish; call shapes of shex_graph / profile_graph; termination of empty-shape removal (every round removes at least one shape: decreases clause on "
   "ClassShexer._clean_empty_shapes) of the N-Triples tokenizer (_look_for_tokens) and of the token loop of a Turtle line (_process_line_with_potential_triples: every token "
   "ends strictly after it starts). Totality of the composed pipeline on "
   "adversarial mixes x configurations x formats: bounded (schemas.py).")
_p("C05", ["c05_tokens", "c18_state", "instances", "grouping"], ["schemas"],
   "Deductive: the label built for a class (build_shapes_name_for_class_uri: '<' + shapes namespace + local name + '>', never raises; for slash namespaces the "
   "local name is exactly the last path segment of the class IRI, so labels are injective on distinct local names; the '#' form is left to the monitor), the choice of the shapes prefix (first free default, proved against a user "
   "dictionary that already uses some of them), shape kinds only for nodes of the instance dictionary (reference closure at the source), and the output buffer "
   "(every line emitted is written exactly once, across the 5000-line flush); empty-shape removal: the shapes detected are exactly those without statements, "
   "exactly the listed shapes are dropped, the statement filter drops exactly the statements that point to a removed shape, and the removal loop ends with no "
   "empty shape left (the wiring of that filter into the strategy objects and the Shape setters is assumed). Grammar, prefix declarations, unique labels and resolvable references of whole "
   "documents (own ShExC parser / rdflib for SHACL): bounded (schemas.py).")
_p("C06", ["c06_nt"], ["readers"],
   "Deductive: the token-boundary helpers of the N-Triples tokenizer (end of an IRI token = its '>', end of an unspaced token = next blank or end of line, "
   "language tag = '@' right after the closing quote), termination of _look_for_tokens on every line (decreases clause; the hangs found were repaired), "
   "remove_corners/add_corners inverse, and the raw-string line reader (exactly the non-blank pieces between LINE FEEDs, in order). Literal scanning with escapes "
   "and the datatype/lang decoding are string code beyond the solvers (replace_all chains): the whole line -> triple function is compared with an independent "
   "grammar-directed generator and rdflib as referee on an exhaustive alphabet of tricky lines: bounded (readers.py).")
_p("C07", ["c07_ttl", "c06_nt"], ["readers"],
   "Deductive: _find_next_blank (exclusive end of a token: next blank or END of line), _count_prior_backslashes (maximal run; its parity decides whether a quote "
   "is escaped), and the subject/predicate/object automaton (_assing_tmp_element_and_promote_state keeps the other two slots, rejects a term in any other state) "
   "that carries ';' ',' and multi-line statements; _find_next_unescaped_quotes (the quote returned is preceded by an even, maximal run of backslashes; uses the "
   "contract of _count_prior_backslashes) and _parse_cornered_element (<...> unchanged without @base and for absolute http(s) IRIs, base + reference for a plain "
   "relative reference); progress and termination of the line scanner (_find_next_quoted_literal_ending, _next_line_token, and the token loop "
   "_process_line_with_potential_triples with a decreases clause, for lines whose '<' are all closed on the line). Prefix expansion of a prefixed name is assumed here. Whole documents (3 layouts per statement set, prefix and "
   "base re-declaration, numeric/boolean shorthands) against rdflib: bounded (readers.py).")
_p("C08", ["c08_channels", "c06_nt", "c17_min_iri"], ["channels"],
   "Deductive: the delivery dispatch (_decide_line_reader returns the reader class that matches exactly the one source given and hands it that source unchanged; "
   "check_just_one_not_none inlined from the real source) and the raw-string reader (same lines as a file with the same text: split at LINE FEED only). Parsers "
   "themselves are C06/C07; rdflib, gzip/zip/xz and the file system are assumed. Equality of the extracted shapes across all channels for the same abstract "
   "graph: bounded (channels.py).")
_p("C09", ["instances", "profiling", "shexing", "grouping", "c06_nt", "c17_min_iri"], ["pipeline"],
   "Deductive: two counting steps commute (lemma over the step contract of pass 2: same counters, same nodes, same class lists in either order); node and "
   "class names are opaque atoms in the verified counting code, so consistent renaming of blank nodes cannot be observed (parametricity of the accepted "
   "encoding); sorting is by probability with the group's members preserved. Permutations and relabelings of whole documents, and the choice under ties: " + MON)
_p("C10", ["instances", "c10_targets", "c06_nt"], ["pipeline"],
   "Deductive: relevance tests (predicate == instantiation property and (all classes or object among the target IRIs); model __eq__ methods inlined from the "
   "real source) and the per-triple step of pass 1 with whole-view frames (node->classes dictionary as a shared heap cell); rdf:type is an ordinary property "
   "under another instantiation property (_decide_type_elem). Selector parsing / SPARQL evaluation and the stream-level composition: " + MON)
_p("C11", ["c11_shacl", "c18_state"], ["schemas"],
   "Deductive: both serializers verified against one reference table (cardinality -> min/max, statement type -> value restriction, direction -> path) with an "
   "effect-trace contract on every triple handed to rdflib.Graph.add, fresh blank nodes counted. Loops over shapes/statements and rdflib itself are assumed; "
   "the two documents of one Shaper are compared after parsing: bounded (schemas.py).")
_p("C12", ["filtering", "c20_config", "c06_nt", "shexing", "grouping", "c18_state"], ["pipeline"],
   "Deductive: the threshold is applied once, on raw candidates (filter contracts with the counting recurrence; >= from the statement), the range check of the "
   "argument, frequency = n/N. Monotonicity over pairs of thresholds on whole runs: " + MON)
_p("C13", ["shexing", "serializers", "c18_state", "plumbing", "c06_nt"], ["pipeline"],
   "Deductive: the tuning pipeline rewrites exactly what each switch documents (cardinality after tuning = documented function of the cardinality and "
   "probability before; counts, kinds, properties never written; with every switch off nothing is written; disable_comments touches comments only; a "
   "disjunction keeps property, cardinality and figures). Presentation options and decimals rounding on whole runs: " + MON)
_p("C14", ["instances", "profiling", "c14_step", "c06_nt", "shexing"], ["pipeline"],
   "Deductive: the inverse counting step is the mirror of the direct one (same clause text on the third component, kind of the subject, shape kinds only "
   "for IRI subjects) and leaves the outgoing features of the object untouched; the per-triple step of the inverse strategy is verified as the composition "
   "'direct step on the subject if it is a tracked node + mirror step on the object if it is a tracked NODE (never a literal)' with frames over the whole "
   "dictionary; both threshold filters carry the same contract. The three-run metamorphic "
   "relation (with / without inverse_paths / reversed graph): " + MON)
_p("C15", ["c15_endpoint", "plumbing"], ["schemas"],
   "Deductive (under assumed SPARQL/HTTP contracts): per-node memoisation of the endpoint graph - the first request for a node and direction sends one "
   "query, later ones none; with the cache off every request sends one; hence caching never sends more queries (ghost query counter). Equality of the "
   "extracted shapes with a local run is decided with an in-process SPARQL evaluator substituted for the HTTP client: bounded (schemas.py).")
_p("C16", ["instances", "c16_ns", "plumbing"], ["pipeline"],
   "Deductive: counter invariant of the instance cap (every class counter <= limit, an instantiation triple is rejected exactly when its class is full, early "
   "stop only when the number of full classes reaches the number of target classes), proved per step with frames. Namespace filter and composition: " + MON)
_p("C17", ["c17_min_iri"], ["schemas"],
   "Deductive: longest_common_prefix (loop invariant, maximality), one step of the fold over instances with its frame, prefix transitivity lemma. The cut back "
   "to a separator (reversed string + regex) and the examples bookkeeping: bounded (schemas.py).", crosscheck=True)
_p("C18", ["c18_state", "c20_config"], ["history"],
   "Deductive: buffer invariant of the ShExC serializer (sink text ++ pending lines grows by exactly the written line, across the 5000-line flush; file sink "
   "assumed to append), cache invariant of Shaper.shex_graph (the shapes that are serialised were computed for this call's threshold). Call histories of "
   "length <= 3, pairs of Shapers, outputs > 10 000 lines: bounded (history.py).")
_p("C19", ["c05_tokens", "c20_config", "c17_min_iri"], ["static.c19_scan", "determinism"],
   "Deductive/syntactic: the finite list of nondeterminism sources (set constructions, random, id, hash) is recomputed from the tree on every run and must equal "
   "the reviewed list; membership-only sets are checked (syntactically) never to be iterated; the shapes prefix is proved to be the first free default, so "
   "random is reached only when all four are taken. Byte-identity across processes with different hash seeds: bounded (determinism.py, fresh subprocesses).")
_p("C20", ["c20_config"], ["config"],
   "Loop-free validation code of Shaper.__init__ / shex_graph verified against the reference predicate of the statement over fully symbolic arguments "
   "(presence flags and values); one obligation per program path and exception edge, so the discharge is a complete proof over the whole argument product. "
   "Assumed: building the remote graph / parsing a well-formed shape map / building the graph that resolves shape-map selectors does not raise; "
   "that last part runs for real in the bounded stand-in (bounded/config.py: real constructor calls on real files, present-but-empty values, "
   "compressions and formats against a reference predicate written from the statement), which is where the open finding lives.", level="proof", min_obligations=300, crosscheck=True)

HOOK_COMMITS = []
NOT_APPLICABLE = {}
