"""Per-property configuration of ./check: which contract modules, bounded stand-ins and monitors decide it."""

ENCODING_ASSUMPTIONS = [
    "pyvc encoding: Python int = mathematical integer; float modelled as real (exact n/N); str = SMT string of code points",
    "pyvc encoding: dict/list/set values are modelled functionally (no aliasing between containers); objects live on a Boogie-style heap of per-field maps",
    "pyvc extraction drops docstrings, comments, log_msg(...) calls and the 'verbose' parameter; everything else in a verified body is translated or the run fails",
    "solvers (z3 5.1.0 / 4.8.12, cvc5 1.0.3) are trusted; every 'sat' is additionally replayed natively where inputs are scalar",
    "not modelled: threads, signals, MemoryError/RecursionError, monkey-patching of sheXer",
]

PROPS = {
    "C20": {
        "contracts": ["c20_config"],
        "level": "proof",
        "min_obligations": 300,
        "explanation": "Loop-free validation code of Shaper.__init__ / shex_graph verified against the reference predicate of the statement over "
                       "fully symbolic arguments (presence flags and values); one obligation per program path and exception edge, so the discharge "
                       "is a complete proof over the whole argument product.",
    },
}

HOOK_COMMITS = []
NOT_APPLICABLE = {}
PROPS["C17"] = {"contracts": ["c17_min_iri"], "level": "other", "explanation": "wip"}
PROPS["C11"] = {"contracts": ["c11_shacl"], "level": "other", "explanation": "wip"}
PROPS["C10"] = {"contracts": ["instances"], "level": "other", "explanation": "wip"}
PROPS["C16"] = {"contracts": ["instances"], "level": "other", "explanation": "wip"}
