"""Per-property configuration of ./check: which contract modules, bounded stand-ins and monitors decide it."""

ENCODING_ASSUMPTIONS = [
    "pyvc encoding: Python int = mathematical integer; float modelled as real (exact n/N); str = SMT string of code points",
    "pyvc encoding: dict/list/set values are modelled functionally (no aliasing between containers); objects live on a Boogie-style heap of per-field maps",
    "pyvc extraction drops docstrings, comments, log_msg(...) calls and the 'verbose' parameter; everything else in a verified body is translated or the run fails",
    "solvers (z3 5.1.0 / 4.8.12, cvc5 1.0.3) are trusted; every 'sat' is additionally replayed natively where inputs are scalar",
    "not modelled: threads, signals, MemoryError/RecursionError, monkey-patching of sheXer",
]

PROPS = {
    "C20": {
        "contracts": ["c20_config"],
        "level": "proof",
        "min_obligations": 300,
        "explanation": "Loop-free validation code of Shaper.__init__ / shex_graph verified against the reference predicate of the statement over "
                       "fully symbolic arguments (presence flags and values); one obligation per program path and exception edge, so the discharge "
                       "is a complete proof over the whole argument product.",
    },
}

HOOK_COMMITS = []
NOT_APPLICABLE = {}

MON = "bounded: run-time monitor of the composed pipeline against the oracle of lib/graphspec.py on enumerated small graphs + seeded random graphs (labelled bounded, never counted as proved)"

def _p(pid, contracts, bounded, explanation, level="other", **kw):
    d = {"contracts": contracts, "bounded": bounded, "level": level, "explanation": explanation}
    d.update(kw); PROPS[pid] = d

_p("C17", ["c17_min_iri"], [], "longest_common_prefix (loop invariant, maximality), one step of the fold over instances and its frame are proved; "
   "the cut back to a separator (_determine_suitable_iri_pattern uses a reversed string and a regex) and the examples bookkeeping are bounded stand-ins.")
_p("C11", ["c11_shacl"], [], "Both serializers are verified against one reference table (cardinality -> min/max, statement type -> value restriction, direction -> path) "
   "with an effect-trace contract on every triple handed to rdflib.Graph.add; the loops over shapes/statements and rdflib itself are assumed/bounded.")
_p("C10", ["instances"], ["pipeline"], "Relevance tests and the per-triple step of pass 1 are proved with whole-view frames (node -> classes dictionary as a shared heap cell); "
   "selector parsing / SPARQL evaluation and the stream-level composition are covered by the " + MON)
_p("C16", ["instances"], ["pipeline"], "Counter invariant of the instance cap (every class counter <= limit, rejected exactly when full, early stop only when all target classes are full) is proved per step; "
   "namespace filter and composition: " + MON)
_p("C03", ["shexing"], [], "wip")
_p("C04", ["shexing", "c20_config"], [], "wip")
_p("C01", ["instances", "profiling", "shexing"], ["pipeline"], "wip")
_p("C12", ["filtering", "c20_config"], ["pipeline"], "wip")
_p("C02", ["filtering", "shexing"], ["pipeline"], "wip")
for pid in ("C09", "C13", "C14"):
    _p(pid, [], ["pipeline"], MON)

HOOK_COMMITS = []
NOT_APPLICABLE = {}
_p("C18", ["c18_state", "c20_config"], [], "wip")
