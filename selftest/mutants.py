#!/usr/bin/env python
"""Mutation self-test of the contracts added in the third session: each mutant is a small edit of the real source that compiles; it is applied to a
scratch copy of /repo/shexer (outside /repo and /verif, removed afterwards) and the deductive part of the property's check is run against that copy
(VERIF_REPO).  Every mutant must make the check exit 1 (a refuted obligation, or an obligation of the baseline that is no longer discharged).
usage: python selftest/mutants.py [name-substring]        exit 0 = every mutant detected, 1 = some mutant survived"""
import sys, os, shutil, subprocess, tempfile, time, json
HERE = os.path.dirname(os.path.abspath(__file__)); ROOT = os.path.dirname(HERE)
ASS = "shexer/core/shexing/strategy/abstract_shexing_strategy.py"
CSX = "shexer/core/shexing/class_shexer.py"
TTL = "shexer/io/graph/yielder/big_ttl_triples_yielder.py"
MUTANTS = [
    ("grouping-inner-loop-starts-one-later", "C02", "_group_constraints_with_same_prop_and_obj", ASS,
     "for j in range(i + 1, len(candidate_statements)):", "for j in range(i + 2, len(candidate_statements)):"),
    ("same-tokens-or-instead-of-and", "C02", "_statements_have_same_tokens", ASS,
     "if st1.st_property == st2.st_property and st1.st_type == st2.st_type:", "if st1.st_property == st2.st_property or st1.st_type == st2.st_type:"),
    ("candidate-search-skips-first", "C02", "_find_all_candidates_to_merge", ASS,
     "for j in range(target_index_original_statements, len(all_original_statements)):", "for j in range(target_index_original_statements + 1, len(all_original_statements)):"),
    ("statement-filter-inverted", "C05", "_statements_without_shapes_to_remove", ASS,
     "if not a_statement.st_type in shape_names_to_remove:", "if a_statement.st_type in shape_names_to_remove:"),
    ("shape-filter-keeps-listed-shapes", "C05", "ClassShexer", CSX,
     "if not a_shape.name in shape_names_to_remove:", "if a_shape.name in shape_names_to_remove or a_shape.n_statements > 0:"),
    ("detect-nonempty-shapes", "C05", "ClassShexer", CSX,
     "if a_shape.n_statements == 0:", "if a_shape.n_statements <= 1:"),
    ("cornered-http-prefix-narrowed", "C07", "_parse_cornered_element", TTL,
     'elif not cornered_element[1:].startswith("http"):', 'elif not cornered_element[1:].startswith("http://"):'),
    ("unescaped-quote-parity-flipped", "C07", "_find_next_unescaped_quotes", TTL,
     "quote_pos=pos) % 2 == 0:", "quote_pos=pos) % 2 == 1:"),
    ("ttl-closure-token-does-not-advance", "C07", "_next_line_token", TTL,
     "return a_line[start_index], start_index + 1", "return a_line[start_index], start_index"),
    ("ttl-literal-end-before-its-start", "C07", "_find_next_quoted_literal_ending", TTL,
     "start_index=start_index+1)", "start_index=start_index)"),
    ("merge-returns-first-member-unmerged", "C04", "merge_group", ASS,
     "        self._merge_content_in_single_statement()\n        return self._dominant_constraint", "        self._merge_content_in_single_statement()\n        return self._iri_constraint"),
]

def main():
    want = sys.argv[1] if len(sys.argv) > 1 else ""
    rows = []; survived = 0
    for name, pid, only, rel, old, new in MUTANTS:
        if want not in name: continue
        d = tempfile.mkdtemp(prefix="/tmp/pyvc_mut_")
        try:
            shutil.copytree("/repo/shexer", os.path.join(d, "shexer"))
            p = os.path.join(d, rel); src = open(p).read()
            if src.count(old) != 1:
                rows.append((name, pid, "MUTATION-DID-NOT-APPLY (%d matches)" % src.count(old), 0)); survived += 1; continue
            open(p, "w").write(src.replace(old, new))
            compile(open(p).read(), p, "exec")
            t0 = time.time()
            r = subprocess.run([os.path.join(ROOT, "check"), pid, "--no-bounded", "--only", only], capture_output=True, text=True,
                               env=dict(os.environ, VERIF_REPO=d))
            viol = [l for l in r.stdout.splitlines() if l.startswith("VIOLATION")]
            how = "refuted" if any("no-failing-input-found" not in l for l in viol) else ("baseline regression" if viol else "-")
            rows.append((name, pid, "exit %d, %d VIOLATION line(s), %s" % (r.returncode, len(viol), how), round(time.time() - t0)))
            if r.returncode != 1: survived += 1
        finally:
            shutil.rmtree(d, ignore_errors=True)
    for row in rows: print("%-42s %s  %-60s %4ss" % row)
    print("%d mutant(s), %d survived" % (len(rows), survived))
    return 1 if survived else 0

if __name__ == "__main__":
    sys.exit(main())
