"""Loop-free (or invariant-free) snippets in the Python subset the verifier accepts.  selftest/semantics.py runs each one natively (CPython)
and symbolically (pyvc) on the listed concrete inputs and demands the same outcome: a mismatch is an unsound/incomplete encoding."""


def s_slice_a(s, i, j):
    return s[i:j]

def s_slice_from(s, i):
    return s[i:]

def s_slice_to(s, j):
    return s[:j]

def s_index(s, i):
    return s[i]

def s_last(s):
    return s[-1]

def s_len(s):
    return len(s)

def s_find(s, t):
    return s.find(t)

def s_find_from(s, t, k):
    return s.find(t, k)

def s_rfind_slash(s):
    return s.rfind("/")

def s_rfind_hash_then_slash(s):
    if "#" in s:
        return s[s.rfind("#") + 1:]
    return s[s.rfind("/") + 1:]

def s_startswith(s, t):
    return s.startswith(t)

def s_endswith(s, t):
    return s.endswith(t)

def s_replace(s, a, b):
    return s.replace(a, b)

def s_strip(s):
    return s.strip()

def s_contains(s, t):
    return t in s

def s_not_contains(s, t):
    return t not in s

def s_concat(a, b):
    return a + "|" + b

def s_eq(a, b):
    return a == b

def s_ne(a, b):
    return a != b

def s_of_int(n):
    return str(n)

def s_fstring(a, n):
    return f"{a}:{n}"

def s_format(a, b):
    return "<{}> [{}]".format(a, b)

def s_join_display(a, b, c):
    return ", ".join([a, b, c])

def s_join_list(xs):
    return "".join(xs)

def s_truth(s):
    if s:
        return 1
    return 0

def s_neg_index_slice(s):
    return s[1:-1]

def s_corners(s):
    if s.startswith("<") and s.endswith(">"):
        return s[1:-1]
    raise ValueError("no corners: " + s)

def s_in_tuple(s):
    return s in ("a", "rdf:type", "")

def s_chained_compare(s):
    return len(s) > 0 and s[0] == "<" and s[len(s) - 1] == ">"

def s_isnumeric_digit(s):
    return s.isnumeric()


def i_arith(a, b):
    return a + b * 2 - 7

def i_floordiv(a, b):
    return a // b

def i_mod(a, b):
    return a % b

def i_cmp(a, b):
    if a < b:
        return -1
    elif a == b:
        return 0
    return 1

def i_minmax(a, b):
    return min(a, b) * 100 + max(a, b)

def i_abs(a):
    return abs(a)

def i_chain(a, b, c):
    return a <= b < c

def i_truediv_cmp(a, b, t):
    return a / b >= t

def i_int_of_float(a, b):
    return int(a / b)

def i_float_mul_cmp(a, b):
    return float(a) * 100 > b

def i_aug(a):
    x = a
    x += 3
    x -= 1
    x *= 2
    return x

def i_ternary(a):
    return "neg" if a < 0 else ("zero" if a == 0 else "pos")

def i_bool_ops(a, b):
    return (a > 0 and b > 0) or not (a < 5)

def i_truth(a):
    if a:
        return "t"
    return "f"


def o_is_none(x):
    return x is None

def o_default(x):
    return x if x is not None else "dflt"

def o_truth(x):
    if x:
        return "truthy"
    return "falsy"

def o_len(x):
    return len(x)

def o_eq_const(x):
    return x == "zip"

def o_or_chain(x):
    return x is None or x == "gz" or x == "xz"

def o_startswith(x):
    return x.startswith("h")

def o_int_truth(n):
    if n is not None and n > 0:
        return n + 1
    return 0

def o_return_none(x):
    if x == "a":
        return None
    return x


def l_len(xs):
    return len(xs)

def l_index(xs, i):
    return xs[i]

def l_last(xs):
    return xs[-1]

def l_append(xs, v):
    xs.append(v)
    return xs

def l_append_fresh(a, b):
    ys = []
    ys.append(a)
    ys.append(b)
    ys.append(a)
    return ys

def l_in(xs, v):
    return v in xs

def l_not_in(xs, v):
    return v not in xs

def l_truth(xs):
    if xs:
        return 1
    return 0

def l_store(xs, i, v):
    xs[i] = v
    return xs

def l_insert0(xs, v):
    xs.insert(0, v)
    return xs

def l_comp(xs):
    return [x + "!" for x in xs]

def l_comp_tuple_filter(a, b, c):
    return [x for x in (a, b, c) if x is not None]

def l_len_comp_filter(a, b, c):
    return len([x for x in (a, b, c) if x])

def l_comp_list_filter(xs, t):
    return [x for x in xs if x.startswith(t)]

def l_comp_list_filter_len(xs):
    return len([x for x in xs if x != ""])

def l_display_index(a, b):
    t = (a, b)
    return t[1]

def l_unpack(a, b):
    x, y = b, a
    return x + y

def l_concat_display(a, b):
    return len([a] + [b, a])

def l_eq(xs, ys):
    return xs == ys

def l_remove(xs, v):
    xs.remove(v)
    return xs


def d_in(d, k):
    return k in d

def d_get_item(d, k):
    return d[k]

def d_store(d, k, v):
    d[k] = v
    return d

def d_store_then_read(d, k, v):
    d[k] = v
    return d[k] + 1

def d_counter(d, k):
    if k not in d:
        d[k] = 0
    d[k] += 1
    return d

def d_setdefault(d, k, v):
    d.setdefault(k, v)
    return d

def d_fresh(a, b):
    d = {}
    d[a] = 1
    d[b] = 2
    return d

def d_literal(a):
    d = {"x": 1, "y": 2}
    return d[a]

def d_nested(d, a, b):
    if a not in d:
        d[a] = {}
    if b not in d[a]:
        d[a][b] = 0
    d[a][b] += 1
    return d[a][b]

def d_truth(d):
    if d:
        return 1
    return 0

def d_copy(d, k):
    e = dict(d)
    e[k] = 99
    return d


def t_catch_key(d, k):
    try:
        return d[k]
    except KeyError:
        return -1

def t_catch_value(s):
    try:
        return s_corners(s)
    except ValueError:
        return "none"

def t_raise_if(a):
    if a > 10:
        raise ValueError("too big")
    return a

def t_index_error(xs, i):
    try:
        return xs[i]
    except IndexError:
        return "oob"

def t_finally_like(a):
    r = 0
    try:
        r = t_raise_if(a)
    except ValueError:
        r = -1
    return r

def t_typeerror_none_len(x):
    return len(x)

def t_none_attr(x):
    return x.startswith("a")


class Node(object):
    def __init__(self, v):
        self._v = v

    @property
    def v(self):
        return self._v

    def bump(self, n):
        self._v += n
        return self._v

    def __eq__(self, other):
        return type(other) == type(self) and other._v == self._v


class SubNode(Node):
    def bump(self, n):
        self._v += 2 * n
        return self._v


class Bag(object):
    def __init__(self):
        self._items = []
        self._index = {}

    def add(self, x):
        self._items.append(x)
        if x not in self._index:
            self._index[x] = 0
        self._index[x] += 1

    def size(self):
        return len(self._items)

    def count(self, x):
        return self._index[x] if x in self._index else 0


def c_make(a):
    n = Node(a)
    return n.v

def c_bump(a, b):
    n = Node(a)
    n.bump(b)
    n.bump(b)
    return n.v

def c_dispatch(a, flag):
    n = SubNode(a) if flag else Node(a)
    return n.bump(1)

def c_alias(a):
    n = Node(a)
    m = n
    m.bump(5)
    return n.v

def c_two(a):
    n = Node(a)
    m = Node(a)
    m.bump(1)
    return n.v * 10 + m.v

def c_isinstance(flag):
    n = SubNode(1) if flag else Node(1)
    return isinstance(n, SubNode)

def c_eq(a, b, flag):
    n = Node(a)
    m = SubNode(b) if flag else Node(b)
    return n == m

def c_bag(a, b):
    g = Bag()
    g.add(a)
    g.add(b)
    g.add(a)
    return g.size() * 10 + g.count(a)

def c_bag_alias(a):
    g = Bag()
    items = g._items
    items.append(a)
    return g.size()

def c_bag_two(a):
    g = Bag()
    h = Bag()
    g.add(a)
    return h.size() + h.count(a)

def c_param_list_alias(xs, v):
    ys = xs
    ys.append(v)
    return len(xs)


def helper_append(lst, v):
    lst.append(v)

def a_inline_mutates(xs, v):
    helper_append(xs, v)
    helper_append(xs, v)
    return len(xs)

def a_inline_mutates_field(a):
    g = Bag()
    helper_append(g._items, a)
    return g.size()

def a_reverse(xs, v):
    ys = xs
    xs.append(v)
    return len(ys)

def a_nested_param(d, k):
    inner = d[k]
    inner["x"] = 1
    return d[k]["x"]

def a_loop_elem(xss):
    for xs in xss:
        xs.append("z")
    return len(xss[0])


def i_round3(a, b):
    return round(a / b, 3) != 1

def i_round1_cmp(a, b):
    return round(a / b, 1) >= 0.5
