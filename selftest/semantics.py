#!/usr/bin/env python
"""CPython cross-check of the pyvc encoding.  Every snippet of selftest/corpus/semcorpus.py is run natively and symbolically on concrete
inputs; the symbolic run is a *point contract* (requires pin the inputs, ensures/raises state the native outcome) whose obligations must all
be discharged and whose precondition must be reachable.  Any refuted obligation = the encoding disagrees with CPython on that input.
usage: python selftest/semantics.py [-v] [name-substring]        exit 0 = no mismatch, 1 = mismatch, 3 = harness error"""
import sys, os, importlib, time, json
HERE = os.path.dirname(os.path.abspath(__file__)); ROOT = os.path.dirname(HERE)
sys.path.insert(0, ROOT)
os.environ["VERIF_REPO"] = os.path.join(HERE, "corpus")
sys.path.insert(0, os.environ["VERIF_REPO"])
from pyvc import registry as R, extract as X, solve
from pyvc.types import Int, Bool, Real, Str, Opt, List, Dict, Tup, NoneT
from pyvc.engine import Executor
from pyvc.state import VCError
import semcorpus as C

OS, OI = Opt(Str), Opt(Int)
LS, DSI, DSD = List(Str), Dict(Str, Int), Dict(Str, Dict(Str, Int))
TRICKY = ["", "a", "<a>", "http://ex.org/a#b", "a/b/c", " x ", "\t\n", "<", "ab c", "%", "'q'\"", "\\"]
CASES = {
 "s_slice_a": ({"s": Str, "i": Int, "j": Int}, Str, [("hello", 1, 3), ("hello", -3, -1), ("hello", 3, 1), ("hello", -10, 10), ("", 0, 0), ("hello", 0, -1), ("abc", 2, 7), ("abc", -1, 3)]),
 "s_slice_from": ({"s": Str, "i": Int}, Str, [("hello", 2), ("hello", -2), ("hello", 9), ("hello", -9), ("", 0)]),
 "s_slice_to": ({"s": Str, "j": Int}, Str, [("hello", 2), ("hello", -2), ("hello", 9), ("hello", -9), ("", -1)]),
 "s_index": ({"s": Str, "i": Int}, Str, [("abc", 0), ("abc", 2), ("abc", -1), ("abc", -3), ("abc", 3), ("abc", -4), ("", 0)]),
 "s_last": ({"s": Str}, Str, [("abc",), ("a",), ("",)]),
 "s_len": ({"s": Str}, Int, [(x,) for x in TRICKY]),
 "s_find": ({"s": Str, "t": Str}, Int, [("a/b/c", "/"), ("abc", "x"), ("abc", ""), ("", "a"), ("aaa", "aa")]),
 "s_find_from": ({"s": Str, "t": Str, "k": Int}, Int, [("a/b/c", "/", 2), ("a/b/c", "/", 4), ("a/b/c", "/", 0), ("abc", "c", 3), ("abc", "", 5)]),
 "s_rfind_slash": ({"s": Str}, Int, [("a/b/c",), ("abc",), ("/",), ("",), ("//",), ("http://x/y/",)]),
 "s_rfind_hash_then_slash": ({"s": Str}, Str, [("http://x/y#z",), ("http://x/y/z",), ("abc",), ("a#b#c",), ("a#",), ("http://x/y#z/w",)]),
 "s_startswith": ({"s": Str, "t": Str}, Bool, [("http://a", "http"), ("a", "ab"), ("", ""), ("a", ""), ("<x", "<")]),
 "s_endswith": ({"s": Str, "t": Str}, Bool, [("x>", ">"), ("a", "ba"), ("", ""), ("a", "")]),
 "s_replace": ({"s": Str, "a": Str, "b": Str}, Str, [("a.b.c", ".", "_"), ("aaa", "aa", "b"), ("abc", "x", "y"), ("ex:a:b", "ex:", "http://e/"), ("abc", "b", "")]),
 "s_strip": ({"s": Str}, Str, [(" x ",), ("x",), ("\t\n",), ("",), (" a b \r\n",), ("\n<a> .",)]),
 "s_contains": ({"s": Str, "t": Str}, Bool, [("abc", "b"), ("abc", "x"), ("abc", ""), ("", "a"), ("a@b", "@")]),
 "s_not_contains": ({"s": Str, "t": Str}, Bool, [("abc", "b"), ("abc", "x")]),
 "s_concat": ({"a": Str, "b": Str}, Str, [("a", "b"), ("", ""), (" ", "%")]),
 "s_eq": ({"a": Str, "b": Str}, Bool, [("a", "a"), ("a", "b"), ("", ""), ("a", "a ")]),
 "s_ne": ({"a": Str, "b": Str}, Bool, [("a", "a"), ("a", "b")]),
 "s_of_int": ({"n": Int}, Str, [(0,), (7,), (-7,), (123456789,), (-1,)]),
 "s_fstring": ({"a": Str, "n": Int}, Str, [("x", 3), ("", -2)]),
 "s_format": ({"a": Str, "b": Str}, Str, [("x", "y"), ("", "{}")]),
 "s_join_display": ({"a": Str, "b": Str, "c": Str}, Str, [("x", "y", "z"), ("", "", "")]),
 "s_truth": ({"s": Str}, Int, [("",), ("a",), (" ",)]),
 "s_neg_index_slice": ({"s": Str}, Str, [("<abc>",), ("<>",), ("a",), ("",)]),
 "s_corners": ({"s": Str}, Str, [("<a>",), ("a",), ("<>",), ("<",), ("",), ("<a",)]),
 "s_in_tuple": ({"s": Str}, Bool, [("a",), ("rdf:type",), ("",), ("b",)]),
 "s_chained_compare": ({"s": Str}, Bool, [("<a>",), ("",), ("<a",), ("<",), (">",)]),
 "s_isnumeric_digit": ({"s": Str}, Bool, [("123",), ("0",), ("a",), ("-",)]),
 "i_arith": ({"a": Int, "b": Int}, Int, [(1, 2), (-5, 3), (0, 0)]),
 "i_floordiv": ({"a": Int, "b": Int}, Int, [(7, 2), (-7, 2), (7, -2), (-7, -2), (0, 3), (6, 3), (1, 0)]),
 "i_mod": ({"a": Int, "b": Int}, Int, [(7, 2), (-7, 2), (7, -2), (-7, -2), (0, 3), (6, 3), (1, 0)]),
 "i_cmp": ({"a": Int, "b": Int}, Int, [(1, 2), (2, 2), (3, 2)]),
 "i_minmax": ({"a": Int, "b": Int}, Int, [(1, 2), (2, 1), (3, 3), (-1, 1)]),
 "i_abs": ({"a": Int}, Int, [(3,), (-3,), (0,)]),
 "i_chain": ({"a": Int, "b": Int, "c": Int}, Bool, [(1, 2, 3), (1, 1, 1), (2, 1, 3), (1, 3, 3)]),
 "i_truediv_cmp": ({"a": Int, "b": Int, "t": Real}, Bool, [(1, 2, 0.5), (1, 4, 0.5), (3, 4, 0.5), (0, 5, 0.0), (5, 5, 1.0)]),
 "i_int_of_float": ({"a": Int, "b": Int}, Int, [(7, 2), (-7, 2), (1, 4), (8, 2), (-1, 4)]),
 "i_float_mul_cmp": ({"a": Int, "b": Int}, Bool, [(1, 99), (1, 100), (0, -1)]),
 "i_aug": ({"a": Int}, Int, [(0,), (5,), (-9,)]),
 "i_ternary": ({"a": Int}, Str, [(-1,), (0,), (1,)]),
 "i_bool_ops": ({"a": Int, "b": Int}, Bool, [(1, 1), (1, -1), (7, -1), (-1, -1), (5, 0)]),
 "i_truth": ({"a": Int}, Str, [(0,), (1,), (-1,)]),
 "o_is_none": ({"x": OS}, Bool, [(None,), ("",), ("a",)]),
 "o_default": ({"x": OS}, Str, [(None,), ("",), ("a",)]),
 "o_truth": ({"x": OS}, Str, [(None,), ("",), ("a",)]),
 "o_len": ({"x": OS}, Int, [("",), ("ab",), (None,)]),
 "o_eq_const": ({"x": OS}, Bool, [(None,), ("zip",), ("gz",)]),
 "o_or_chain": ({"x": OS}, Bool, [(None,), ("zip",), ("gz",), ("xz",), ("",)]),
 "o_startswith": ({"x": OS}, Bool, [("http",), ("x",), (None,)]),
 "o_int_truth": ({"n": OI}, Int, [(None,), (0,), (3,), (-3,)]),
 "o_return_none": ({"x": Str}, OS, [("a",), ("b",), ("",)]),
 "l_len": ({"xs": LS}, Int, [([],), (["a"],), (["a", "b", "a"],)]),
 "l_index": ({"xs": LS, "i": Int}, Str, [(["a", "b"], 0), (["a", "b"], 1), (["a", "b"], -1), (["a", "b"], 2), (["a", "b"], -3), ([], 0)]),
 "l_last": ({"xs": LS}, Str, [(["a", "b"],), (["a"],), ([],)]),
 "l_append": ({"xs": LS, "v": Str}, LS, [([], "a"), (["a"], "a"), (["x", "y"], "")]),
 "l_append_fresh": ({"a": Str, "b": Str}, LS, [("x", "y"), ("", "")]),
 "l_in": ({"xs": LS, "v": Str}, Bool, [([], "a"), (["a"], "a"), (["x", "y"], "z"), (["x", ""], "")]),
 "l_not_in": ({"xs": LS, "v": Str}, Bool, [([], "a"), (["a"], "a")]),
 "l_truth": ({"xs": LS}, Int, [([],), ([""],)]),
 "l_store": ({"xs": LS, "i": Int, "v": Str}, LS, [(["a", "b"], 0, "z"), (["a", "b"], -1, "z"), (["a", "b"], 2, "z"), ([], 0, "z")]),
 "l_insert0": ({"xs": LS, "v": Str}, LS, [([], "a"), (["b", "c"], "a")]),
 "l_comp": ({"xs": LS}, LS, [([],), (["a", "b"],)]),
 "l_comp_tuple_filter": ({"a": OS, "b": OS, "c": OS}, LS, [(None, None, None), ("a", None, "c"), ("", "b", None), ("a", "b", "c")]),
 "l_len_comp_filter": ({"a": OS, "b": OS, "c": OS}, Int, [(None, None, None), ("a", None, "c"), ("", "b", None), ("a", "b", "c"), ("", "", "")]),
 "l_comp_list_filter": ({"xs": LS, "t": Str}, LS, [([], "a"), (["a", "b", "ab"], "a"), (["b", "b"], "a"), (["a", "a"], "a"), (["x", "ay", "z", "az"], "a"), (["q"], "")]),
 "l_comp_list_filter_len": ({"xs": LS}, Int, [([],), (["", "a", ""],), (["a", "b"],), ([""],)]),
 "l_display_index": ({"a": Str, "b": Str}, Str, [("x", "y")]),
 "l_unpack": ({"a": Str, "b": Str}, Str, [("x", "y")]),
 "l_concat_display": ({"a": Str, "b": Str}, Int, [("x", "y")]),
 "l_eq": ({"xs": LS, "ys": LS}, Bool, [([], []), (["a"], ["a"]), (["a"], ["b"]), (["a"], ["a", "a"]), (["a", "b"], ["b", "a"])]),
 "l_remove": ({"xs": LS, "v": Str}, LS, [(["a", "b", "a"], "a"), (["a"], "a"), (["a"], "b"), ([], "a"), (["x", "y", "z"], "z")]),
 "d_in": ({"d": DSI, "k": Str}, Bool, [({}, "a"), ({"a": 1}, "a"), ({"a": 1}, "b")]),
 "d_get_item": ({"d": DSI, "k": Str}, Int, [({"a": 1}, "a"), ({"a": 1}, "b"), ({}, "")]),
 "d_store": ({"d": DSI, "k": Str, "v": Int}, DSI, [({}, "a", 1), ({"a": 1}, "a", 2), ({"a": 1}, "b", 2)]),
 "d_store_then_read": ({"d": DSI, "k": Str, "v": Int}, Int, [({}, "a", 1), ({"a": 5}, "a", 2)]),
 "d_counter": ({"d": DSI, "k": Str}, DSI, [({}, "a"), ({"a": 1}, "a"), ({"a": 1}, "b")]),
 "d_setdefault": ({"d": DSI, "k": Str, "v": Int}, DSI, [({}, "a", 1), ({"a": 5}, "a", 2), ({"a": 5}, "b", 2)]),
 "d_fresh": ({"a": Str, "b": Str}, DSI, [("x", "y"), ("x", "x")]),
 "d_literal": ({"a": Str}, Int, [("x",), ("y",), ("z",)]),
 "d_nested": ({"d": DSD, "a": Str, "b": Str}, Int, [({}, "p", "k"), ({"p": {}}, "p", "k"), ({"p": {"k": 4}}, "p", "k"), ({"p": {"k": 4}}, "q", "k"), ({"p": {"k": 4}}, "p", "j")]),
 "d_truth": ({"d": DSI}, Int, [({},), ({"a": 0},)]),
 "d_copy": ({"d": DSI, "k": Str}, DSI, [({}, "a"), ({"a": 1}, "a"), ({"a": 1}, "b")]),
 "t_catch_key": ({"d": DSI, "k": Str}, Int, [({"a": 1}, "a"), ({"a": 1}, "b")]),
 "t_catch_value": ({"s": Str}, Str, [("<a>",), ("a",), ("",)]),
 "t_raise_if": ({"a": Int}, Int, [(10,), (11,), (-1,)]),
 "t_index_error": ({"xs": LS, "i": Int}, Str, [(["a"], 0), (["a"], 1), (["a"], -1), (["a"], -2)]),
 "t_finally_like": ({"a": Int}, Int, [(3,), (30,)]),
 "c_make": ({"a": Int}, Int, [(3,)]),
 "c_bump": ({"a": Int, "b": Int}, Int, [(3, 2), (0, -1)]),
 "c_dispatch": ({"a": Int, "flag": Bool}, Int, [(3, True), (3, False)]),
 "c_alias": ({"a": Int}, Int, [(3,)]),
 "c_two": ({"a": Int}, Int, [(3,)]),
 "c_isinstance": ({"flag": Bool}, Bool, [(True,), (False,)]),
 "c_eq": ({"a": Int, "b": Int, "flag": Bool}, Bool, [(1, 1, False), (1, 2, False), (1, 1, True)]),
 "c_bag": ({"a": Str, "b": Str}, Int, [("x", "y"), ("x", "x")]),
 "c_bag_alias": ({"a": Str}, Int, [("x",)]),
 "c_bag_two": ({"a": Str}, Int, [("x",)]),
 "c_param_list_alias": ({"xs": LS, "v": Str}, Int, [(["a"], "b"), ([], "b")]),
 "a_inline_mutates": ({"xs": LS, "v": Str}, Int, [([], "a"), (["q"], "a")]),
 "a_inline_mutates_field": ({"a": Str}, Int, [("x",)]),
 "a_reverse": ({"xs": LS, "v": Str}, Int, [([], "a")]),
 "a_nested_param": ({"d": DSD, "k": Str}, Int, [({"k": {}}, "k")]),
 "a_loop_elem": ({"xss": List(LS)}, Int, [([["a"]],)]),
 "i_round3": ({"a": Int, "b": Int}, Bool, [(1, 3), (1999, 2000), (2499, 2500), (2, 2), (9994, 10000), (9996, 10000)]),
 "i_round1_cmp": ({"a": Int, "b": Int}, Bool, [(1, 3), (44, 100), (46, 100), (2, 3)]),
 "t_typeerror_none_len": ({"x": OS}, Int, [("ab",), (None,)]),
 "t_none_attr": ({"x": OS}, Bool, [("ab",), (None,)]),
}

def lit(v):
    return repr(v)

def pin(name, v, ty):
    """spec clauses fixing parameter `name` to the python value v"""
    if ty in (Int, Bool, Str): return ["%s == %s" % (name, lit(v))]
    if ty == Real: return ["%s == to_real(%d) / to_real(%d)" % ((name,) + float(v).as_integer_ratio())]
    if isinstance(ty, Opt):
        return ["%s is None" % name] if v is None else ["%s is not None" % name] + pin("some(%s)" % name, v, ty.t)
    if isinstance(ty, List):
        out = ["len(%s) == %d" % (name, len(v))]
        for i, x in enumerate(v): out += pin("%s[%d]" % (name, i), x, ty.t)
        return out
    if isinstance(ty, Dict):
        keys = " or ".join("k == %s" % lit(k) for k in v) or "False"
        out = ["forall(%s, lambda k: (k in %s) == (%s))" % ("Str" if ty.k == Str else "Int", name, keys)]
        for k, x in v.items(): out += pin("%s[%s]" % (name, lit(k)), x, ty.v)
        return out
    raise ValueError("pin %s" % ty)

def run(flt=None, verbose=False):
    R.reset()
    R.schema("SemNode", ["semcorpus:Node", "semcorpus:SubNode"], {"_v": Int}, eq_inline=True)
    R.schema("SemBag", ["semcorpus:Bag"], {"_items": LS, "_index": DSI})
    cases = []
    for fname, (ptys, rty, inputs) in CASES.items():
        if flt and flt not in fname: continue
        f = getattr(C, fname)
        for k, args in enumerate(inputs):
            import copy
            a2 = copy.deepcopy(args)
            try: out = ("return", f(*a2))
            except Exception as e: out = ("raise", type(e).__name__)
            req = []
            for (n, ty), v in zip(ptys.items(), args): req += pin(n, v, ty)
            qual = "semcorpus:%s@p%d" % (fname, k)
            mut = [n for n, ty in ptys.items() if isinstance(ty, (List, Dict))]
            if out[0] == "return":
                ens = pin("result", out[1], rty)
                R.contract(qual, params=dict(ptys), returns=rty, requires=req, ensures=ens, raises=[], mutates=mut, props=["SEM"])
            else:
                R.contract(qual, params=dict(ptys), returns=rty, requires=req, ensures=["False"], raises=[(out[1], "True")], mutates=mut, props=["SEM"])
            cases.append((qual, fname, args, out))
    ex = Executor()
    obs = []; unsupported = {}; owner = {}
    for qual, fname, args, out in cases:
        try:
            fobs = ex.verify_function(qual)
        except (VCError, X.ExtractionError) as e:
            unsupported.setdefault(fname, str(e)[:120]); continue
        for o in fobs: owner[id(o)] = (qual, fname, args, out)
        obs.extend(fobs)
    t0 = time.time()
    res = solve.solve_all(obs, timeout=30)
    SAFETY = {"index-in-range": "IndexError", "key-in-dict": "KeyError", "len-of-None": "TypeError", "attribute-of-None": "AttributeError",
              "division-by-zero": "ZeroDivisionError", "list.remove(x):x-in-list": "ValueError", "iteration-over-None": "TypeError",
              "order-compare-with-None": "TypeError", "in-on-None": "TypeError", "subscript-of-None": "TypeError"}
    per = {}
    for r in res:
        per.setdefault(owner[id(r.ob)][0], []).append(r)
    mism = []; undec = []; n_ok = 0; cover_fail = []; agree = 0; agree_exc = 0; conservative = []
    for qual, fname, args, out in cases:
        rs = per.get(qual)
        if rs is None: continue
        bad = []; und = []
        for r in rs:
            if r.ob.expect == "sat":
                if r.status == "unsat": cover_fail.append((qual, args))
                continue
            if r.status == "unsat": n_ok += 1
            elif r.status == "sat": bad.append(r.ob.name.split("#")[1])
            else: und.append((fname, args, r.ob.name, r.status))
        undec += und
        if not bad:
            if not und: agree += 1
            continue
        safety = [k for k in bad if k in SAFETY]
        if out[0] == "raise" and any(SAFETY[k] == out[1] for k in safety):
            agree_exc += 1           # CPython raises an implicit exception; the engine refutes exactly the obligation that guards against it
        elif out[0] == "return" and safety and all(k in SAFETY or k.startswith("postcondition") for k in bad):
            conservative.append("%s%r: CPython catches the implicit %s, the engine demands its absence" % (fname, args, SAFETY[safety[0]]))
        else:
            mism.append((fname, args, out, bad))
    doc = {"snippets": len(CASES), "point_contracts": len(cases), "obligations": len([o for o in obs if o.expect == "unsat"]), "discharged": n_ok,
           "agree": agree, "agree_implicit_exception_flagged": agree_exc, "conservative": conservative,
           "mismatches": [{"snippet": f, "args": repr(a), "cpython": repr(o), "refuted": n} for f, a, o, n in mism],
           "vacuous": [repr(x) for x in cover_fail], "undecided": [repr(x) for x in undec], "unsupported_snippets": unsupported,
           "solver_seconds": round(time.time() - t0, 1)}
    return doc

if __name__ == "__main__":
    args = [a for a in sys.argv[1:] if not a.startswith("-")]
    doc = run(args[0] if args else None, "-v" in sys.argv)
    print(json.dumps(doc, indent=1))
    sys.exit(1 if doc["mismatches"] or doc["vacuous"] else 0)
