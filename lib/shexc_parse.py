"""Parser / well-formedness recogniser for the ShExC text that sheXer emits (house style).

Line grammar (one construct per line):
    PREFIX p: <ns>
    LABEL [  [<stem>~]  AND] [   # N instance(s).]
    {
       [^  ]PRED  VALUE (  OR  VALUE)*  [CARD][;] [   # FIGURE]
                # FIGURE obj: VALUE. Cardinality: CARD        (figure comment)
                # FIGURE with cardinality CARD                (figure comment of an OR statement)
                // rdfs:comment ... ;   |  # anything else    (kept raw)
    } [ // rdfs:comment EXAMPLE]
FIGURE := NUM " %" | N " instance(s)." | NUM " % (" N " instance(s))."
VALUE  := IRI | BNode | NONLITERAL | . | LITERAL | pname | <iri> | [pname] | [<iri>] | @pname | @<iri>
CARD   := {k} | + | * | ?     (absent = 1)
Pure stdlib.
"""
import re
from collections import namedtuple

RDF_TYPE = "http://www.w3.org/1999/02/22-rdf-syntax-ns#type"


class ShexcParseError(Exception):
    def __init__(self, lineno, msg, line=""):
        Exception.__init__(self, "line %s: %s: %r" % (lineno, msg, line))
        self.lineno = lineno
        self.msg = msg
        self.line = line


Comment = namedtuple("Comment", "ratio count value cardinality raw ratio_text lineno")


class Constraint(object):
    __slots__ = ("inverse", "predicate", "predicate_raw", "value_raw", "value", "cardinality",
                 "cardinality_raw", "ratio_text", "ratio", "count", "comments", "lineno", "raw",
                 "raw_has_semicolon")

    def figure_comments(self):
        """Comments that carry a parsed figure (in order)."""
        return [c for c in self.comments if c.cardinality is not None]

    def __repr__(self):
        return "Constraint(%s%s %r %r ratio=%r count=%r comments=%d)" % (
            "^" if self.inverse else "", self.predicate, self.value, self.cardinality,
            self.ratio, self.count, len(self.comments))


class Shape(object):
    __slots__ = ("label_raw", "label_iri", "n_instances", "min_iri", "constraints", "example",
                 "lineno")

    def __repr__(self):
        return "Shape(%s N=%r min_iri=%r constraints=%d)" % (
            self.label_iri, self.n_instances, self.min_iri, len(self.constraints))


class Doc(object):
    def __init__(self):
        self.prefixes = {}        # prefix -> namespace (first declaration wins)
        self.prefix_decls = []    # (prefix, namespace, lineno) for every PREFIX line
        self.used_prefixes = []   # (prefix, lineno) for every prefixed name met
        self.shapes = []

    def shape(self, label_iri):
        for s in self.shapes:
            if s.label_iri == label_iri:
                return s
        return None


# ---- lexical classes -------------------------------------------------------------------------
_IRIREF = r"<[^\x00-\x20<>\"{}|^`\\]*>"
_PN_PREFIX = r"(?:[A-Za-z](?:[\w.\-]*[\w\-])?)?"
_PN_LOCAL = r"(?:(?:[\w:]|%[0-9A-Fa-f]{2}|\\[_~.\-!$&'()*+,;=/?#@%])" \
            r"(?:(?:[\w.\-:]|%[0-9A-Fa-f]{2}|\\[_~.\-!$&'()*+,;=/?#@%])*" \
            r"(?:[\w\-:]|%[0-9A-Fa-f]{2}|\\[_~.\-!$&'()*+,;=/?#@%]))?)?"
_PNAME = _PN_PREFIX + ":" + _PN_LOCAL
_RE_IRIREF = re.compile("^" + _IRIREF + "$")
_RE_PNAME = re.compile("^(" + _PN_PREFIX + "):(" + _PN_LOCAL + ")$")
_RE_PREFIX = re.compile(r"^PREFIX\s+(" + _PN_PREFIX + r"):\s*(" + _IRIREF + r")\s*$")
_RE_HEADER = re.compile(r"^(\S+)(?:  \[(" + _IRIREF + r")~\]  AND)?(?:\s+# (\d+) (instances?)\.)?\s*$")
_NUM = r"[0-9]+(?:\.[0-9]+)?(?:[eE][+\-]?[0-9]+)?"
_FIG = r"(?:(?P<r>" + _NUM + r") %(?: \((?P<n1>\d+) (?P<w1>instances?)\)\.)?" \
       r"|(?P<n2>\d+) (?P<w2>instances?)\.)"
_RE_FIG = re.compile("^" + _FIG + "$")
_RE_COMMENT_OBJ = re.compile(r"^# " + _FIG + r" obj: (?P<v>\S+)\. Cardinality: (?P<c>\S+)$")
_RE_COMMENT_CHOICE = re.compile(r"^# " + _FIG + r" with cardinality (?P<c>\S+)$")
_RE_CARD = re.compile(r"^(?:\{(\d+)\}|([+*?]))$")
_RE_CLOSE = re.compile(r"^\}(?: // rdfs:comment (.*))?$")
_KEYWORDS = {"IRI": ("IRI",), "BNode": ("BNode",), "NONLITERAL": ("NONLITERAL",),
             "LITERAL": ("LITERAL",), ".": ("any",)}


class _Parser(object):
    def __init__(self, text):
        self.doc = Doc()
        self.lines = text.split("\n")
        self.n = 0

    def err(self, msg, line=None):
        raise ShexcParseError(self.n, msg, self.lines[self.n - 1] if line is None else line)

    # -- terms ------------------------------------------------------------------------------
    def iri_of(self, tok):
        """Absolute IRI of '<iri>' or 'p:local' (prefix-expanded).  An undeclared prefix is
        recorded (check_wellformed reports it) and the raw token is returned."""
        if _RE_IRIREF.match(tok):
            return tok[1:-1]
        m = _RE_PNAME.match(tok)
        if not m:
            self.err("not an IRI reference or prefixed name: %r" % tok)
        prefix, local = m.group(1), m.group(2)
        self.doc.used_prefixes.append((prefix, self.n))
        if prefix not in self.doc.prefixes:
            return tok
        return self.doc.prefixes[prefix] + re.sub(r"\\(.)", r"\1", local)

    def value_of(self, tok, in_valueset_context=False):
        if tok in _KEYWORDS:
            return _KEYWORDS[tok]
        if tok.startswith("@"):
            return ("shape", self.iri_of(tok[1:]))
        if tok.startswith("[") and tok.endswith("]"):
            return ("valueset", self.iri_of(tok[1:-1]))
        if in_valueset_context:
            return ("valueset", self.iri_of(tok))
        return ("datatype", self.iri_of(tok))

    def card_of(self, tok):
        m = _RE_CARD.match(tok)
        if not m:
            self.err("bad cardinality %r" % tok)
        return int(m.group(1)) if m.group(1) is not None else m.group(2)

    def figure_of(self, m):
        """(ratio_text, ratio, count) from a match of _FIG groups."""
        for n, w in ((m.group("n1"), m.group("w1")), (m.group("n2"), m.group("w2"))):
            if n is not None and (w == "instance") != (int(n) == 1):
                self.err("singular/plural mismatch in figure")
        rt = m.group("r")
        n = m.group("n1") if m.group("n1") is not None else m.group("n2")
        return (rt, float(rt) if rt is not None else None, int(n) if n is not None else None)

    # -- lines ------------------------------------------------------------------------------
    def parse(self):
        state = "TOP"        # TOP | OPEN (header seen, expect '{') | BODY
        shape = None
        last_c = None
        saw_last = False     # a constraint without ';' was seen: only comments / '}' may follow
        for i, raw in enumerate(self.lines):
            self.n = i + 1
            line = raw.rstrip()
            s = line.strip()
            if s == "":
                continue
            if state == "TOP":
                m = _RE_PREFIX.match(s)
                if m:
                    p, ns = m.group(1), m.group(2)[1:-1]
                    self.doc.prefix_decls.append((p, ns, self.n))
                    self.doc.prefixes.setdefault(p, ns)
                    continue
                if line != s:
                    self.err("unexpected indentation at top level")
                m = _RE_HEADER.match(s)
                if not m:
                    self.err("expected PREFIX or shape header")
                shape = Shape()
                shape.label_raw = m.group(1)
                shape.label_iri = self.iri_of(m.group(1))
                shape.min_iri = m.group(2)[1:-1] if m.group(2) else None
                shape.n_instances = int(m.group(3)) if m.group(3) is not None else None
                if m.group(3) is not None and (m.group(4) == "instance") != (int(m.group(3)) == 1):
                    self.err("singular/plural mismatch in instance count")
                shape.constraints = []
                shape.example = None
                shape.lineno = self.n
                state = "OPEN"
            elif state == "OPEN":
                if s != "{":
                    self.err("expected '{'")
                state, last_c, saw_last = "BODY", None, False
            else:  # BODY
                m = _RE_CLOSE.match(s)
                if m and line == s:
                    if shape.constraints and not saw_last:
                        self.err("last constraint of the shape ends with ';'", line)
                    shape.example = m.group(1)
                    self.doc.shapes.append(shape)
                    state, shape = "TOP", None
                    continue
                if s.startswith("#") or s.startswith("//"):
                    if last_c is None:
                        self.err("comment line before any constraint")
                    last_c.comments.append(self.comment_of(s, last_c))
                    continue
                if saw_last:
                    self.err("constraint after a constraint without ';'")
                last_c = self.constraint_of(s)
                shape.constraints.append(last_c)
                saw_last = not last_c.raw_has_semicolon
        if state != "TOP":
            self.n = len(self.lines)
            self.err("unexpected end of input inside a shape", "")
        return self.doc

    def comment_of(self, s, constraint):
        ctx = constraint.value[0] == "valueset"
        m = _RE_COMMENT_OBJ.match(s)
        if m:
            rt, r, n = self.figure_of(m)
            return Comment(r, n, self.value_of(m.group("v"), ctx), self.card_of(m.group("c")), s, rt, self.n)
        m = _RE_COMMENT_CHOICE.match(s)
        if m:
            rt, r, n = self.figure_of(m)
            return Comment(r, n, constraint.value, self.card_of(m.group("c")), s, rt, self.n)
        if s.startswith("#") and (" obj: " in s or "Cardinality:" in s or " with cardinality " in s):
            self.err("malformed figure comment")
        return Comment(None, None, None, None, s, None, self.n)

    def constraint_of(self, s):
        toks = s.split()
        fig = None
        if "#" in toks:
            k = toks.index("#")
            fig = " ".join(toks[k + 1:])
            toks = toks[:k]
        c = Constraint()
        c.lineno, c.raw, c.comments = self.n, s, []
        c.inverse = False
        if toks and toks[0] == "^":
            c.inverse = True
            toks = toks[1:]
        if len(toks) < 2:
            self.err("constraint needs a predicate and a value")
        c.predicate_raw = toks[0]
        c.predicate = RDF_TYPE if toks[0] == "a" else self.iri_of(toks[0])
        toks = toks[1:]
        # trailing cardinality / ';'
        c.raw_has_semicolon = False
        c.cardinality, c.cardinality_raw = 1, ""
        last = toks[-1]
        if last.endswith(";") and (last == ";" or _RE_CARD.match(last[:-1])):
            c.raw_has_semicolon = True
            last = last[:-1]
        if last == "":
            toks = toks[:-1]
        elif _RE_CARD.match(last):
            c.cardinality, c.cardinality_raw = self.card_of(last), last
            toks = toks[:-1]
        elif c.raw_has_semicolon:
            self.err("bad end of constraint")
        # VALUE (OR VALUE)*
        if len(toks) % 2 != 1 or any(t != "OR" for t in toks[1::2]):
            self.err("expected VALUE (OR VALUE)*, got %r" % (toks,))
        vals = [self.value_of(t) for t in toks[0::2]]
        c.value_raw = "  ".join(toks)
        c.value = vals[0] if len(vals) == 1 else ("or", vals)
        c.ratio_text = c.ratio = c.count = None
        if fig is not None:
            m = _RE_FIG.match(fig)
            if not m:
                self.err("bad figure %r" % fig)
            c.ratio_text, c.ratio, c.count = self.figure_of(m)
        return c


def parse_shexc(text):
    """Parse sheXer's ShExC output.  Raises ShexcParseError (with .lineno) on anything that does
    not fit the house-style grammar."""
    return _Parser(text).parse()


def iter_values(value):
    """Flatten a normalised value into its atomic alternatives."""
    if value is None:
        return
    if value[0] == "or":
        for v in value[1]:
            for x in iter_values(v):
                yield x
    else:
        yield value


def check_wellformed(doc):
    """Static checks on a parsed document; returns a list of problem strings (empty = fine)."""
    problems = []
    seen = {}
    for p, ns, ln in doc.prefix_decls:
        if p in seen and seen[p] != ns:
            problems.append("line %d: prefix %r redeclared with a different namespace (%s vs %s)"
                            % (ln, p, seen[p], ns))
        seen.setdefault(p, ns)
    declared_at = {}
    for p, ns, ln in doc.prefix_decls:
        declared_at.setdefault(p, ln)
    for p, ln in doc.used_prefixes:
        if p not in declared_at:
            problems.append("line %d: prefix %r is used but not declared" % (ln, p))
        elif declared_at[p] > ln:
            problems.append("line %d: prefix %r is used before its declaration" % (ln, p))
    labels = {}
    for s in doc.shapes:
        if s.label_iri in labels:
            problems.append("line %d: shape label %s already defined at line %d"
                            % (s.lineno, s.label_iri, labels[s.label_iri]))
        labels.setdefault(s.label_iri, s.lineno)
    for s in doc.shapes:
        for c in s.constraints:
            refs = [(c.lineno, v) for v in iter_values(c.value)]
            refs += [(k.lineno, v) for k in c.comments for v in iter_values(k.value)]
            for ln, v in refs:
                if v[0] == "shape" and v[1] not in labels:
                    problems.append("line %d: %sreference to undefined shape %s"
                                    % (ln, "" if ln == c.lineno else "(in comment) ", v[1]))
    return problems
