"""Graph generators for the oracle validation (pure stdlib).

All IRIs have local names matching [A-Za-z0-9_]+ in the namespaces http://ex.org/ and
http://other.org/ns#.  Every generated triple list is duplicate-free.
"""
import itertools

try:
    from .rdfmodel import IRI, BNode, Lit, Triple, RDF_TYPE, XSD_INTEGER
except ImportError:
    from rdfmodel import IRI, BNode, Lit, Triple, RDF_TYPE, XSD_INTEGER

EX = "http://ex.org/"
OTHER = "http://other.org/ns#"
CLASS_A = EX + "A"
CLASS_B = EX + "B"
PROP_P = EX + "p"
PROP_Q = OTHER + "q"

NAMESPACES = {EX: "ex", "http://www.w3.org/2001/XMLSchema#": "xsd",
              "http://www.w3.org/1999/02/22-rdf-syntax-ns#": "rdf", OTHER: "o"}


def _dedup(triples):
    seen, out = set(), []
    for t in triples:
        if t not in seen:
            seen.add(t)
            out.append(t)
    return out


def enumerate_small(max_data_triples=3, limit=2000, stride=None, pi=RDF_TYPE):
    """Deterministic enumeration of small graphs.

    Ingredients: subjects s1, s2 (IRIs) and _:b1, in the groups {s1,s2}, {s1,_:b1}, {s1,s2,_:b1};
    each subject typed with one of [], [A], [B], [A,B], [B,A]; 1..max_data_triples data triples
    over properties p, q whose objects are drawn from: plain literals "x"/"y", "1"^^xsd:integer,
    "x"@en, another subject (typed IRI / typed blank node when that subject is typed), an
    untyped IRI, an untyped blank node, and a blank node _:t typed A on first use.
    Type triples come first for even indices, last for odd ones (document order matters for
    classes(x) and for readers working in several passes).

    The full space is walked lazily; every `stride`-th graph is yielded, at most `limit` graphs.
    stride=None picks a stride so that `limit` graphs spread over the whole space."""
    s1, s2, b1 = IRI(EX + "s1"), IRI(EX + "s2"), BNode("b1")
    groups = [(s1, s2), (s1, b1), (s1, s2, b1)]
    typings = [(), (CLASS_A,), (CLASS_B,), (CLASS_A, CLASS_B), (CLASS_B, CLASS_A)]
    bt = BNode("t")
    fixed_objs = [Lit("x"), Lit("y"), Lit("1", dt=XSD_INTEGER), Lit("x", lang="en"),
                  IRI(OTHER + "u1"), BNode("u"), bt]

    def space():
        for group in groups:
            pool = []
            for s in group:
                for p in (PROP_P, PROP_Q):
                    for o in fixed_objs + [x for x in group if x != s]:
                        pool.append(Triple(s, p, o))
            for k in range(1, max_data_triples + 1):
                for data in itertools.combinations(pool, k):
                    for typing in itertools.product(typings, repeat=len(group)):
                        if not any(typing):
                            continue
                        yield group, typing, data

    if stride is None:
        total = 0
        for group in groups:
            n_pool = len(group) * 2 * (len(fixed_objs) + len(group) - 1)
            combos = sum(_ncr(n_pool, k) for k in range(1, max_data_triples + 1))
            total += combos * (len(typings) ** len(group) - 1)
        stride = max(1, total // max(1, limit))
    count = 0
    for idx, (group, typing, data) in enumerate(space()):
        if idx % stride != 0:
            continue
        types = [Triple(s, pi, IRI(C)) for s, cs in zip(group, typing) for C in cs]
        if any(o == bt for (_, _, o) in data):
            types.append(Triple(bt, pi, IRI(CLASS_A)))
        T = types + list(data) if count % 2 == 0 else list(data) + types
        yield _dedup(T)
        count += 1
        if count >= limit:
            return


def _ncr(n, k):
    r = 1
    for i in range(k):
        r = r * (n - i) // (i + 1)
    return r


def random_graph(rng, n_nodes=6, n_triples=14, n_classes=3, n_props=4, p_bnode=0.3, p_typed=0.75,
                 max_types=3, p_literal=0.4, p_link_typed=0.6, shuffle=True, pi=RDF_TYPE,
                 class_as_instance=False, tricky_literals=False):
    """Seeded random graph (rng: random.Random).

    n_nodes subject candidates (IRIs in both namespaces, blank nodes with probability p_bnode),
    each typed with probability p_typed by 1..max_types of the classes A, B, C...; n_triples data
    triples over n_props properties; objects: literals (plain, integer, language-tagged, custom
    datatype), typed/untyped nodes; repeated (s, p) pairs give cardinalities > 1.
    class_as_instance=True additionally types one class IRI with another class;
    tricky_literals=True adds lexical forms with spaces and escaped characters."""
    class_names = ["A", "B", "C", "D", "E"][:n_classes]
    classes = [EX + c for c in class_names]
    props = [(EX if i % 2 == 0 else OTHER) + "p%d" % i for i in range(n_props)]
    nodes = []
    for i in range(n_nodes):
        if rng.random() < p_bnode:
            nodes.append(BNode("n%d" % i))
        else:
            nodes.append(IRI((EX if rng.random() < 0.7 else OTHER) + "n%d" % i))
    T = []
    typed = []
    for x in nodes:
        if rng.random() < p_typed:
            k = rng.randint(1, min(max_types, len(classes)))
            for C in rng.sample(classes, k):
                T.append(Triple(x, pi, IRI(C)))
            typed.append(x)
    if not typed:
        T.append(Triple(nodes[0], pi, IRI(classes[0])))
        typed.append(nodes[0])
    if class_as_instance and len(classes) > 1:
        T.append(Triple(IRI(classes[0]), pi, IRI(classes[1])))
    untyped = [x for x in nodes if x not in typed]
    extra = [IRI(OTHER + "u%d" % i) for i in range(2)] + [BNode("u%d" % i) for i in range(2)]
    lits = [Lit("x"), Lit("y"), Lit("z"), Lit("1", dt=XSD_INTEGER), Lit("2", dt=XSD_INTEGER),
            Lit("x", lang="en"), Lit("hola", lang="es"), Lit("v", dt=OTHER + "dt1")]
    if tricky_literals:   # spaces / escapes inside the lexical form (stress for line readers)
        lits += [Lit("z z"), Lit('q"uo\\te')]
    for _ in range(n_triples):
        s = rng.choice(typed) if rng.random() < 0.85 else rng.choice(nodes)
        p = rng.choice(props)
        r = rng.random()
        if r < p_literal:
            o = rng.choice(lits)
        elif rng.random() < p_link_typed:
            o = rng.choice(typed)
        else:
            o = rng.choice(untyped + extra)
        T.append(Triple(s, p, o))
    T = _dedup(T)
    if shuffle:
        rng.shuffle(T)
    return T
