"""Validate the oracle (graphspec) and the ShExC parser against the REAL sheXer.

    /verif/.venv/bin/python /verif/lib/validate_oracle.py [--n 500] [--seed 1] [--timeout 10]
                                                          [--cap K] [--pi IRI] [--extras]

For generated graphs x thresholds {0, 0.5, 1} x {inverse off/on} x {all_classes, targets=[A]} the
real Shaper is run (under a wall-clock guard), its ShExC output is parsed with shexc_parse, and
every printed figure (shape instance counts, constraint lines, figure comments) is compared with
N(C) / prof(C, dir, p, k, c) of graphspec.  Crashes of sheXer are counted by signature; the known
language-tag defect is triaged separately (known_langtag).
"""
import argparse
import collections
import os
import random
import signal
import sys
import traceback
import warnings

HERE = os.path.dirname(os.path.abspath(__file__))
sys.path.insert(0, HERE)
if "/repo" not in sys.path:
    sys.path.insert(1, "/repo")
warnings.simplefilter("ignore")

import graphgen                                                    # noqa: E402
import graphspec                                                   # noqa: E402
from rdfmodel import to_ntriples, RDF_TYPE                         # noqa: E402
from shexc_parse import parse_shexc, check_wellformed, ShexcParseError  # noqa: E402

from shexer.shaper import Shaper                                   # noqa: E402

SHAPES_NS = "http://weso.es/shapes/"
THRESHOLDS = (0, 0.5, 1)
MODES = ("all_classes", "targets_A")


class WallClockTimeout(BaseException):
    pass


def _on_alarm(signum, frame):
    raise WallClockTimeout()


def run_shexer(nt, mode, inverse, t, timeout=10, cap=None, pi=RDF_TYPE):
    """Run the real sheXer on N-Triples text; returns the ShExC string (raises on crash)."""
    kwargs = dict(all_classes_mode=True) if mode == "all_classes" else \
        dict(target_classes=[graphgen.CLASS_A])
    if cap is not None:
        kwargs["instances_cap"] = cap
    if pi != RDF_TYPE:
        kwargs["instantiation_property"] = pi
    old = signal.signal(signal.SIGALRM, _on_alarm)
    signal.alarm(timeout)
    try:
        shaper = Shaper(raw_graph=nt, input_format="nt", namespaces_dict=dict(graphgen.NAMESPACES),
                        inverse_paths=inverse, instances_report_mode="mixed",
                        disable_comments=False, **kwargs)
        return shaper.shex_graph(string_output=True, acceptance_threshold=t)
    finally:
        signal.alarm(0)
        signal.signal(signal.SIGALRM, old)


def crash_signature(exc):
    frames = traceback.extract_tb(exc.__traceback__)
    inner = [f for f in frames if "/shexer/" in f.filename]
    where = "%s:%s" % (os.path.basename(inner[-1].filename), inner[-1].name) if inner else "?"
    return "%s @ %s" % (type(exc).__name__, where)


def local_name(iri):
    cut = max(iri.rfind("#"), iri.rfind("/"))
    return iri[cut + 1:]


def shape_label_of(C):
    """sheXer's naming of the shape of class C (default shapes namespace)."""
    return SHAPES_NS + local_name(C)


def kind_of_value(value, label_to_class):
    """Oracle kind k of a printed value; None = not comparable (NONLITERAL / OR / unknown)."""
    tag = value[0]
    if tag in ("datatype", "valueset"):
        return value[1]
    if tag in ("IRI", "BNode"):
        return tag
    if tag == "shape":
        C = label_to_class.get(value[1])
        return graphspec.shape(C) if C is not None else ("?unknown-shape", value[1])
    return None


def close(a, b, rel=1e-6):
    return abs(a - b) <= rel * max(1.0, abs(a), abs(b))


def figures_of(doc):
    """Yield (shape, constraint, source, value, cardinality, ratio, count, raw) for every figure."""
    for sh in doc.shapes:
        for c in sh.constraints:
            if c.count is not None or c.ratio is not None:
                yield (sh, c, "line", c.value, c.cardinality, c.ratio, c.count, c.raw)
            for k in c.figure_comments():
                yield (sh, c, "comment", k.value, k.cardinality, k.ratio, k.count, k.raw)


def check_figure(spec, C, direction, p, k, card, ratio, count):
    """None if the printed figure equals the oracle's, else (expected_n, expected_ratio)."""
    n = spec.prof.get((C, direction, p, k, card), 0)
    N = spec.N[C]
    exp_ratio = 100.0 * n / N
    if count == n and (ratio is None or close(ratio, exp_ratio)):
        return None
    return (n, exp_ratio)


def compare(doc, spec, alt_spec, t, stats, report):
    label_to_class = dict((shape_label_of(C), C) for C in spec.inst)
    got = set(sh.label_iri for sh in doc.shapes)
    if got != set(label_to_class):
        report("shape_set", "shapes printed %s, expected %s" % (sorted(got), sorted(label_to_class)))
    for sh in doc.shapes:
        C = label_to_class.get(sh.label_iri)
        if C is None:
            continue
        stats["figures_checked"] += 1
        if sh.n_instances != spec.N[C]:
            report("n_instances", "%s: printed %r, N(C)=%d" % (sh.label_raw, sh.n_instances, spec.N[C]))
        for c in sh.constraints:
            if c.cardinality in ("*", "?"):
                if c.count is not None or c.ratio is not None:
                    report("format", "relaxed constraint carries a figure: %s" % c.raw)
                elif not c.figure_comments():
                    report("format", "relaxed constraint without a figure comment: %s" % c.raw)
            elif c.count is None:
                report("format", "constraint without figure: %s" % c.raw)
    for (sh, c, source, value, card, ratio, count, raw) in figures_of(doc):
        C = label_to_class.get(sh.label_iri)
        if C is None:
            continue
        if source == "line" and card in ("*", "?"):
            continue
        k = kind_of_value(value, label_to_class)
        if k is None:
            stats["skipped_nonliteral_or"] += 1
            continue
        if isinstance(k, tuple):
            report("unknown_shape_ref", "%s in %s: %s" % (value[1], sh.label_raw, raw))
            continue
        direction = graphspec.INVERSE if c.inverse else graphspec.DIRECT
        stats["figures_checked"] += 1
        bad = check_figure(spec, C, direction, c.predicate, k, card, ratio, count)
        if bad is not None:
            if check_figure(alt_spec, C, direction, c.predicate, k, card, ratio, count) is None:
                stats["known_langtag"] += 1
            else:
                report("figure", "%s %s%s k=%s c=%r: printed n=%r ratio=%r, oracle n=%d ratio=%r  [%s: %s]"
                       % (sh.label_raw, "^" if c.inverse else "", c.predicate, k, card, count, ratio,
                          bad[0], bad[1], source, raw))
            continue
        exact, flt = spec.in_cand(C, t, direction, c.predicate, k, card)
        if exact != flt:
            report("cand_float_vs_fraction", "%s: exact=%s float=%s" % (raw, exact, flt))
        if not exact:
            stats["printed_below_threshold"] += 1
            if len(stats_examples["below"]) < 3:
                stats_examples["below"].append((t, raw))


stats_examples = {"below": []}


def graphs(n, seed, pi=RDF_TYPE, extras=False):
    """n graphs: half enumerated small ones, half seeded random ones."""
    n_small = n // 2
    for T in graphgen.enumerate_small(max_data_triples=3, limit=n_small, pi=pi):
        yield "small", T
    rng = random.Random(seed)
    for i in range(n - n_small):
        yield "random", graphgen.random_graph(
            rng, n_nodes=rng.randint(3, 8), n_triples=rng.randint(4, 20),
            n_classes=rng.randint(2, 3), n_props=rng.randint(2, 4), pi=pi,
            class_as_instance=extras and i % 2 == 0, tricky_literals=extras)


def main(argv=None):
    ap = argparse.ArgumentParser()
    ap.add_argument("--n", type=int, default=500, help="number of graphs")
    ap.add_argument("--seed", type=int, default=1)
    ap.add_argument("--timeout", type=int, default=10, help="wall-clock guard per sheXer run (s)")
    ap.add_argument("--show", type=int, default=5, help="disagreements printed in full")
    ap.add_argument("--cap", type=int, default=None, help="instances_cap for sheXer / cap for the oracle")
    ap.add_argument("--pi", default=RDF_TYPE, help="instantiation property IRI")
    ap.add_argument("--extras", action="store_true",
                    help="random graphs also type a class node and use lexical forms with spaces/escapes")
    args = ap.parse_args(argv)

    stats = collections.Counter()
    crashes = collections.Counter()
    crash_example = {}
    disagreements = []
    wf_problems = []

    for origin, T in graphs(args.n, args.seed, args.pi, args.extras):
        stats["graphs"] += 1
        nt = to_ntriples(T)
        for mode in MODES:
            for inverse in (False, True):
                kw = dict(all_classes=True) if mode == "all_classes" else \
                    dict(targets=[graphgen.CLASS_A])
                spec = graphspec.compute(T, pi=args.pi, inverse=inverse, cap=args.cap, **kw)
                alt = graphspec.compute(T, pi=args.pi, inverse=inverse, cap=args.cap, lang_as_string=True,
                                        **kw)
                for t in THRESHOLDS:
                    stats["runs"] += 1
                    cfg = "mode=%s inverse=%s t=%s" % (mode, inverse, t)
                    try:
                        out = run_shexer(nt, mode, inverse, t, args.timeout, args.cap, args.pi)
                    except WallClockTimeout:
                        crashes["timeout"] += 1
                        crash_example.setdefault("timeout", (cfg, nt))
                        continue
                    except Exception as e:          # crash of sheXer: not an oracle disagreement
                        sig = crash_signature(e)
                        crashes[sig] += 1
                        crash_example.setdefault(sig, (cfg, nt))
                        continue
                    stats["runs_completed"] += 1
                    try:
                        doc = parse_shexc(out)
                    except ShexcParseError as e:
                        stats["parse_errors"] += 1
                        disagreements.append(("parse_error", str(e), cfg, nt, out))
                        continue
                    for pr in check_wellformed(doc):
                        stats["wellformedness_problems"] += 1
                        if len(wf_problems) < 3:
                            wf_problems.append((pr, cfg, nt, out))

                    def report(kind, msg, cfg=cfg, nt=nt, out=out):
                        stats["disagreement:" + kind] += 1
                        disagreements.append((kind, msg, cfg, nt, out))
                    compare(doc, spec, alt, t, stats, report)

    print("=" * 78)
    print("graphs: %d   runs: %d   completed: %d" % (stats["graphs"], stats["runs"], stats["runs_completed"]))
    print("crashes by kind:")
    for sig, n in crashes.most_common():
        print("   %6d  %s" % (n, sig))
        cfg, nt = crash_example[sig]
        print("           first: %s\n%s" % (cfg, "".join("             | " + l + "\n" for l in nt.splitlines())))
    print("figures checked:            %d" % stats["figures_checked"])
    print("skipped (NONLITERAL / OR):  %d" % stats["skipped_nonliteral_or"])
    print("known_langtag:              %d" % stats["known_langtag"])
    print("printed below threshold:    %d   (figures equal to the oracle but with n/N < t)" % stats["printed_below_threshold"])
    for t, raw in stats_examples["below"]:
        print("      e.g. t=%s: %s" % (t, raw))
    print("parse errors:               %d" % stats["parse_errors"])
    print("well-formedness problems:   %d" % stats["wellformedness_problems"])
    for pr, cfg, nt, out in wf_problems:
        print("   - %s   (%s)\n%s\n%s" % (pr, cfg, nt, out))
    print("disagreements:              %d" % len(disagreements))
    for k in sorted(stats):
        if k.startswith("disagreement:"):
            print("   %6d  %s" % (stats[k], k.split(":", 1)[1]))
    for kind, msg, cfg, nt, out in disagreements[:args.show]:
        print("-" * 78)
        print("[%s] %s\n  config: %s\n  input:\n%s  output:\n%s" % (kind, msg, cfg, nt, out))
    return 0 if not disagreements else 1


if __name__ == "__main__":
    sys.exit(main())
