"""Mathematical specification ("oracle") of the figures sheXer should report.

Written from the definitions (classes / kind / kinds_plus / ikinds / cnt / prof / cand / key),
not from sheXer's code.  Pure stdlib.

T        duplicate-free list of triples (s, p, o)   (see rdfmodel)
pi       instantiation property (default rdf:type)
classes(x)  = [id(o) | (x, pi, o) in T in order, o non-literal, all_classes or id(o) in targets]
              with cap k: (x, pi, C) is accepted iff fewer than k earlier accepted triples have object C
Inst(C)  = {x | C in classes(x)},  N(C) = |Inst(C)|
shape(C) = "@" + C
kind(o,p)        = id(o) if p == pi; else "IRI" | "BNode" | datatype of the literal
kinds_plus(o,p)  = {kind(o,p)} U {shape(C) | p != pi, o non-literal, C in classes(o)}
ikinds(s,p)      = {kind(s,p)} U {shape(C) | p != pi, s is an IRI (not a blank node), C in classes(s)}
cnt(x,p,k)       = |{(x,p,o) in T : k in kinds_plus(o,p)}|
icnt(x,p,k)      = |{(s,p,x) in T : k in ikinds(s,p)}|          (only when inverse)
prof(C,dir,p,k,c)   = |{x in Inst(C) : cnt(x,p,k) == c}|   (c int >= 1)
prof(C,dir,p,k,'+') = |{x in Inst(C) : cnt(x,p,k) >= 1}|   (p != pi; for p == pi only c == 1 exists)
"""
from collections import namedtuple
from fractions import Fraction

try:
    from .rdfmodel import IRI, RDF_TYPE, XSD_STRING, node_id, is_literal
except ImportError:  # run with /verif/lib on sys.path
    from rdfmodel import IRI, RDF_TYPE, XSD_STRING, node_id, is_literal

DIRECT = "direct"
INVERSE = "inverse"
PLUS = "+"
NONLIT = "NONLIT"
K_IRI = "IRI"
K_BNODE = "BNode"

Cand = namedtuple("Cand", "dir p k c n exact flt")


def shape(C):
    """Opaque shape name of class C."""
    return "@" + C


def is_shape(k):
    return isinstance(k, str) and k.startswith("@")


def key_of(dir, p, k, pi=RDF_TYPE):
    """Key of the statement group a feature belongs to: (dir, p, vc)."""
    if p == pi:
        vc = k
    elif k in (K_IRI, K_BNODE) or is_shape(k):
        vc = NONLIT
    else:
        vc = k
    return (dir, p, vc)


class Spec(object):
    """Result of compute().

    classes : dict node -> list of class ids (only nodes with at least one class)
    inst    : dict C -> list of nodes, in order of acceptance
    N       : dict C -> int
    prof    : dict (C, dir, p, k, c) -> n   (only n > 0)
    """

    def __init__(self, pi, classes, inst, prof):
        self.pi = pi
        self.classes = classes
        self.inst = inst
        self.N = dict((C, len(xs)) for C, xs in inst.items())
        self.prof = prof

    def entries(self, C):
        """[(dir, p, k, c, n)] for class C."""
        return [(d, p, k, c, n) for (C2, d, p, k, c), n in self.prof.items() if C2 == C]

    def cand(self, C, t):
        """Entries of C whose frequency reaches threshold t.

        Each result carries both verdicts: exact (Fraction(n, N) >= Fraction(t)) and flt
        (float(n)/float(N) >= t).  An entry is returned if either holds; use cand_mismatches()
        to list those where they differ."""
        N = self.N[C]
        tq = Fraction(t)
        out = []
        for (d, p, k, c, n) in self.entries(C):
            exact = Fraction(n, N) >= tq
            flt = float(n) / float(N) >= t
            if exact or flt:
                out.append(Cand(d, p, k, c, n, exact, flt))
        return out

    def cand_mismatches(self, C, t):
        return [e for e in self.cand(C, t) if e.exact != e.flt]

    def in_cand(self, C, t, d, p, k, c):
        """(exact, flt) membership of one feature in cand(C, t)."""
        n = self.prof.get((C, d, p, k, c), 0)
        if n == 0:
            return (False, False)
        N = self.N[C]
        return (Fraction(n, N) >= Fraction(t), float(n) / float(N) >= t)

    def keys(self, C):
        return sorted(set(key_of(d, p, k, self.pi) for (d, p, k, c, n) in self.entries(C)), key=repr)


def compute(T, pi=RDF_TYPE, all_classes=False, targets=None, inverse=False, cap=None,
            lang_as_string=False):
    """Compute the specification of the profile of T.

    lang_as_string=True models the known defect of the pinned tree (language-tagged literals
    reported as xsd:string); it is NOT part of the specification and is used only for triage."""
    T = list(T)
    if len(set(T)) != len(T):
        raise ValueError("T must be duplicate-free")
    targets = set(targets or ())

    # ---- classes(x), Inst(C) --------------------------------------------------------------
    classes = {}
    inst = {}
    accepted = {}
    for (s, p, o) in T:
        if p != pi or is_literal(o):
            continue
        C = node_id(o)
        if not (all_classes or C in targets):
            continue
        if cap is not None and accepted.get(C, 0) >= cap:
            continue
        accepted[C] = accepted.get(C, 0) + 1
        classes.setdefault(s, []).append(C)
        inst.setdefault(C, []).append(s)

    def classes_of(x):
        return classes.get(x, [])

    def lit_dt(o):
        if lang_as_string and o.lang is not None:
            return XSD_STRING
        return o.datatype

    def kind(o, p):
        if is_literal(o):
            return lit_dt(o)           # (p == pi with a literal object is outside the definitions)
        if p == pi:
            return node_id(o)
        return o.kind

    def kinds_plus(o, p):
        ks = set([kind(o, p)])
        if p != pi and not is_literal(o):
            ks.update(shape(C) for C in classes_of(o))
        return ks

    def ikinds(s, p):
        ks = set([node_id(s) if p == pi else s.kind])
        if p != pi and isinstance(s, IRI):
            ks.update(shape(C) for C in classes_of(s))
        return ks

    # ---- cnt / icnt -----------------------------------------------------------------------
    cnt = {}     # (x, p, k) -> int, x an instance
    icnt = {}
    for (s, p, o) in T:
        if s in classes:
            for k in kinds_plus(o, p):
                cnt[(s, p, k)] = cnt.get((s, p, k), 0) + 1
        if inverse and not is_literal(o) and o in classes:
            for k in ikinds(s, p):
                icnt[(o, p, k)] = icnt.get((o, p, k), 0) + 1

    # ---- prof -----------------------------------------------------------------------------
    prof = {}

    def bump(key):
        prof[key] = prof.get(key, 0) + 1

    for d, table in ((DIRECT, cnt), (INVERSE, icnt)):
        for (x, p, k), c in table.items():
            for C in classes_of(x):
                if p == pi:
                    bump((C, d, p, k, 1))       # c == 1 because T is duplicate-free
                else:
                    bump((C, d, p, k, c))
                    bump((C, d, p, k, PLUS))
    return Spec(pi, classes, inst, prof)
