"""Abstract RDF model (pure stdlib).

Nodes are small immutable values:
    IRI(iri)                 -- absolute IRI string, rendered <iri>
    BNode(label)             -- label like "b1", rendered _:b1
    Lit(lex, dt=None, lang=None)
A triple is a plain tuple (s, p, o) with s: IRI|BNode, p: str (absolute IRI), o: any node.
"""
from collections import namedtuple

XSD = "http://www.w3.org/2001/XMLSchema#"
RDF = "http://www.w3.org/1999/02/22-rdf-syntax-ns#"
XSD_STRING = XSD + "string"
XSD_INTEGER = XSD + "integer"
RDF_LANGSTRING = RDF + "langString"
RDF_TYPE = RDF + "type"


class IRI(namedtuple("IRI", "iri")):
    __slots__ = ()
    kind = "IRI"


class BNode(namedtuple("BNode", "label")):
    __slots__ = ()
    kind = "BNode"


class Lit(namedtuple("Lit", "lex dt lang")):
    __slots__ = ()
    kind = "Lit"

    def __new__(cls, lex, dt=None, lang=None):
        if dt is not None and lang is not None:
            raise ValueError("a literal has a datatype or a language tag, not both")
        return super(Lit, cls).__new__(cls, lex, dt, lang)

    @property
    def datatype(self):
        """Effective datatype IRI (xsd:string for plain, rdf:langString for tagged)."""
        if self.lang is not None:
            return RDF_LANGSTRING
        return self.dt if self.dt is not None else XSD_STRING


def Triple(s, p, o):
    """Triple = (s, p, o); p is a plain IRI string."""
    if not isinstance(s, (IRI, BNode)):
        raise TypeError("subject must be IRI or BNode: %r" % (s,))
    if not isinstance(p, str):
        raise TypeError("predicate must be a plain IRI string: %r" % (p,))
    if not isinstance(o, (IRI, BNode, Lit)):
        raise TypeError("object must be a node: %r" % (o,))
    return (s, p, o)


def node_kind(n):
    """'IRI' | 'BNode' | 'Lit'."""
    return n.kind


def is_literal(n):
    return isinstance(n, Lit)


def node_id(n):
    """Identity string of a non-literal node: the IRI, or '_:label'."""
    if isinstance(n, IRI):
        return n.iri
    if isinstance(n, BNode):
        return "_:" + n.label
    raise TypeError("literals have no identity string: %r" % (n,))


def escape_lex(lex):
    out = lex.replace("\\", "\\\\").replace('"', '\\"')
    return out.replace("\n", "\\n").replace("\r", "\\r")


def node_to_nt(n):
    if isinstance(n, IRI):
        return "<" + n.iri + ">"
    if isinstance(n, BNode):
        return "_:" + n.label
    s = '"' + escape_lex(n.lex) + '"'
    if n.lang is not None:
        return s + "@" + n.lang
    if n.dt is not None:
        return s + "^^<" + n.dt + ">"
    return s


def triple_to_nt(t):
    s, p, o = t
    return node_to_nt(s) + " <" + p + "> " + node_to_nt(o) + " ."


def to_ntriples(triples):
    """One line per triple, single space between tokens, ' .' at the end, trailing newline."""
    return "".join(triple_to_nt(t) + "\n" for t in triples)


def is_duplicate_free(triples):
    return len(set(triples)) == len(list(triples))
