#!/bin/sh
# usage: mut.sh <prop> <file-relative-to-repo> <sed-expr>   : applies a one-off mutation to a scratch copy and runs the check against it
set -e
D=$(mktemp -d /tmp/mutXXXX); cp -r /repo/shexer $D/; 
sed -i "$3" $D/$2
if diff -q /repo/$2 $D/$2 >/dev/null; then echo "MUTATION DID NOT APPLY"; rm -rf $D; exit 9; fi
cd /verif; VERIF_REPO=$D ./check $1 --no-bounded | cut -c1-260; rm -rf $D
