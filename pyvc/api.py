"""Names available to contract files."""
from .types import Int, Bool, Real, Str, NoneT, Atom, Opt, Tup, Rec, List, Dict, Set, Obj, Card
from .registry import schema, contract, specfun, lemma, trace_events, extconst, box, spectype, regex, SCHEMAS, CONTRACTS, SPECFUNS, LEMMAS
def display(*tys): return ("display", list(tys))
