"""Locate the *real* source of functions in the tree under verification (no import of that code)."""
import ast, hashlib, os, functools

def repo_root():
    return os.environ.get("VERIF_REPO", "/repo")

class ExtractionError(Exception):
    pass

@functools.lru_cache(maxsize=None)
def _parse(path):
    with open(path, "r", encoding="utf-8") as f:
        src = f.read()
    return src, ast.parse(src, filename=path)

def module_path(module):
    p = os.path.join(repo_root(), *module.split("."))
    if os.path.isfile(p + ".py"):
        return p + ".py"
    if os.path.isdir(p):
        return os.path.join(p, "__init__.py")
    raise ExtractionError("module not found in tree: %s (%s)" % (module, p))

def module_ast(module):
    return _parse(module_path(module))

def _imports(tree):
    """name -> (module, original name) for 'from m import a as b' at module level."""
    out = {}
    for node in tree.body:
        if isinstance(node, ast.ImportFrom) and node.module:
            for a in node.names:
                out[a.asname or a.name] = (node.module, a.name)
    return out

def find_class(module, cls):
    src, tree = module_ast(module)
    for node in tree.body:
        if isinstance(node, ast.ClassDef) and node.name == cls:
            return node
    raise ExtractionError("class %s not found in %s" % (cls, module))

def resolve_name(module, name, _depth=0):
    """Resolve a module-level name to ('class', module, ClassDef) | ('func', module, FunctionDef) |
    ('const', module, value-node) following 'from x import y' (and 'import *') inside the tree."""
    if _depth > 8:
        raise ExtractionError("import chain too deep for %s in %s" % (name, module))
    src, tree = module_ast(module)
    for node in tree.body:
        if isinstance(node, ast.ClassDef) and node.name == name:
            return ("class", module, node)
        if isinstance(node, (ast.FunctionDef,)) and node.name == name:
            return ("func", module, node)
        if isinstance(node, ast.Assign):
            for t in node.targets:
                if isinstance(t, ast.Name) and t.id == name:
                    return ("const", module, node.value)
    imps = _imports(tree)
    if name in imps:
        m, orig = imps[name]
        if m.startswith("shexer"):
            return resolve_name(m, orig, _depth + 1)
        return ("external", m, orig)
    for node in tree.body:  # star imports
        if isinstance(node, ast.ImportFrom) and node.module and node.module.startswith("shexer") \
                and any(a.name == "*" for a in node.names):
            try:
                return resolve_name(node.module, name, _depth + 1)
            except ExtractionError:
                pass
    raise ExtractionError("name %s not resolvable in %s" % (name, module))

def mro(module, cls):
    """Linearised list of (module, ClassDef), single inheritance chains as used in sheXer."""
    out = []
    cur = (module, cls)
    seen = set()
    while cur and cur not in seen:
        seen.add(cur)
        m, c = cur
        node = find_class(m, c)
        out.append((m, node))
        cur = None
        for b in node.bases:
            if isinstance(b, ast.Name) and b.id != "object":
                kind, bm, bnode = resolve_name(m, b.id)
                if kind == "class":
                    cur = (bm, bnode.name)
                break
    return out

def find_function(qual):
    """qual = 'pkg.mod:func' or 'pkg.mod:Class.method' -> (module_where_defined, class_or_None, FunctionDef)."""
    module, _, name = qual.partition(":")
    name = name.split("@")[0]          # 'func@variant' : same function verified under a second contract
    if "." in name:
        cls, meth = name.split(".", 1)
        for m, cnode in mro(module, cls):
            for node in cnode.body:
                if isinstance(node, ast.FunctionDef) and node.name == meth:
                    return m, cnode.name, node
        raise ExtractionError("method %s not found in MRO of %s:%s" % (meth, module, cls))
    kind, m, node = resolve_name(module, name)
    if kind != "func":
        raise ExtractionError("%s is not a function" % qual)
    return m, None, node

def find_property(module, cls, attr, setter=False):
    """@property getter (or setter) named attr in the MRO, or None."""
    for m, cnode in mro(module, cls):
        for node in cnode.body:
            if isinstance(node, ast.FunctionDef) and node.name == attr:
                decs = [ast.unparse(d) for d in node.decorator_list]
                if not setter and "property" in decs:
                    return m, cnode.name, node
                if setter and (attr + ".setter") in decs:
                    return m, cnode.name, node
    return None

def find_method(module, cls, meth):
    for m, cnode in mro(module, cls):
        for node in cnode.body:
            if isinstance(node, ast.FunctionDef) and node.name == meth:
                decs = [ast.unparse(d) for d in node.decorator_list]
                if "property" in decs or any(d.endswith(".setter") for d in decs):
                    continue
                return m, cnode.name, node
    return None

def source_hash(qual):
    m, c, node = find_function(qual)
    src, _ = module_ast(m)
    seg = ast.get_source_segment(src, node) or ""
    return hashlib.sha256(seg.encode()).hexdigest()[:16]

def function_source(qual):
    m, c, node = find_function(qual)
    src, _ = module_ast(m)
    return ast.get_source_segment(src, node)

def const_value(module, name):
    """Literal value of a module-level constant (following imports inside the tree)."""
    kind, m, node = resolve_name(module, name)
    if kind != "const":
        raise ExtractionError("%s in %s is not a constant" % (name, module))
    try:
        return ast.literal_eval(node)
    except Exception:
        # constants defined from other constants:  A = B  /  A = [B, C]
        return _eval_const(m, node)

def _eval_const(module, node):
    if isinstance(node, ast.Name):
        return const_value(module, node.id)
    if isinstance(node, (ast.List, ast.Tuple)):
        return [_eval_const(module, e) for e in node.elts]
    if isinstance(node, ast.BinOp) and isinstance(node.op, ast.Add):
        return _eval_const(module, node.left) + _eval_const(module, node.right)
    if isinstance(node, ast.Constant):
        return node.value
    raise ExtractionError("constant too complex: %s" % ast.dump(node)[:80])

def signature(node):
    """(positional names, defaults-dict-of-ast, vararg name or None, is_static)"""
    a = node.args
    names = [x.arg for x in a.posonlyargs + a.args]
    defaults = {}
    for n, d in zip(reversed(names), reversed(a.defaults)):
        defaults[n] = d
    for n, d in zip([x.arg for x in a.kwonlyargs], a.kw_defaults):
        names.append(n)
        if d is not None:
            defaults[n] = d
    static = any(ast.unparse(d) in ("staticmethod",) for d in node.decorator_list)
    return names, defaults, (a.vararg.arg if a.vararg else None), static
