"""Replay of solver counterexamples against the real code (and ground evaluation of contract clauses)."""
import sys, os, importlib, signal, traceback, fractions
import z3
from . import types as T
from . import extract as X
from . import registry as R
from .state import SV, State, VCError, Display
from .expr import I, S

class Unsupported(Exception):
    pass

def model_to_py(v, ty):
    if isinstance(ty, tuple) and ty[0] == "display":
        raise Unsupported("display")
    if ty == T.Str:
        if isinstance(v, str): return v
        raise Unsupported("str model %r" % (v,))
    if ty == T.Int:
        if isinstance(v, int): return v
        raise Unsupported("int model %r" % (v,))
    if ty == T.Bool:
        if isinstance(v, bool): return v
        raise Unsupported("bool model")
    if ty == T.Real:
        if isinstance(v, (int, float)): return float(v)
        raise Unsupported("real model %r" % (v,))
    if isinstance(ty, T.Opt):
        if isinstance(v, str) and v.startswith("none_"): return None
        if isinstance(v, list) and len(v) == 2 and str(v[0]).startswith("some_"): return model_to_py(v[1], ty.t)
        raise Unsupported("opt model %r" % (v,))
    if isinstance(ty, T.Tup):
        if isinstance(v, list) and len(v) == len(ty.ts) + 1:
            return tuple(model_to_py(x, t) for x, t in zip(v[1:], ty.ts))
        raise Unsupported("tuple model")
    if ty == T.Card:
        if isinstance(v, list) and v[0] == "card_int": return model_to_py(v[1], T.Int)
        if isinstance(v, str) and v.startswith("card_s"): return T.Card.strs[int(v[6:])]
        raise Unsupported("card model")
    raise Unsupported("type %s" % ty)

def py_to_sv(ex, v, ty):
    if ty == T.Str: return SV(ty, S(v))
    if ty == T.Int: return SV(ty, I(v))
    if ty == T.Bool: return SV(ty, z3.BoolVal(bool(v)))
    if ty == T.Real:
        fr = fractions.Fraction(v) if not isinstance(v, fractions.Fraction) else v
        return SV(ty, z3.RealVal(str(fr.numerator)) / z3.RealVal(str(fr.denominator)))
    if ty == T.NoneT: return SV(ty, z3.BoolVal(True))
    if isinstance(ty, T.Opt):
        if v is None: return SV(ty, T.opt_none(ty))
        return SV(ty, T.opt_some(ty, py_to_sv(ex, v, ty.t).t))
    if isinstance(ty, T.Tup):
        return SV(ty, T.tup_mk(ty, *[py_to_sv(ex, x, t).t for x, t in zip(v, ty.ts)]))
    if ty == T.Card:
        return SV(ty, T.card_int(I(v)) if isinstance(v, int) else T.card_str(v))
    if isinstance(ty, T.List):
        arr = z3.K(z3.IntSort(), ex.default(ty.t))
        for i, x in enumerate(v): arr = z3.Store(arr, i, py_to_sv(ex, x, ty.t).t)
        return SV(ty, T.list_mk(ty, I(len(v)), arr))
    if isinstance(ty, T.Dict):
        dom = z3.K(T.sort_of(ty.k), z3.BoolVal(False)); mp = z3.K(T.sort_of(ty.k), ex.default(ty.v))
        for k, x in v.items():
            kk = py_to_sv(ex, k, ty.k).t
            dom = z3.Store(dom, kk, z3.BoolVal(True)); mp = z3.Store(mp, kk, py_to_sv(ex, x, ty.v).t)
        return SV(ty, T.dict_mk(ty, dom, mp))
    if isinstance(ty, T.Atom):
        return SV(ty, T.atom_const(ty, v))
    raise Unsupported("py_to_sv %s" % ty)

class _Timeout(Exception):
    pass

def _alarm(signum, frame):
    raise _Timeout()

def load_real(qual):
    repo = X.repo_root()
    if sys.path[0] != repo: sys.path.insert(0, repo)
    module, _, name = qual.partition(":")
    name = name.split("@")[0]
    for m in [k for k in sys.modules if k == "shexer" or k.startswith("shexer.")]:
        f = getattr(sys.modules[m], "__file__", "") or ""
        if not f.startswith(repo): del sys.modules[m]
    mod = importlib.import_module(module)
    obj = mod
    for part in name.split("."): obj = getattr(obj, part)
    return obj

def call_real(qual, args, kwargs=None, timeout=10):
    """-> ('return', value) | ('raise', ExcName, message) | ('timeout',)"""
    f = load_real(qual)
    old = signal.signal(signal.SIGALRM, _alarm)
    signal.alarm(timeout)
    try:
        r = f(*args, **(kwargs or {}))
        if hasattr(r, "__next__"): r = list(r)
        return ("return", r)
    except _Timeout:
        return ("timeout",)
    except BaseException as e:
        tb = traceback.extract_tb(e.__traceback__)
        where = "%s:%d" % (os.path.basename(tb[-1].filename), tb[-1].lineno) if tb else ""
        return ("raise", type(e).__name__, "%s (%s)" % (str(e)[:200], where))
    finally:
        signal.alarm(0); signal.signal(signal.SIGALRM, old)

def ground_holds(ex, clause, st):
    """Evaluate a contract clause on ground values with z3: True / False / None (undecided)."""
    s0 = st.fork(); s0.env = dict(st.env)
    g = ex.spec_eval(clause, s0, None)
    sol = z3.Solver(); sol.set("timeout", 10000)
    for a in s0.pc: sol.add(a)
    sol.add(z3.Not(g))
    r = sol.check()
    if r == z3.unsat: return True
    if r == z3.sat:
        sol2 = z3.Solver(); sol2.set("timeout", 10000)
        for a in s0.pc: sol2.add(a)
        sol2.add(g)
        return False if sol2.check() == z3.unsat else None
    return None

def check_outcome(ex, c, pyargs, outcome):
    """Compare a real outcome with contract c on concrete inputs.  -> (verdict, detail);  verdict in ok/violates/undecided"""
    st = State(); st.ctx = (c.qual.split(":")[0], None, c.qual)
    for n, ty in c.params.items():
        if n in pyargs:
            if isinstance(ty, tuple) and ty[0] == "display":
                st.env[n] = SV(Display, [py_to_sv(ex, x, t) for x, t in zip(pyargs[n], ty[1])])
            else:
                st.env[n] = py_to_sv(ex, pyargs[n], ty)
    for g, ty in c.ghost.items():
        if g in ("self_class", "__locals__") or g not in pyargs: continue
        st.env[g] = py_to_sv(ex, pyargs[g], ty)
    old = st.fork(); old.env = dict(st.env); st.old = old
    for r in c.requires:
        h = ground_holds(ex, r, st)
        if h is False: return "outside-precondition", r
    if outcome[0] == "timeout":
        return "violates", "does not terminate within the wall-clock guard"
    if outcome[0] == "raise":
        exc = outcome[1]
        conds = [cond for e, cond in c.raises if e == exc or e == "Exception"]
        if not conds: return "violates", "raised %s: %s (contract allows %s)" % (exc, outcome[2], [e for e, _ in c.raises] or "no exception")
        und = False
        for cond in conds:
            if cond is None: return "ok", ""
            h = ground_holds(ex, cond.lstrip("?"), st)
            if h is True: return "ok", ""
            if h is None: und = True
        return ("undecided", "") if und else ("violates", "raised %s: %s although none of its conditions holds" % (exc, outcome[2]))
    val = outcome[1]
    for e, cond in c.raises:
        if cond is not None and not cond.startswith("?"):
            h = ground_holds(ex, cond, st)
            if h is True: return "violates", "returned normally although %s was required: %s" % (e, cond)
    if c.returns != T.NoneT:
        try:
            rty = T.List(c.yields) if c.yields is not None else c.returns
            st.env["result"] = py_to_sv(ex, _norm_result(val, rty), rty)
        except Exception as exn:
            return "undecided", "result %r not representable as %s (%s)" % (val, c.returns, exn)
    for e in c.ensures:
        h = ground_holds(ex, e, st)
        if h is False: return "violates", "result %r violates: %s" % (val, e)
        if h is None: return "undecided", e
    return "ok", ""

def _norm_result(v, ty):
    if isinstance(ty, T.Opt): return None if v is None else _norm_result(v, ty.t)
    if isinstance(ty, T.Tup): return tuple(_norm_result(x, t) for x, t in zip(v, ty.ts))
    if isinstance(ty, T.List): return [_norm_result(x, ty.t) for x in v]
    return v

def replay_model(ex, c, model):
    """model: name -> parsed get-value.  Returns dict describing the native replay."""
    info = {"inputs": None, "native": None, "verdict": "no-native-replay", "detail": ""}
    try:
        pyargs = {}
        for n, ty in c.params.items():
            if isinstance(ty, tuple) and ty[0] == "display":
                pyargs[n] = [model_to_py(model["%s[%d]" % (n, i)], t) for i, t in enumerate(ty[1])]
            else:
                pyargs[n] = model_to_py(model[n], ty)
        for g, ty in c.ghost.items():
            if g in ("self_class", "__locals__"): continue
            pyargs[g] = model_to_py(model[g], ty)
    except (Unsupported, KeyError) as e:
        info["detail"] = "model not convertible: %s" % e; return info
    return replay_pyargs(ex, c, pyargs)

def replay_pyargs(ex, c, pyargs):
    """call the real function on concrete arguments and judge the outcome against the contract"""
    info = {"inputs": {k: repr(v) for k, v in pyargs.items()}, "native": None, "verdict": "no-native-replay", "detail": "", "pyargs": pyargs}
    m, cls, fnode = X.find_function(c.qual)
    names, defaults, vararg, static = X.signature(fnode)
    bare_self = cls is not None and not static
    if bare_self and ("self" in " ".join(c.requires + c.ensures + [x or "" for _, x in c.raises])):
        info["detail"] = "instance method whose contract reads object state: objects are not reconstructed from the model"; return info
    args = []; kwargs = {}
    for n in names:
        if n in pyargs: kwargs[n] = pyargs[n]
    if vararg and vararg in pyargs: args = [tuple(x) if isinstance(x, list) else x for x in pyargs[vararg]]
    try:
        if bare_self:
            # the contract does not mention self: replay on a bare instance (no __init__); an AttributeError means the method needs state
            klass = load_real(c.qual.split("@")[0].rsplit(".", 1)[0])
            inst = object.__new__(klass)
            outcome = call_real(c.qual, [inst] + args, kwargs)
            if outcome[0] == "raise" and outcome[1] == "AttributeError" and "object has no attribute" in outcome[2]:
                info["detail"] = "instance method needs object state (%s)" % outcome[2][:120]; return info
        else:
            outcome = call_real(c.qual, args, kwargs)
    except Exception as e:
        info["detail"] = "could not call the real function: %s" % e; return info
    info["native"] = [repr(x)[:300] for x in outcome]
    try:
        verdict, detail = check_outcome(ex, c, pyargs, outcome)
    except VCError as e:
        verdict, detail = "undecided", str(e)
    info["verdict"], info["detail"] = verdict, detail
    return info


SAFETY_EXC = {"index-in-range": "IndexError", "key-in-dict": "KeyError", "del:key-in-dict": "KeyError", "len-of-None": "TypeError",
              "attribute-of-None": "AttributeError", "division-by-zero": "ZeroDivisionError", "list.remove(x):x-in-list": "ValueError",
              "iteration-over-None": "TypeError", "order-compare-with-None": "TypeError", "in-on-None": "TypeError", "subscript-of-None": "TypeError",
              "unpack-arity": "ValueError", "str-plus-nonstr": "TypeError"}

def align(kind, info):
    """A native run only counts as the replay of THIS obligation if it fails in the way the obligation says (same clause, same exception);
    a reconstructed input that trips over something else (unmodelled state, assumed callees) is reported as not reproduced."""
    if info.get("verdict") != "violates": return info
    native = info.get("native") or []
    raised = native[1].strip("'") if len(native) >= 2 and native[0] == "'raise'" else None
    detail = info.get("detail", "")
    ok = False
    if kind.startswith("postcondition:"):
        clause = kind[len("postcondition:"):]
        ok = raised is None and clause[:60] in detail
    elif kind.startswith("must-raise-"):
        exc = kind[len("must-raise-"):].split(":")[0]
        ok = raised != exc
    elif kind.startswith("raises-") and kind.endswith("-only-when-allowed"):
        ok = raised == kind[len("raises-"):-len("-only-when-allowed")]
    elif kind in SAFETY_EXC:
        ok = raised == SAFETY_EXC[kind]
    elif kind.startswith("call-shape") or kind.startswith("returns-None"):
        ok = raised == "TypeError" or kind.startswith("returns-None")
    elif kind.startswith("decreases") or "terminat" in kind:
        ok = native[:1] == ["'timeout'"]
    if ok: return info
    out = dict(info); out["verdict"] = "not-reproduced"
    out["detail"] = "native run on the reconstructed input fails differently from the refuted obligation (%s): %s" % (kind[:60], detail[:300])
    return out
