"""Native replay of counterexamples for functions whose inputs are objects (self, model terms, shared containers).

Phase 1 (solve.py) tells that an obligation is refuted.  Here the same query is asked again with probe terms - the fields of `self` and of
object parameters in the PRE-state heap (`H0_<family>_<field>` arrays), followed through references to a bounded depth - the model is turned
into real Python objects (`object.__new__` + attributes, aliasing preserved by reference number), the real function is called on them, and the
outcome is judged against the contract by ground evaluation over a heap rebuilt from the Python objects before and after the call.
Anything not reconstructible raises Unsupported: the violation is then reported with no-failing-input-found, never dropped."""
import copy, json, signal, os, traceback
import z3
from . import types as T
from . import registry as R
from . import extract as X
from .state import SV, State, VCError, Display, Obligation
from .expr import I, S
from .replay import Unsupported, model_to_py as _scalar_model_to_py, py_to_sv, load_real, ground_holds, _Timeout, _alarm, _norm_result

K_ELEMS = 5
MAX_DEPTH = 4

def has_obj(ty):
    if isinstance(ty, T.Obj): return True
    if isinstance(ty, T.Opt): return has_obj(ty.t)
    if isinstance(ty, T.Tup): return any(has_obj(t) for t in ty.ts)
    if isinstance(ty, T.List): return has_obj(ty.t)
    if isinstance(ty, T.Dict): return has_obj(ty.k) or has_obj(ty.v)
    if isinstance(ty, T.Set): return has_obj(ty.k)
    return False

def declared_names(ob):
    seen = set(); names = set()
    stack = list(ob.assumptions) + [ob.goal]
    while stack:
        e = stack.pop()
        if e.get_id() in seen: continue
        seen.add(e.get_id())
        if z3.is_quantifier(e): stack.append(e.body()); continue
        if z3.is_app(e):
            d = e.decl()
            if d.kind() == z3.Z3_OP_UNINTERPRETED: names.add(d.name())
            stack.extend(e.children())
    return names

class Planner:
    def __init__(self, ex, declared):
        self.ex, self.declared = ex, declared
        self.terms = []
        self.pre = State()
    def key(self, term):
        k = "p%04d" % len(self.terms); self.terms.append((k, term)); return k
    def ok(self, term):
        """every uninterpreted constant of term is declared in the query"""
        stack = [term]
        while stack:
            e = stack.pop()
            if z3.is_app(e):
                if e.decl().kind() == z3.Z3_OP_UNINTERPRETED and e.decl().name() not in self.declared: return False
                stack.extend(e.children())
        return True
    def plan(self, term, ty, depth=0):
        if not self.ok(term): return ("default", ty)
        if not has_obj(ty): return ("val", self.key(term), ty)
        if depth > MAX_DEPTH: raise Unsupported("object graph deeper than %d" % MAX_DEPTH)
        if isinstance(ty, T.Obj):
            sch = R.SCHEMAS[ty.family]
            if sch.box:
                arr = self.ex.harr(self.pre, ty.family, "val")
                return ("box", self.key(term), ty.family, self.plan(z3.Select(arr, term), sch.fields["val"], depth + 1))
            fields = {}
            for f, fty in sch.fields.items():
                if fty == "ignored" or f.startswith("__"): continue
                fields[f] = self.plan(z3.Select(self.ex.harr(self.pre, ty.family, f), term), fty, depth + 1)
            tag = z3.Select(self.ex.harr(self.pre, ty.family, "__class__"), term)
            return ("obj", self.key(term), self.key(tag) if self.ok(tag) else None, ty.family, fields)
        if isinstance(ty, T.Opt):
            return ("opt", self.key(T.opt_is_none(ty, term)), self.plan(T.opt_val(ty, term), ty.t, depth))
        if isinstance(ty, T.Tup):
            return ("tup", isinstance(ty, T.Rec), [self.plan(T.tup_get(ty, term, i), t, depth) for i, t in enumerate(ty.ts)])
        if isinstance(ty, T.List):
            arr = T.list_arr(ty, term)
            return ("list", self.key(T.list_len(ty, term)), [self.plan(z3.Select(arr, I(i)), ty.t, depth + 1) for i in range(K_ELEMS)])
        raise Unsupported("container of objects: %s" % ty)

# ------------------------------------------------------------------------------------------------ model values -> python
def unlet(v, env=None):
    """expand (let ((x e)) body) in a parsed model value"""
    env = env or {}
    if isinstance(v, str): return env.get(v, v)
    if isinstance(v, list):
        if len(v) == 3 and v[0] == "let" and isinstance(v[1], list):
            e2 = dict(env)
            for b in v[1]:
                if isinstance(b, list) and len(b) == 2 and isinstance(b[0], str): e2[b[0]] = unlet(b[1], e2)
            return unlet(v[2], e2)
        return [unlet(x, env) for x in v]
    return v

class Builder:
    def __init__(self, model, atom_rev):
        self.m, self.atom_rev = {k: unlet(x) for k, x in model.items()}, atom_rev
        self.objs = {}          # ref int -> python object
        self.fresh_atoms = {}
    def atom_tokens(self, ty):
        out = []; seen = set()
        def walk(x):
            if isinstance(x, str):
                if x.startswith(ty.name() + "!") and x not in seen: seen.add(x); out.append(x)
            elif isinstance(x, list):
                if len(x) == 3 and x[0] == "as" and x[2] == ty.name():
                    k = json.dumps(x)
                    if k not in seen: seen.add(k); out.append(x)
                    return
                for y in x: walk(y)
        for v in self.m.values(): walk(v)
        return out
    def atom(self, v, ty):
        k = json.dumps(v)
        if k in self.atom_rev: return self.atom_rev[k]
        if k not in self.fresh_atoms: self.fresh_atoms[k] = "http://atom.example/%s/%d" % (ty.name(), len(self.fresh_atoms))
        return self.fresh_atoms[k]
    def array(self, v):
        """-> (default, {key(json): (keyvalue, value)})"""
        if isinstance(v, list) and len(v) == 2 and isinstance(v[0], list) and v[0][:2] == ["as", "const"]:
            return v[1], {}
        if isinstance(v, list) and len(v) == 4 and v[0] == "store":
            d, items = self.array(v[1]); items = dict(items); items[json.dumps(v[2])] = (v[2], v[3]); return d, items
        if isinstance(v, list) and len(v) == 3 and v[0] == "lambda":
            var = v[1][0][0]; body = v[2]
            consts = []
            def collect(b):
                if isinstance(b, list):
                    if len(b) == 3 and b[0] == "=" and (b[1] == var or b[2] == var): consts.append(b[2] if b[1] == var else b[1])
                    for x in b: collect(x)
            collect(body)
            sentinel = object()
            d = self.evalb(body, {var: sentinel})
            items = {}
            for c in consts: items[json.dumps(c)] = (c, self.evalb(body, {var: c}))
            return d, items
        raise Unsupported("array model %r" % (str(v)[:80],))
    def evalb(self, b, env):
        if isinstance(b, list):
            op = b[0]
            if op == "=": return self.evalb(b[1], env) == self.evalb(b[2], env)
            if op == "ite": return self.evalb(b[2], env) if self.evalb(b[1], env) else self.evalb(b[3], env)
            if op == "or": return any(self.evalb(x, env) for x in b[1:])
            if op == "and": return all(self.evalb(x, env) for x in b[1:])
            if op == "not": return not self.evalb(b[1], env)
            return b           # a constructor application: a value
        if isinstance(b, str) and b in env: return env[b]
        return b
    def val(self, v, ty):
        if isinstance(ty, T.Atom): return self.atom(v, ty)
        if ty == T.NoneT: return None
        if ty == T.Real and isinstance(v, list): raise Unsupported("real model %r" % (v,))
        if isinstance(ty, T.Opt):
            if isinstance(v, str) and v.startswith("none_"): return None
            if isinstance(v, list) and len(v) == 2 and str(v[0]).startswith("some_"): return self.val(v[1], ty.t)
            raise Unsupported("opt model %r" % (v,))
        if isinstance(ty, T.Tup):
            if isinstance(v, list) and len(v) == len(ty.ts) + 1:
                parts = [self.val(x, t) for x, t in zip(v[1:], ty.ts)]
                return parts if isinstance(ty, T.Rec) else tuple(parts)
            raise Unsupported("tuple model")
        if isinstance(ty, T.List):
            if not (isinstance(v, list) and len(v) == 3): raise Unsupported("list model")
            n = v[1]
            if not isinstance(n, int) or n < 0 or n > 50: raise Unsupported("list length %r" % (n,))
            d, items = self.array(v[2])
            out = []
            for i in range(n):
                k = json.dumps(i)
                out.append(self.val(items[k][1] if k in items else d, ty.t))
            return out
        if isinstance(ty, T.Dict):
            if not (isinstance(v, list) and len(v) == 3): raise Unsupported("dict model")
            dd, dom = self.array(v[1]); md, mp = self.array(v[2])
            if dd is not False:
                # the solver's dictionary contains "every" key: keep the keys the model mentions anywhere (finite approximation that agrees
                # with the model on all of them; the native run decides whether the counterexample is real)
                if dd is not True or not isinstance(ty.k, T.Atom): raise Unsupported("dict model with infinite domain")
                dom = dict(dom)
                for tok in self.atom_tokens(ty.k):
                    dom.setdefault(json.dumps(tok), (tok, True))
            out = {}
            for k, (kv, present) in dom.items():
                if present is True:
                    out[self.val(kv, ty.k)] = self.val(mp[k][1] if k in mp else md, ty.v)
            return out
        if isinstance(ty, T.Set):
            dd, dom = self.array(v)
            if dd is not False: raise Unsupported("set model with infinite domain")
            return set(self.val(kv, ty.k) for k, (kv, present) in dom.items() if present is True)
        return _scalar_model_to_py(v, ty)
    def default(self, ty):
        if ty in (T.Int,): return 0
        if ty == T.Real: return 0.0
        if ty == T.Bool: return False
        if ty == T.Str: return ""
        if isinstance(ty, T.Atom): return self.atom("default", ty)
        if isinstance(ty, T.Opt) or ty == T.NoneT: return None
        if isinstance(ty, T.Rec): return [self.default(t) for t in ty.ts]
        if isinstance(ty, T.Tup): return tuple(self.default(t) for t in ty.ts)
        if isinstance(ty, T.List): return []
        if isinstance(ty, T.Dict): return {}
        if isinstance(ty, T.Set): return set()
        if ty == T.Card: return 1
        if isinstance(ty, T.Obj): return None          # never read on this path (its heap arrays do not occur in the query)
        raise Unsupported("default of %s" % ty)
    def build(self, plan):
        kind = plan[0]
        if kind == "default": return self.default(plan[1])
        if kind == "val": return self.val(self.m[plan[1]], plan[2])
        if kind == "opt":
            return None if self.m[plan[1]] is True else self.build(plan[2])
        if kind == "tup":
            parts = [self.build(p) for p in plan[2]]
            return parts if plan[1] else tuple(parts)
        if kind == "list":
            n = self.m[plan[1]]
            if not isinstance(n, int) or n < 0 or n > K_ELEMS: raise Unsupported("list of objects of length %r" % (n,))
            return [self.build(p) for p in plan[2][:n]]
        if kind == "box":
            ref = self.m[plan[1]]
            if ("box", plan[2], ref) not in self.objs: self.objs[("box", plan[2], ref)] = self.build(plan[3])
            return self.objs[("box", plan[2], ref)]
        if kind == "obj":
            ref = self.m[plan[1]]; fam = plan[3]; sch = R.SCHEMAS[fam]
            if (fam, ref) in self.objs: return self.objs[(fam, ref)]
            classes = [c for c in sch.classes]
            if not classes: raise Unsupported("family %s has no class" % fam)
            tag = self.m.get(plan[2]) if plan[2] else 0
            if not isinstance(tag, int) or not (0 <= tag < len(classes)): tag = 0
            cq = classes[tag]
            if cq.startswith("ext:"): raise Unsupported("external class %s" % cq)
            klass = load_real(cq)
            inst = object.__new__(klass)
            self.objs[(fam, ref)] = inst
            for f, p in plan[4].items():
                if f in sch.funfields: continue
                try: object.__setattr__(inst, f, self.build(p))
                except AttributeError: raise Unsupported("cannot set %s.%s" % (cq, f))
            return inst
        raise Unsupported(kind)

# ------------------------------------------------------------------------------------------------ python -> symbolic state
class Heapify:
    def __init__(self, ex):
        self.ex = ex; self.refs = {}; self.keep = []; self.next = 1
    def ref_of(self, py):
        if id(py) not in self.refs:
            self.refs[id(py)] = self.next; self.next += 1; self.keep.append(py)
        return self.refs[id(py)]
    def to_term(self, st, py, ty):
        ex = self.ex
        if isinstance(ty, T.Obj):
            sch = R.SCHEMAS[ty.family]
            r = I(self.ref_of(py))
            if sch.box:
                ex.hwrite(st, ty.family, "val", r, self.to_term(st, py, sch.fields["val"])); return r
            cq = None
            for i, c in enumerate(sch.classes):
                if c.startswith("ext:"): continue
                m, n = c.split(":")
                if type(py).__module__ == m and type(py).__qualname__ == n: cq = i
            if cq is None: raise Unsupported("object of class %s is not in family %s" % (type(py).__name__, ty.family))
            ex.hwrite(st, ty.family, "__class__", r, I(cq))
            for f, fty in sch.fields.items():
                if fty == "ignored" or f.startswith("__") or f in sch.funfields: continue
                if not hasattr(py, f): continue
                if getattr(py, f) is None and isinstance(fty, T.Obj): continue
                ex.hwrite(st, ty.family, f, r, self.to_term(st, getattr(py, f), fty))
            return r
        if isinstance(ty, T.Opt):
            return T.opt_none(ty) if py is None else T.opt_some(ty, self.to_term(st, py, ty.t))
        if isinstance(ty, T.Tup):
            if len(py) != len(ty.ts): raise Unsupported("tuple arity")
            return T.tup_mk(ty, *[self.to_term(st, x, t) for x, t in zip(py, ty.ts)])
        if isinstance(ty, T.List):
            arr = z3.K(z3.IntSort(), ex.default(ty.t))
            for i, x in enumerate(py): arr = z3.Store(arr, i, self.to_term(st, x, ty.t))
            return T.list_mk(ty, I(len(py)), arr)
        if isinstance(ty, T.Dict):
            dom = z3.K(T.sort_of(ty.k), z3.BoolVal(False)); mp = z3.K(T.sort_of(ty.k), ex.default(ty.v))
            for k, x in py.items():
                kk = self.to_term(st, k, ty.k)
                dom = z3.Store(dom, kk, z3.BoolVal(True)); mp = z3.Store(mp, kk, self.to_term(st, x, ty.v))
            return T.dict_mk(ty, dom, mp)
        if isinstance(ty, T.Set):
            s = z3.K(T.sort_of(ty.k), z3.BoolVal(False))
            for k in py: s = z3.Store(s, self.to_term(st, k, ty.k), z3.BoolVal(True))
            return s
        if ty == T.Real and isinstance(py, int): py = float(py)
        return py_to_sv(ex, py, ty).t

def _call(f, args, kwargs, timeout=10):
    old = signal.signal(signal.SIGALRM, _alarm); signal.alarm(timeout)
    try:
        r = f(*args, **kwargs)
        if hasattr(r, "__next__"): r = list(r)
        return ("return", r)
    except _Timeout: return ("timeout",)
    except BaseException as e:
        tb = traceback.extract_tb(e.__traceback__)
        where = "%s:%d" % (os.path.basename(tb[-1].filename), tb[-1].lineno) if tb else ""
        return ("raise", type(e).__name__, "%s (%s)" % (str(e)[:200], where))
    finally:
        signal.alarm(0); signal.signal(signal.SIGALRM, old)

def replay_objects(ex, c, r, solve_all, timeout=30):
    """r: a refuted solve.Result for contract c.  -> info dict like replay.replay_pyargs"""
    info = {"inputs": None, "native": None, "verdict": "no-native-replay", "detail": ""}
    ob = r.ob
    try:
        m_, cls, fnode = X.find_function(c.qual)
        names, defaults, vararg, static = X.signature(fnode)
        if vararg: raise Unsupported("*args")
        pl = Planner(ex, declared_names(ob))
        plans = {}
        for n, sv in ob.inputs.items():
            if isinstance(sv.t, list): raise Unsupported("display parameter")
            plans[n] = pl.plan(sv.t, sv.ty)
        atom_keys = {}
        for (an, py), const in T._atom_consts.items():
            if const.decl().name() in pl.declared: atom_keys[pl.key(const)] = py
        ob2 = Obligation(ob.name + "#probe", ob.func, ob.kind, ob.line, ob.assumptions, ob.goal, ob.props)
        ob2.inputs = {k: SV(None, t) for k, t in pl.terms}
        res = solve_all([ob2], timeout=timeout)[0]
        if res.status != "sat" or not res.model: raise Unsupported("probe query answered %s" % res.status)
        if len(res.model) < len(pl.terms): raise Unsupported("probe model incomplete (%d of %d values)" % (len(res.model), len(pl.terms)))
        rev = {json.dumps(unlet(res.model[k])): py for k, py in atom_keys.items() if k in res.model}
        b = Builder(res.model, rev)
        pyargs = {n: b.build(p) for n, p in plans.items()}
    except Unsupported as e:
        info["detail"] = "objects not reconstructible from the model: %s" % e; return info
    except Exception as e:
        info["detail"] = "object reconstruction failed: %s: %s" % (type(e).__name__, str(e)[:200]); return info
    info["inputs"] = {k: _show(v) for k, v in pyargs.items()}
    try:
        hp = Heapify(ex)
        pre = State(); pre.ctx = (c.qual.split(":")[0], None, c.qual)
        tys = {n: sv.ty for n, sv in ob.inputs.items()}
        for n, v in pyargs.items():
            pre.env[n] = SV(tys[n], hp.to_term(pre, v, tys[n]))
        pre.alloc = I(hp.next)
        old = pre.fork(); old.env = dict(pre.env)
        for rq in c.requires:
            if ground_holds(ex, rq, _with_old(pre, old)) is False:
                info["verdict"] = "outside-precondition"; info["detail"] = rq; return info
        f = load_real(c.qual)
        args = []; kwargs = {}
        if "self" in pyargs: args.append(pyargs["self"])
        for n in names:
            if n in pyargs and n != "self": kwargs[n] = pyargs[n]
        outcome = _call(f, args, kwargs)
        info["native"] = [repr(x)[:300] for x in outcome]
        post = State(); post.ctx = pre.ctx; post.heap = dict(pre.heap)
        for n, v in pyargs.items():
            post.env[n] = SV(tys[n], hp.to_term(post, v, tys[n]))
        post.alloc = I(hp.next); post.old = old
        verdict, detail = _judge(ex, c, pre, old, post, outcome, hp)
        info["verdict"], info["detail"] = verdict, detail
    except Unsupported as e:
        info["detail"] = "outcome not representable: %s" % e
    except VCError as e:
        info["verdict"] = "undecided"; info["detail"] = str(e)
    return info

def _with_old(st, old):
    s = st.fork(); s.env = dict(st.env); s.old = old; return s

def _judge(ex, c, pre, old, post, outcome, hp):
    if outcome[0] == "timeout": return "violates", "does not terminate within the wall-clock guard"
    p0 = _with_old(pre, old)
    if outcome[0] == "raise":
        exc = outcome[1]
        conds = [cond for e, cond in c.raises if e == exc or e == "Exception"]
        if not conds: return "violates", "raised %s: %s (contract allows %s)" % (exc, outcome[2], [e for e, _ in c.raises] or "no exception")
        und = False
        for cond in conds:
            if cond is None: return "ok", ""
            h = ground_holds(ex, cond.lstrip("?"), p0)
            if h is True: return "ok", ""
            if h is None: und = True
        return ("undecided", "") if und else ("violates", "raised %s: %s although none of its conditions holds" % (exc, outcome[2]))
    for e, cond in c.raises:
        if cond is not None and not cond.startswith("?"):
            if ground_holds(ex, cond, p0) is True: return "violates", "returned normally although %s was required: %s" % (e, cond)
    val = outcome[1]
    rty = T.List(c.yields) if c.yields is not None else c.returns
    if rty != T.NoneT:
        try: post.env["result"] = SV(rty, hp.to_term(post, _norm_result(val, rty) if not has_obj(rty) else val, rty))
        except Exception as exn: return "undecided", "result %r not representable as %s (%s)" % (val, rty, exn)
        post.alloc = I(hp.next)
    for e in c.ensures:
        h = ground_holds(ex, e, post)
        if h is False: return "violates", "after the call on these objects (result %r): %s" % (val, e)
        if h is None: return "undecided", e
    return "ok", ""

def _show(v, depth=0):
    if depth > 3: return "..."
    if isinstance(v, (int, float, str, bool, type(None))): return repr(v)
    if isinstance(v, (list, tuple, set)): return "%s(%s)" % (type(v).__name__, ", ".join(_show(x, depth + 1) for x in list(v)[:8]))
    if isinstance(v, dict): return "{%s}" % ", ".join("%s: %s" % (_show(k, depth + 1), _show(x, depth + 1)) for k, x in list(v.items())[:8])
    d = getattr(v, "__dict__", {})
    return "%s(%s)" % (type(v).__name__, ", ".join("%s=%s" % (k, _show(x, depth + 1)) for k, x in list(d.items())[:10]))
