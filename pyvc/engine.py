"""The Executor: ties the mixins together, evaluates specification expressions, generates obligations per function."""
import ast, z3, functools
from . import types as T
from . import extract as X
from . import registry as R
from .state import SV, State, VCError, Display, PyFunc, Obligation, fresh, fresh_sort
from .expr import ExprMixin, I, S, is_pystr
from .evalx import EvalMixin
from .calls import CallMixin
from .stmt import StmtMixin, _mutable_container

@functools.lru_cache(maxsize=None)
def _parse_expr(src):
    return ast.parse(src.strip(), mode="eval").body

class _TraceT(T.Ty):
    def name(self): return "Trace"
TraceT = _TraceT()

class Executor(CallMixin, EvalMixin, ExprMixin, StmtMixin):
    def __init__(self, spec_types=None):
        self.spec = False
        self.quiet = 0
        self.obligations = []
        self.pending_raises = []
        self.assumptions = set()
        self.inlined = set()
        self.called = set()
        self.spec_names = {}
        self.spec_types = dict(spec_types or {})
        self.spec_types.update({"Int": T.Int, "Bool": T.Bool, "Real": T.Real, "Str": T.Str, "Card": T.Card})
        self.declared_locals = {}
        self.loop_ids = {}
        self.loop_specs = {}
        self.current_loop_func = None
        self.current_contract_for_loops = None
        self.current_qual = None
        self.inline_self = False
        self.inline_whitelist = set()
        self.order_sensitive_sites = []
        self.card_positive = False
        self.current_props = []
        self.ob_counter = 0
        self.numbered = set()
        self.frame_parent = {}
        self.pending_facts = []     # ground axiom instances to be assumed in every obligation of the current function

    def note_assumption(self, s): self.assumptions.add(s)

    # ------------------------------------------------------------------ obligations
    def oblige(self, st, goal, kind, node, expect="unsat"):
        if self.quiet or self.spec: return
        if z3.is_true(goal): return
        if self.pending_facts:
            for f in self.pending_facts:
                if not any(f.eq(g) for g in st.pc): st.pc.append(f)
        self.ob_counter += 1
        line = getattr(node, "lineno", 0) if node is not None else 0
        name = "%s#%s#L%d#%d" % (self.current_qual, kind, line, self.ob_counter)
        ob = Obligation(name, self.current_qual, kind, line, st.pc, goal, props=self.current_props)
        ob.inputs = dict(self.current_inputs)
        ob.expect = expect
        self.obligations.append(ob)

    # ------------------------------------------------------------------ spec evaluation
    def spec_eval(self, src, st, contract, want="bool"):
        node = _parse_expr(src)
        prev = self.spec, self.quiet
        self.spec = True
        try:
            s = st.fork(); s.env = dict(st.env)
            if s.ctx is None: s.ctx = ("shexer", None, None)
            outs = list(self.ev(node, s))
        finally:
            self.spec = prev[0]
        if len(outs) != 1: raise VCError("spec expression forks: %s" % src)
        s2, v = outs[0]
        for f in s2.pc[len(st.pc):]: st.assume(f)     # axioms instantiated while evaluating (rfind, strip, ...)
        if want == "bool": return self.truth(v)
        return v

    def spec_form(self, name, node, st):
        if name == "old":
            if st.old is None: raise VCError("old() without pre-state")
            o = st.old.fork(); o.env = dict(st.old.env); o.old = None; o.pc = st.pc
            for k, v in st.env.items():          # quantified / ghost variables stay visible
                if k not in o.env: o.env[k] = v
            for s2, v in self.ev(node.args[0], o): yield st, v
            return
        if name == "at_loop":
            # value of an expression when the loop with the given ordinal was (last) entered
            ordv = node.args[0].value
            snap = st.loop_snap.get(ordv)
            if snap is None: raise VCError("at_loop(%s): loop not entered on this path" % ordv)
            o = snap.fork(); o.env = dict(snap.env); o.pc = st.pc
            for k, v in st.env.items():
                if k not in o.env: o.env[k] = v
            for s2, v in self.ev(node.args[1], o): yield st, v
            return
        if name == "pre":
            # current variables, heap of the function's pre-state: "the old fields of the object that is now at ..."
            if st.old is None: raise VCError("pre() without pre-state")
            o = st.fork(); o.env = dict(st.env); o.heap = dict(st.old.heap)
            for s2, v in self.ev(node.args[0], o): yield st, v
            return
        if name in ("forall", "exists"):
            lam = node.args[-1]
            if not isinstance(lam, ast.Lambda): raise VCError("%s(T.., lambda ..)" % name)
            tys = []
            for a in node.args[:-1]:
                tname = ast.unparse(a)
                ty_ = self.spec_types.get(tname) or R.SPEC_TYPES.get(tname)
                if ty_ is None: raise VCError("unknown type %s in quantifier" % tname)
                tys.append(ty_)
            names = [a.arg for a in lam.args.args]
            if len(names) != len(tys): raise VCError("quantifier arity")
            s = st.fork(); s.env = dict(st.env)
            bound = []
            for n, ty in zip(names, tys):
                v = z3.Const("%s!q%d" % (n, id(node) % 9973), T.sort_of(ty))
                bound.append(v); s.env[n] = SV(ty, v)
            outs = list(self.ev(lam.body, s))
            if len(outs) != 1: raise VCError("quantifier body forks")
            s2, body = outs[0]
            extra = s2.pc[len(st.pc):]
            b = self.truth(body)
            if extra:
                # facts instantiated while evaluating the body (well-formedness of values read from the heap) hold for
                # every value of the bound variables: they are background assumptions, not part of the quantified claim
                txt = " ".join(str(e) for e in extra)
                if "rfind!" in txt or "strip!" in txt: raise VCError("rfind/strip inside a quantifier body")
                st.assume(z3.ForAll(bound, z3.And(extra)))
            q = z3.ForAll(bound, b) if name == "forall" else z3.Exists(bound, b)
            yield st, SV(T.Bool, q)
            return
        raise VCError("spec form %s" % name)

    def apply_specfun(self, st, name, args):
        f = R.SPECFUNS[name]
        if len(args) != len(f.argtys): raise VCError("spec function %s arity" % name)
        cargs = [self.coerce(a, t) for a, t in zip(args, f.argtys)]
        if f.define is not None and not f.rec:
            s = st.fork(); s.env = dict(zip(f.argnames, cargs)); s.old = None
            for k, v in st.env.items():
                if k.startswith("__"): s.env[k] = v
            v = self.spec_eval(f.define, s, None, want=None)
            for fml in s.pc[len(st.pc):]: st.assume(fml)
            return self.coerce(v, f.ret)
        self.used_specfuns.add(name)
        return SV(f.ret, f.z3f(*[a.t for a in cargs]))

    used_specfuns = set()

    def spec_builtin(self, st, name, a, node):
        if name == "implies": return SV(T.Bool, z3.Implies(self.truth(a[0]), self.truth(a[1])))
        if name == "iff": return SV(T.Bool, self.truth(a[0]) == self.truth(a[1]))
        if name == "ite":
            x, y = self.unify(a[1], a[2]); return SV(x.ty, z3.If(self.truth(a[0]), x.t, y.t))
        if name == "dom":
            d = a[0]
            if isinstance(d.ty, T.Opt): d = SV(d.ty.t, T.opt_val(d.ty, d.t))
            return SV(T.Set(d.ty.k), T.dict_dom(d.ty, d.t))
        if name == "floor":
            return SV(T.Int, z3.ToInt(self.coerce(a[0], T.Real).t))
        if name == "py_str_float":
            return self.to_str(st, self.coerce(a[0], T.Real))
        if name == "joined":
            return SV(T.Str, self.joined(a[0].t))
        if name == "is_perm":
            return SV(T.Bool, z3.Or(self.is_perm(a[0].ty, a[0].t, a[1].t), a[0].t == a[1].t))
        if name == "abs_real":
            x = self.coerce(a[0], T.Real).t; return SV(T.Real, z3.If(x >= 0, x, -x))
        if name == "same_except":
            d1, d2 = a[0], a[1]
            kk = z3.Const("k!se%d" % (id(node) % 9973), T.sort_of(d1.ty.k))
            excl = [kk != self.coerce(x, d1.ty.k).t for x in a[2:]]
            if isinstance(d1.ty, T.Set):
                return SV(T.Bool, z3.ForAll([kk], z3.Implies(z3.And(excl), z3.Select(d1.t, kk) == z3.Select(d2.t, kk))))
            return SV(T.Bool, z3.ForAll([kk], z3.Implies(z3.And(excl), z3.And(
                z3.Select(T.dict_dom(d1.ty, d1.t), kk) == z3.Select(T.dict_dom(d2.ty, d2.t), kk),
                z3.Select(T.dict_map(d1.ty, d1.t), kk) == z3.Select(T.dict_map(d2.ty, d2.t), kk)))))
        if name == "list_eq":
            l1, l2 = a[0], a[1]; ty = l1.ty
            i = z3.Int("i!le%d" % (id(node) % 9973))
            return SV(T.Bool, z3.And(T.list_len(ty, l1.t) == T.list_len(ty, l2.t),
                      z3.ForAll([i], z3.Implies(z3.And(i >= 0, i < T.list_len(ty, l1.t)), T.list_arr(ty, l1.t)[i] == T.list_arr(ty, l2.t)[i]))))
        if name == "is_append":
            l1, l2 = a[0], a[1]; ty = l1.ty; x = self.coerce(a[2], ty.t)
            i = z3.Int("i!ia%d" % (id(node) % 9973)); n = T.list_len(ty, l2.t)
            return SV(T.Bool, z3.And(T.list_len(ty, l1.t) == n + 1, T.list_arr(ty, l1.t)[n] == x.t,
                      z3.ForAll([i], z3.Implies(z3.And(i >= 0, i < n), T.list_arr(ty, l1.t)[i] == T.list_arr(ty, l2.t)[i]))))
        if name == "at":
            # spec-level indexing without Python's negative-index rule (the index is known to be in range where it is used):
            # keeps quantifier triggers free of ite terms
            l = a[0]
            if isinstance(l.ty, T.Opt): l = SV(l.ty.t, T.opt_val(l.ty, l.t))
            v = SV(l.ty.t, z3.Select(T.list_arr(l.ty, l.t), self.coerce(a[1], T.Int).t)); self.assume_wf(st, v); return v
        if name == "is_empty_list":
            return SV(T.Bool, T.list_len(a[0].ty, a[0].t) == 0)
        if name == "unboxed":
            return self.unbox(st, a[0])
        if name == "ext_const":
            ty, cst = R.EXTCONSTS[a[0].t.as_string()]; return SV(ty, cst)
        if name == "bn":
            f = z3.Function("fresh_node", z3.IntSort(), T.sort_of(R.TRACE["elem"].ts[0]))
            return SV(R.TRACE["elem"].ts[0], f(st.env["__bn__"].t + a[0].t))
        if name == "select_eq":
            d1, d2 = a[0], a[1]
            k = self.coerce(a[2], d1.ty.k).t
            return SV(T.Bool, z3.And(z3.Select(T.dict_dom(d1.ty, d1.t), k) == z3.Select(T.dict_dom(d2.ty, d2.t), k),
                                     z3.Select(T.dict_map(d1.ty, d1.t), k) == z3.Select(T.dict_map(d2.ty, d2.t), k)))
        if name == "is_none": return SV(T.Bool, T.opt_is_none(a[0].ty, a[0].t)) if isinstance(a[0].ty, T.Opt) else SV(T.Bool, z3.BoolVal(a[0].ty == T.NoneT))
        if name == "some": return SV(a[0].ty.t, T.opt_val(a[0].ty, a[0].t), cls=a[0].cls)
        if name == "to_real": return self.coerce(a[0], T.Real)
        if name == "is_int": return SV(T.Bool, T.card_is_int(a[0].t))
        if name == "card_val": return SV(T.Int, T.card_n(a[0].t))
        if name == "card_int": return SV(T.Card, T.card_int(a[0].t))
        if name == "fresh_obj":
            # the object did not exist in the pre-state of the function (allocated by this call)
            base = st.old.alloc if getattr(st, "old", None) is not None else st.alloc
            return SV(T.Bool, a[0].t >= base)
        if name == "is_alloc": return SV(T.Bool, z3.And(a[0].t >= 1, a[0].t < st.alloc))
        if name == "alloc": return SV(T.Int, st.alloc)
        if name == "has_class":
            sch = R.SCHEMAS[a[0].ty.family]
            want = a[1].t.as_string()
            idxs = [i for i, c in enumerate(sch.classes) if c.endswith(":" + want) or c == want]
            tag = self.hread(st, a[0].ty.family, "__class__", a[0].t)
            return SV(T.Bool, z3.Or([tag == i for i in idxs] + [z3.BoolVal(False)]))
        if name == "in_re":
            return SV(T.Bool, z3.InRe(a[0].t, R.REGEXES[a[1].t.as_string()]))
        if name == "str_at": return SV(T.Str, z3.SubString(a[0].t, a[1].t, 1))
        if name == "str_from_int": return SV(T.Str, z3.IntToStr(a[0].t))
        if name == "py_split": return self.py_split(st, a[0].t, a[1].t.as_string())
        if name == "heap_eq":
            fam, field = a[0].t.as_string().split(".")
            cur = self.harr(st, fam, field)
            old = self.harr(st.old, fam, field) if st.old is not None else cur
            return SV(T.Bool, cur == old)
        raise VCError("spec builtin %s" % name)

    regexes = {}

    # ------------------------------------------------------------------ function verification
    def number_loops(self, fnode, qual):
        k = 0
        for n in _walk_in_order(fnode):
            if isinstance(n, (ast.For, ast.While)):
                self.loop_ids[id(n)] = k; k += 1
        return k

    def initial_state(self, c, fnode, module, cls):
        st = State()
        st.ctx = (module, "%s:%s" % (module, cls) if cls else None, c.qual)
        names, defaults, vararg, static = X.signature(fnode)
        has_self = cls is not None and not static
        self.current_inputs = {}
        if has_self:
            names = names[1:]
            sty = c.self_type
            if sty is None:
                fam = R.CLASS_FAMILY.get("%s:%s" % (module, cls))
                if fam is None:
                    here = "%s:%s" % (module, cls)
                    for cq, f_ in R.CLASS_FAMILY.items():      # the registered (primary) schema of a class that inherits this method
                        if cq.startswith("ext:"): continue
                        if here in ["%s:%s" % (m_, n_.name) for m_, n_ in X.mro(*cq.split(":"))]:
                            fam = f_; break
                if fam is None: raise VCError("%s: no schema for class %s (self_type missing)" % (c.qual, cls))
                sty = T.Obj(fam)
            selfv = SV(sty, fresh("self", sty), cls=c.ghost.get("self_class"))
            st.alloc = fresh("alloc0", T.Int); st.assume(st.alloc >= 1)
            self.assume_wf(st, selfv)
            if isinstance(sty, T.Obj) and R.SCHEMAS[sty.family].classes:
                # dynamic class of self: a class of the family that inherits this method
                sch = R.SCHEMAS[sty.family]; here = "%s:%s" % (module, cls)
                tag = self.hread(st, sty.family, "__class__", selfv.t)
                ok = []
                for i, cq in enumerate(sch.classes):
                    if cq.startswith("ext:"): continue
                    chain = ["%s:%s" % (m_, n_.name) for m_, n_ in X.mro(*cq.split(":"))]
                    if here in chain:
                        mm = X.find_method(*cq.split(":"), fnode.name) or X.find_property(*cq.split(":"), fnode.name)
                        if mm is not None and "%s:%s" % (mm[0], mm[1]) == here: ok.append(tag == i)
                if ok: st.assume(z3.Or(ok))
            st.env["self"] = selfv
            self.current_inputs["self"] = selfv
        else:
            st.alloc = fresh("alloc0", T.Int); st.assume(st.alloc >= 1)
        for n in names + ([vararg] if vararg else []):
            if n not in c.params:
                if n == "verbose":
                    st.env[n] = SV(T.Bool, fresh("verbose", T.Bool)); continue
                # a parameter the contract does not know (added later, with a default): the contract is silent about it, so it is an
                # UNCONSTRAINED input of the default's type - callers may pass anything, the postcondition must hold for all of it
                d = defaults.get(n)
                dty = None
                if isinstance(d, ast.Constant):
                    dty = {bool: T.Bool, int: T.Int, str: T.Str, float: T.Real}.get(type(d.value))
                if dty is None: raise VCError("%s: parameter %s has no declared type" % (c.qual, n))
                v = SV(dty, fresh(n, dty)); st.env[n] = v; self.current_inputs[n] = v
                self.note_assumption("%s: parameter %s is not in the contract: treated as an unconstrained %s" % (c.qual, n, dty))
                continue
            ty = c.params[n]
            if isinstance(ty, tuple) and ty[0] == "display":
                vs = [SV(t, fresh(n + "_%d" % i, t)) for i, t in enumerate(ty[1])]
                for v in vs: self.assume_wf(st, v)
                st.env[n] = SV(Display, vs)
                for i, v in enumerate(vs): self.current_inputs["%s[%d]" % (n, i)] = v
                continue
            v = SV(ty, fresh(n, ty))
            self.assume_wf(st, v)
            if _mutable_container(ty): v.mark = ("param", n, False)
            st.env[n] = v
            self.current_inputs[n] = v
        for g, ty in c.ghost.items():
            if g in ("self_class", "__locals__"): continue
            v = SV(ty, fresh("ghost_" + g, ty)); self.assume_wf(st, v); st.env[g] = v
            self.current_inputs[g] = v
        if c.yields is not None:
            st.env["__yielded__"] = self.empty(T.List(c.yields))
        if R.TRACE and (c.emits is not None or c.bnodes is not None):
            st.env["__trace__"] = SV(TraceT, z3.Empty(z3.SeqSort(T.sort_of(R.TRACE["elem"]))))
            st.env["__bn__"] = SV(T.Int, fresh("bn0", T.Int))
        return st

    def verify_function(self, qual):
        """Generate all obligations of one function against its contract. Returns list of Obligation."""
        c = R.CONTRACTS[qual]
        module, cls, fnode = X.find_function(qual)
        start = len(self.obligations)
        self.current_qual = qual
        self.current_props = c.props
        self.current_loop_func = qual
        self.number_loops(fnode, qual)
        for k, v in c.loops.items(): self.loop_specs[(qual, k)] = v
        self.declared_locals = dict(c.ghost.get("__locals__", {})) if isinstance(c.ghost.get("__locals__"), dict) else {}
        self.pending_facts = []
        if c.yields is None and any(isinstance(n_, (ast.Yield, ast.YieldFrom)) for n_ in ast.walk(fnode)):
            # the contract promises a value (a list, ...) but the function is a generator now: every caller that uses the result twice,
            # asks for its length or indexes it gets something else than the contract says
            st0 = State(); st0.ctx = (module, None, qual)
            self.oblige(st0, z3.BoolVal(False), "function-became-a-generator-but-its-contract-returns-a-value", fnode)
            return self.obligations[start:]
        st = self.initial_state(c, fnode, module, cls)
        for fn_ in c.axioms_of:
            for ax in R.SPECFUNS[fn_].axioms: st.assume(self.spec_eval(ax, st, c))
        # preconditions
        for r in c.requires:
            st.assume(self.spec_eval(r, st, c))
        old = st.fork(); old.env = dict(st.env)
        st.old = old
        if c.cover:
            ob = Obligation("%s#cover-precondition" % qual, qual, "cover", fnode.lineno, st.pc, z3.BoolVal(False), props=c.props)
            ob.expect = "sat"; self.obligations.append(ob)
        n_normal = 0
        for kind, s2, val in self.exec_stmts_toplevel(fnode.body, st):
            if kind in ("fall", "return"):
                n_normal += 1
                self.check_post(c, s2, val, fnode, old)
            elif kind == "raise":
                self.check_raise(c, s2, val, fnode, old)
            else: raise VCError("break/continue at top level")
        return self.obligations[start:]

    def exec_stmts_toplevel(self, body, st):
        top = []; st.exc_sink = top
        for out in self.exec_block(body, st):
            yield out
            while top: s, e = top.pop(0); yield "raise", s, e
        while top: s, e = top.pop(0); yield "raise", s, e

    def check_post(self, c, st, val, fnode, old):
        for n_ in c.params:
            v_ = st.env.get(n_)
            if isinstance(v_, SV) and v_.mark == ("param", n_, True) and n_ not in c.mutates:
                # callers see the update (same object), but the contract does not speak about it: the contract must declare mutates=[...]
                self.oblige(st, z3.BoolVal(False), "parameter-%s-updated-in-place-but-not-declared-in-mutates" % n_, fnode)
        s = st.fork(); s.env = dict(old.env)
        # parameters that are mutated in place are visible in their final state
        for m in c.mutates:
            if m in st.env: s.env[m] = st.env[m]
        for g in list(st.env.keys()):
            if g.startswith("_i") or g.startswith("_n") or g.startswith("_keys") or g.startswith("_seq"): s.env.setdefault(g, st.env[g])
        s.old = old
        if c.yields is not None:
            s.env["result"] = st.env["__yielded__"]
        elif c.returns != T.NoneT:
            if val is None: val = SV(T.NoneT, z3.BoolVal(True))
            if val.ty == T.NoneT and not isinstance(c.returns, T.Opt):
                self.oblige(st, z3.BoolVal(False), "returns-None-but-contract-says-%s" % c.returns, fnode)
                return
            s.env["result"] = self.coerce(val, c.returns, st, fnode)
        for exc, cond in c.raises:
            if cond is not None and not cond.startswith("?"):
                pre = old.fork(); pre.env = dict(old.env); pre.pc = st.pc
                g = z3.Not(self.spec_eval(cond, pre, c))
                self.oblige(st, g, "must-raise-%s:%s" % (exc, cond[:60]), fnode)
        for e in c.ensures:
            g = self.spec_eval(e, s, c)
            for f in s.pc[len(st.pc):]: st.assume(f)
            self.oblige(st, g, "postcondition:%s" % e[:80], fnode)
        if "__trace__" in st.env and c.emits is not None:
            pre = old.fork(); pre.env = dict(old.env); pre.pc = st.pc
            self.oblige(st, st.env["__trace__"].t == self.trace_seq(c, pre), "effect-trace:emitted-events-equal-contract", fnode)
            n = self.spec_eval(c.bnodes or "0", pre, c, want=None)
            self.oblige(st, st.env["__bn__"].t == old.env["__bn__"].t + n.t, "effect-trace:fresh-node-count", fnode)
        self.check_frame(c, st, old, fnode)

    def check_raise(self, c, st, exc, fnode, old):
        alts = []
        for e, cond in c.raises:
            if e == exc or e == "Exception":
                if cond is None: alts.append(z3.BoolVal(True))
                else:
                    pre = old.fork(); pre.env = dict(old.env); pre.pc = st.pc
                    alts.append(self.spec_eval(cond.lstrip("?"), pre, c))
        g = z3.Or(alts) if alts else z3.BoolVal(False)
        self.oblige(st, g, "raises-%s-only-when-allowed" % exc, fnode)

    def check_frame(self, c, st, old, fnode):
        if "*" in c.modifies: return
        allowed = {}
        for item in c.modifies:
            if item == "alloc": continue
            spec, _, at = item.partition("[")
            fam, field = spec.split(".")
            allowed.setdefault((fam, field), []).append(at[:-1] if at else None)
        for k, arr in st.heap.items():
            o = old.heap.get(k)
            if o is None: o = self.harr(old, *k)
            if o.eq(arr): continue
            if k[1] == "__class__": continue
            ats = allowed.get(k)
            if ats is not None and None in ats: continue
            r = z3.Int("r!fr")
            excl = []
            for a in (ats or []):
                pre = old.fork(); pre.env = dict(old.env); pre.pc = st.pc
                excl.append(r != self.spec_eval(a, pre, c, want=None).t)
            guard = z3.And([r >= 1, r < old.alloc] + excl)
            self.oblige(st, z3.ForAll([r], z3.Implies(guard, z3.Select(arr, r) == z3.Select(o, r))),
                        "frame:%s.%s-unchanged" % k, fnode)

def _walk_in_order(node):
    for child in ast.iter_child_nodes(node):
        yield child
        yield from _walk_in_order(child)
