"""Calls: built-ins, container methods, inlined real functions, modular calls through contracts."""
import ast, z3
from . import types as T
from . import extract as X
from . import registry as R
from .state import SV, State, VCError, Display, PyFunc, fresh, fresh_sort
from .expr import I, S, is_pystr

from .stmt import _mutable_container
MAX_INLINE_DEPTH = 6

class CallMixin:
    def ev_Call(self, node, st):
        if any(isinstance(a, ast.Starred) for a in node.args) or any(k.arg is None for k in node.keywords):
            raise VCError("star-args in call (line %d)" % node.lineno)
        f = node.func
        # spec-level forms that take unevaluated arguments
        if self.spec and isinstance(f, ast.Name) and f.id in ("forall", "exists", "old", "pre", "at_loop", "let"):
            yield from self.spec_form(f.id, node, st); return
        if isinstance(f, ast.Name) and f.id == "super":
            raise VCError("bare super()")
        if isinstance(f, ast.Attribute) and isinstance(f.value, ast.Call) and isinstance(f.value.func, ast.Name) \
                and f.value.func.id == "super":
            yield from self.super_call(node, st); return
        for st1, fv in self.ev(f, st):
            for st2, args in self.ev_list(list(node.args), st1):
                args = [SV(v.ty, v.t, v.cls, lv=n) for v, n in zip(args, node.args)]
                for st3, kwv in self.ev_list([k.value for k in node.keywords], st2):
                    kwargs = {k.arg: SV(v.ty, v.t, v.cls, lv=k.value) for k, v in zip(node.keywords, kwv)}
                    yield from self.apply(st3, fv, args, kwargs, node)

    def super_call(self, node, st):
        meth = node.func.attr
        module, cq = st.ctx[0], st.ctx[1]
        chain = X.mro(*cq.split(":"))
        for m, cnode in chain[1:]:
            for d in cnode.body:
                if isinstance(d, ast.FunctionDef) and d.name == meth:
                    for st2, args in self.ev_list(list(node.args), st):
                        for st3, kwv in self.ev_list([k.value for k in node.keywords], st2):
                            kwargs = {k.arg: v for k, v in zip(node.keywords, kwv)}
                            yield from self.call_user(st3, "%s:%s.%s" % (m, cnode.name, meth), st3.env["self"], args, kwargs, node)
                    return
        raise VCError("super().%s not found" % meth)

    # ------------------------------------------------------------------ application
    def apply(self, st, fv, args, kwargs, node):
        if fv.ty != PyFunc: raise VCError("call of non-function value %s (line %s)" % (fv.ty, getattr(node, "lineno", "?")))
        kind = fv.t[0]
        if kind == "pytype": yield from self.builtin(st, fv.t[1], args, kwargs, node)
        elif kind == "builtin": yield from self.builtin(st, fv.t[1], args, kwargs, node)
        elif kind == "bound-builtin": yield from self.container_method(st, fv.t[2], fv.t[1], args, kwargs, node, fv.t[3])
        elif kind == "func": yield from self.call_user(st, fv.t[1], None, args, kwargs, node)
        elif kind == "bound": yield from self.call_user(st, fv.t[1], fv.t[2], args, kwargs, node)
        elif kind == "class": yield from self.construct(st, fv.t[1], args, kwargs, node)
        elif kind == "specfun": yield st, self.apply_specfun(st, fv.t[1], args)
        elif kind == "exc": yield st, SV(PyFunc, ("excval", fv.t[1]))
        elif kind == "external":
            yield from self.call_user(st, "ext:" + fv.t[1], None, args, kwargs, node)
        else: raise VCError("cannot call %s" % (fv.t,))

    def lookup_name(self, name, st):
        if name not in st.env and name in ("len", "isinstance", "type", "abs", "min", "max", "range", "print", "sorted", "enumerate", "round"):
            return SV(PyFunc, ("builtin", name))
        if self.spec and name not in st.env:
            if name in R.SPECFUNS: return SV(PyFunc, ("specfun", name))
            if name in self.SPEC_BUILTINS: return SV(PyFunc, ("builtin", name))
        return super().lookup_name(name, st)

    SPEC_BUILTINS = ("implies", "iff", "ite", "dom", "is_none", "some", "has_class", "lang_re", "in_re", "select", "to_real", "str_at",
                     "floor", "py_str_float", "joined", "is_perm", "abs_real", "same_except", "list_eq", "is_append", "is_empty_list", "unboxed", "ext_const", "bn", "select_eq", "card_int", "is_int", "card_val", "seq_eq", "dict_eq_on", "fresh_obj", "alloc", "is_alloc", "heap_eq", "str_len", "str_from_int", "py_split", "at")

    def builtin(self, st, name, args, kwargs, node):
        a = args
        if name == "len":
            x = self.unwrap_opt(st, a[0], node, "len-of-None")
            if x.ty == T.Str: yield st, SV(T.Int, z3.Length(x.t))
            elif isinstance(x.ty, T.List): yield st, SV(T.Int, T.list_len(x.ty, x.t))
            elif x.ty == Display: yield st, SV(T.Int, I(len(x.t)))
            elif isinstance(x.ty, T.Dict):
                f = z3.Function("card_" + x.ty.name(), T.sort_of(x.ty), z3.IntSort())
                r = f(x.t); st.assume(r >= 0)
                k = fresh_sort("wit", T.sort_of(x.ty.k))
                st.assume(z3.Implies(r == 0, z3.ForAll([k], z3.Not(z3.Select(T.dict_dom(x.ty, x.t), k)))) if False else z3.BoolVal(True))
                yield st, SV(T.Int, r)
            elif isinstance(x.ty, T.Set):
                # cardinality of a (finite) set: uninterpreted, with the two facts that matter - it is zero exactly when the set is empty
                f = z3.Function("card_" + x.ty.name(), T.sort_of(x.ty), z3.IntSort())
                r = f(x.t); st.assume(r >= 0)
                k = z3.Const("k!card", T.sort_of(x.ty.k)); wit = fresh_sort("wit", T.sort_of(x.ty.k))
                st.assume(z3.Implies(r == 0, z3.ForAll([k], z3.Not(z3.Select(x.t, k)))))
                st.assume(z3.Implies(r > 0, z3.Select(x.t, wit)))
                yield st, SV(T.Int, r)
            elif isinstance(x.ty, T.Obj): yield from self.call_method(st, x, "__len__", [], {}, node)
            else: raise VCError("len of %s" % x.ty)
        elif name == "str":
            if isinstance(a[0].ty, T.Obj): yield from self.call_method(st, a[0], "__str__", [], {}, node)
            else: yield st, self.to_str(st, a[0])
        elif name == "float":
            if a[0].ty in (T.Int, T.Real): yield st, self.coerce(a[0], T.Real)
            else: raise VCError("float() of %s" % a[0].ty)
        elif name == "int":
            if a[0].ty == T.Int: yield st, a[0]
            elif a[0].ty == T.Real:
                r = z3.If(a[0].t >= 0, z3.ToInt(a[0].t), -z3.ToInt(-a[0].t))
                yield st, SV(T.Int, r)
            else: raise VCError("int() of %s" % a[0].ty)
        elif name == "abs":
            yield st, SV(a[0].ty, z3.If(a[0].t >= 0, a[0].t, -a[0].t))
        elif name in ("min", "max") and len(a) == 2 and a[0].ty == a[1].ty == T.Int:
            c = a[0].t <= a[1].t if name == "min" else a[0].t >= a[1].t
            yield st, SV(T.Int, z3.If(c, a[0].t, a[1].t))
        elif name in ("min", "max") and len(a) == 2 and T.Card in (a[0].ty, a[1].ty) and all(x.ty in (T.Card, T.Int) for x in a):
            # sheXer cardinalities are int | '+' | '*' | '?': ordering two of them is only defined between ints (str vs int raises TypeError)
            xs = [self.coerce(x, T.Card) for x in a]
            for x in xs: self.oblige(st, T.card_is_int(x.t), "order-compare-on-str-cardinality", node)
            n0, n1 = T.card_n(xs[0].t), T.card_n(xs[1].t)
            c = n0 <= n1 if name == "min" else n0 >= n1
            yield st, SV(T.Card, T.card_int(z3.If(c, n0, n1)))
        elif name in ("min", "max") and len(a) == 2 and all(x.ty in (T.Int, T.Real) for x in a):
            x0, x1 = self.coerce(a[0], T.Real), self.coerce(a[1], T.Real)
            c = x0.t <= x1.t if name == "min" else x0.t >= x1.t
            yield st, SV(T.Real, z3.If(c, x0.t, x1.t))
        elif name == "round" and len(a) == 2 and a[0].ty in (T.Real, T.Int) and z3.is_int_value(a[1].t) and 0 <= a[1].t.as_long() <= 9:
            # round(x, n) for a literal n: the n-place decimal nearest to x (ties: half up here, half even in CPython - they differ only when
            # x*10^n is exactly k + 1/2, noted as an assumption)
            scale = z3.RealVal(10 ** a[1].t.as_long())
            x = self.coerce(a[0], T.Real).t
            self.note_assumption("round(x, n): nearest n-place decimal, exact .5 ties rounded up (CPython rounds them to even)")
            yield st, SV(T.Real, z3.ToReal(z3.ToInt(x * scale + z3.RealVal("1/2"))) / scale)
        elif name == "type":
            yield st, SV(PyFunc, ("typeof", a[0]))
        elif name == "isinstance":
            yield st, SV(T.Bool, self.ev_isinstance(st, a[0], a[1]))
        elif name == "dict" and len(a) == 1:
            x = self.unwrap_opt(st, a[0], node, "dict-of-None")
            if not isinstance(x.ty, T.Dict): raise VCError("dict() of %s" % x.ty)
            yield st, SV(x.ty, x.t)          # containers are values in this encoding: a copy is the same value, detached from its source
        elif name == "set" and not a: yield st, SV(Display, [])
        elif name == "list" and not a: yield st, SV(Display, [])
        elif name == "print": yield st, SV(T.NoneT, z3.BoolVal(True))
        elif self.spec: yield st, self.spec_builtin(st, name, a, node)
        else: raise VCError("builtin %s unsupported" % name)

    def ev_isinstance(self, st, x, clsname_sv):
        """isinstance(x, C) / type(x) == C as z3 Bool."""
        if clsname_sv.ty != PyFunc: raise VCError("isinstance second arg")
        k = clsname_sv.t
        if k[0] == "pytype":
            py = {"str": T.Str, "int": T.Int, "float": T.Real, "bool": T.Bool}.get(k[1])
            if x.ty == T.Card and k[1] == "int": return T.card_is_int(x.t)
            if x.ty == T.Card and k[1] == "str": return z3.Not(T.card_is_int(x.t))
            if isinstance(x.ty, T.Opt):
                return z3.And(z3.Not(T.opt_is_none(x.ty, x.t)), z3.BoolVal(x.ty.t == py))
            return z3.BoolVal(x.ty == py)
        if k[0] == "class":
            if isinstance(x.ty, T.Opt):
                inner = SV(x.ty.t, T.opt_val(x.ty, x.t))
                return z3.And(z3.Not(T.opt_is_none(x.ty, x.t)), self.ev_isinstance(st, inner, clsname_sv))
            if not isinstance(x.ty, T.Obj): return z3.BoolVal(False)
            sch = R.SCHEMAS[x.ty.family]
            tag = self.hread(st, x.ty.family, "__class__", x.t)
            alts = []
            for i, c in enumerate(sch.classes):
                names = ["%s:%s" % (m, n.name) for m, n in X.mro(*c.split(":"))]
                if k[1] in names: alts.append(tag == i)
            return z3.Or(alts + [z3.BoolVal(False)])
        raise VCError("isinstance with %s" % (k,))

    def ev_Call_special(self, node, st):
        return None

    # ------------------------------------------------------------------ containers
    def container_method(self, st, recv, name, args, kwargs, node, recv_node):
        ty = recv.ty
        if ty == T.Str:
            yield st, self.str_method(st, recv, name, args, node); return
        if isinstance(ty, T.Atom):
            # opaque atoms admit only declared predicates: x.startswith(<constant>) becomes an uninterpreted predicate,
            # evaluated on the known constants of the sort (sound abstraction of the string operation)
            if name == "startswith" and len(args) == 1 and is_pystr(args[0]):
                c = args[0].t.as_string()
                f = z3.Function("startswith_%s_%s" % (ty.name(), "".join("%02x" % ord(ch) for ch in c)), T.sort_of(ty), z3.BoolSort())
                for pyc, zc in T.atom_consts_of(ty):
                    st.assume(f(zc) == z3.BoolVal(pyc.startswith(c)))
                self.note_assumption("atoms of sort %s: .startswith(%r) is an uninterpreted predicate fixed on the known constants" % (ty.name(), c))
                yield st, SV(T.Bool, f(recv.t)); return
            raise VCError("string operation %s on opaque atom %s" % (name, ty.name()))
        if ty == Display and name in ("append", "add") and len(args) == 1:
            if name == "add" and len(recv.t) > 0: raise VCError("add on a non-empty display")
            ety = args[0].ty
            for e in recv.t:
                if e.ty != ety: raise VCError("append to a display of mixed element types")
            if name == "add":
                recv = self.empty(T.Set(ety))
            else:
                lt = T.List(ety); cur = self.empty(lt)
                for e in recv.t:
                    n_ = T.list_len(lt, cur.t)
                    cur = SV(lt, T.list_mk(lt, n_ + 1, z3.Store(T.list_arr(lt, cur.t), n_, e.t)))
                recv = cur
            ty = recv.ty
        def writeback(newval):
            if recv.box is not None:
                self.hwrite(st, recv.box[0], "val", recv.box[1], newval.t); yield st; return
            if recv_node is None: raise VCError("mutation of a non-lvalue container")
            yield from self.assign(recv_node, newval, st, quiet=True, mutation=True)
        if isinstance(ty, T.List):
            n = T.list_len(ty, recv.t); arr = T.list_arr(ty, recv.t)
            if name == "append":
                x = self.coerce(args[0], ty.t, st, node)
                nv = SV(ty, T.list_mk(ty, n + 1, z3.Store(arr, n, x.t)))
                if isinstance(ty.t, T.Obj) and not self.quiet:
                    # bridging instance of the array axiom, triggered on reads of the OLD list: lets E-matching carry quantified
                    # facts about the list before the append over to the list after it (a tautology: sound)
                    ib = z3.Int("i!apb")
                    st.assume(z3.ForAll([ib], z3.Implies(z3.And(ib >= 0, ib < n), z3.Select(z3.Store(arr, n, x.t), ib) == z3.Select(arr, ib)),
                                        patterns=[z3.Select(arr, ib)]))
                if ty.t == T.Str:      # instance of the recursive definition of "".join: join(l + [x]) == join(l) + x
                    st.assume(self.joined(nv.t) == z3.Concat(self.joined(recv.t), x.t))
                for st2 in writeback(nv): yield st2, SV(T.NoneT, z3.BoolVal(True))
                return
            if name == "insert" and z3.is_int_value(args[0].t) and args[0].t.as_long() == 0:
                x = self.coerce(args[1], ty.t)
                r = fresh("ins", ty); i = z3.Int("i!ins")
                st.assume(T.list_len(ty, r) == n + 1); st.assume(T.list_arr(ty, r)[0] == x.t)
                st.assume(z3.ForAll([i], z3.Implies(z3.And(i >= 0, i < n), T.list_arr(ty, r)[i + 1] == arr[i])))
                for st2 in writeback(SV(ty, r)): yield st2, SV(T.NoneT, z3.BoolVal(True))
                return
            if name == "remove":
                x = self.coerce(args[0], ty.t)
                k = fresh("rm_idx", T.Int); r = fresh("rm", ty); i = z3.Int("i!rm")
                if isinstance(ty.t, T.Obj) and R.SCHEMAS[ty.t.family].eq_fields is not None:
                    raise VCError("list.remove with user __eq__")
                self.oblige(st, z3.Exists([i], z3.And(i >= 0, i < n, arr[i] == x.t)), "list.remove(x):x-in-list", node)
                st.assume(z3.And(k >= 0, k < n, arr[k] == x.t, z3.ForAll([i], z3.Implies(z3.And(i >= 0, i < k), arr[i] != x.t))))
                st.assume(T.list_len(ty, r) == n - 1)
                st.assume(z3.ForAll([i], z3.Implies(z3.And(i >= 0, i < k), T.list_arr(ty, r)[i] == arr[i])))
                st.assume(z3.ForAll([i], z3.Implies(z3.And(i >= k, i < n - 1), T.list_arr(ty, r)[i] == arr[i + 1])))
                for st2 in writeback(SV(ty, r)): yield st2, SV(T.NoneT, z3.BoolVal(True))
                return
            if name == "sort":
                yield from self.list_sort(st, recv, kwargs, node, writeback); return
        if isinstance(ty, T.Set):
            if name == "add":
                x = self.coerce(args[0], ty.k)
                for st2 in writeback(SV(ty, z3.Store(recv.t, x.t, z3.BoolVal(True)))): yield st2, SV(T.NoneT, z3.BoolVal(True))
                return
        if isinstance(ty, T.Dict):
            if name == "setdefault" and len(args) == 2:
                k = self.coerce(args[0], ty.k).t
                present = z3.Select(T.dict_dom(ty, recv.t), k)
                dflt = self.coerce(args[1], ty.v)
                nv = SV(ty, T.dict_mk(ty, z3.Store(T.dict_dom(ty, recv.t), k, z3.BoolVal(True)),
                                      z3.If(present, T.dict_map(ty, recv.t), z3.Store(T.dict_map(ty, recv.t), k, dflt.t))))
                for st2 in writeback(nv):
                    v = SV(ty.v, z3.Select(T.dict_map(ty, nv.t), k)); self.assume_wf(st2, v)
                    yield st2, v
                return
            if name in ("keys",): yield st, recv; return
            if name == "values" or name == "items":
                yield st, SV(PyFunc, ("dictview", name, recv)); return
        raise VCError("method %s on %s unsupported (line %s)" % (name, ty, getattr(node, "lineno", "?")))

    def joined(self, lst):
        f = z3.Function("str_join", T.sort_of(T.List(T.Str)), z3.StringSort())
        return f(lst)

    def is_perm(self, ty, a, b):
        f = z3.Function("is_perm_" + ty.name(), T.sort_of(ty), T.sort_of(ty), z3.BoolSort())
        return f(a, b)

    def list_sort(self, st, recv, kwargs, node, writeback):
        """list.sort(reverse=True, key=lambda x: x.<real-valued property>) : stable sort, assumed contract:
        result is a permutation (index bijection perm) ordered by key; equal keys keep their relative order."""
        ty = recv.ty; n = T.list_len(ty, recv.t); arr = T.list_arr(ty, recv.t)
        key = kwargs.get("key"); rev = kwargs.get("reverse")
        if key is None or key.ty != PyFunc or key.t[0] != "lambda": raise VCError("sort needs key=lambda")
        desc = rev is not None and z3.is_true(rev.t)
        lam = key.t[1]
        argname = lam.args.args[0].arg
        def keyof(elem_t, s):
            s2 = s.fork(); s2.env = dict(s.env); s2.env[argname] = SV(ty.t, elem_t)
            base = len(s2.pc)
            self.quiet += 1
            try: outs = list(self.ev(lam.body, s2))
            finally: self.quiet -= 1
            if not outs: raise VCError("sort key must be a simple pure expression")
            r = outs[-1][1]
            for so, vo in reversed(outs[:-1]):
                if vo.ty != r.ty: raise VCError("sort key of mixed types")
                r = SV(r.ty, z3.If(z3.And(so.pc[base:] + [z3.BoolVal(True)]), vo.t, r.t))
            return r
        r = fresh("sorted", ty); rarr = T.list_arr(ty, r)
        perm = z3.Function("perm!%d" % id(node), z3.IntSort(), z3.IntSort())   # new index -> old index
        inv = z3.Function("perminv!%d" % id(node), z3.IntSort(), z3.IntSort())
        i, j = z3.Ints("i!s j!s")
        st.assume(T.list_len(ty, r) == n)
        st.assume(z3.ForAll([i], z3.Implies(z3.And(i >= 0, i < n), z3.And(perm(i) >= 0, perm(i) < n, inv(perm(i)) == i, rarr[i] == arr[perm(i)])), patterns=[rarr[i], perm(i)]))
        st.assume(z3.ForAll([i], z3.Implies(z3.And(i >= 0, i < n), z3.And(inv(i) >= 0, inv(i) < n, perm(inv(i)) == i))))
        st.assume(z3.ForAll([i], z3.Implies(z3.And(i >= 0, i < n), z3.And(inv(i) >= 0, inv(i) < n, rarr[inv(i)] == arr[i])), patterns=[arr[i]]))
        ki = keyof(rarr[i], st); kj = keyof(rarr[j], st)
        ordered = (ki.t >= kj.t) if desc else (ki.t <= kj.t)
        st.assume(z3.ForAll([i, j], z3.Implies(z3.And(0 <= i, i < j, j < n), z3.And(ordered, z3.Implies(ki.t == kj.t, perm(i) < perm(j))))))
        self.note_assumption("list.sort is a stable sort (CPython guarantee): permutation, ordered by key, ties keep input order")
        st.assume(self.is_perm(ty, r, recv.t))
        self.last_sort = (perm, inv)
        for st2 in writeback(SV(ty, r)): yield st2, SV(T.NoneT, z3.BoolVal(True))

    # ------------------------------------------------------------------ user functions
    def call_method(self, st, obj, meth, args, kwargs, node):
        for st2, f in self.obj_attr(st, obj, meth, node):
            yield from self.apply(st2, f, args, kwargs, node)

    def find_contract(self, qual):
        return R.CONTRACTS.get(qual)

    def bind_args(self, st, qual, fnode, has_self, args, kwargs, node, module):
        names, defaults, vararg, static = X.signature(fnode)
        if has_self and not static: names = names[1:]
        bound = {}
        pos = list(args)
        if len(pos) > len(names) and vararg is None:
            self.oblige(st, z3.BoolVal(False), "call-shape:too-many-arguments:%s" % qual, node); return None
        for n, v in zip(names, pos): bound[n] = v
        extra = pos[len(names):]
        for k, v in kwargs.items():
            if k in bound or k not in names:
                self.oblige(st, z3.BoolVal(False), "call-shape:bad-keyword-%s:%s" % (k, qual), node); return None
            bound[k] = v
        for n in names:
            if n not in bound:
                if n in defaults:
                    sub = st.fork(); sub.ctx = (module, st.ctx[1], st.ctx[2]); sub.env = {}
                    outs = list(self.ev(defaults[n], sub))
                    bound[n] = outs[0][1]
                else:
                    self.oblige(st, z3.BoolVal(False), "call-shape:missing-argument-%s:%s" % (n, qual), node); return None
        if vararg is not None: bound[vararg] = SV(Display, extra)
        return bound

    def call_user(self, st, qual, self_sv, args, kwargs, node):
        if qual.startswith("ext:"):
            c = self.find_contract(qual)
            if c is None: raise VCError("call to external %s without assumed contract" % qual)
            bound = dict(zip(c.params.keys(), args)); bound.update(kwargs)
            yield from self.contract_call(st, c, self_sv, bound, node); return
        try:
            m, cname, fnode = X.find_function(qual)
        except X.ExtractionError as e:
            raise VCError(str(e))
        dq = "%s:%s%s" % (m, (cname + ".") if cname else "", fnode.name)
        _, _, _, static = X.signature(fnode)
        has_self = cname is not None and not static
        if has_self and self_sv is None:
            # Class.method(obj, ...) style or static call through class
            raise VCError("unbound method call %s" % qual)
        bound = self.bind_args(st, dq, fnode, has_self, args, kwargs, node, m)
        if bound is None: return          # call-shape failure: path ends (TypeError) -> recorded as obligation
        c = None
        if has_self and self_sv is not None and isinstance(self_sv.ty, T.Obj):
            # an inherited method may carry a contract stated for the receiver's own class (verified against that class's schema): prefer it
            fam_classes = [q for q in R.SCHEMAS[self_sv.ty.family].classes if not q.startswith("ext:")]
            fam_classes = [self_sv.cls] if self_sv.cls else (fam_classes if len(fam_classes) == 1 else [])    # only when the receiver's class is certain
            for q in fam_classes:
                if q == "%s:%s" % (m, cname): continue
                c2 = self.find_contract(q + "." + fnode.name)
                if c2 is not None and (c2.self_type is None or c2.self_type == self_sv.ty):
                    c = c2; break
        if c is None: c = self.find_contract(dq)
        if self_sv is not None and c is None and self_sv.cls is not None:
            c = self.find_contract(self_sv.cls + "." + fnode.name)
        if c is not None and not c.inline and not (self.inline_self and dq == self.current_qual and False):
            yield from self.contract_call(st, c, self_sv if has_self else None, bound, node); return
        if c is None and not self.auto_inline_ok(dq, fnode):
            raise VCError("call to %s: no contract and not inlinable (line %s)" % (dq, getattr(node, "lineno", "?")))
        yield from self.inline_call(st, dq, fnode, self_sv if has_self else None, None, bound, node, m)

    def auto_inline_ok(self, dq, fnode):
        """Small accessors are inlined from their real source: bodies of at most 4 simple statements without loops."""
        if dq in self.inline_whitelist: return True
        if fnode.name == "__init__" and not any(isinstance(s, (ast.For, ast.While, ast.Try, ast.With)) for s in ast.walk(fnode)): return True
        body = [s for s in fnode.body if not (isinstance(s, ast.Expr) and isinstance(s.value, ast.Constant))]
        if len(body) > 4: return False
        for s in ast.walk(fnode):
            if isinstance(s, (ast.For, ast.While, ast.Try, ast.With, ast.Yield)): return False
        return True

    def inline_call(self, st, dq, fnode, self_sv, args, kwargs, node, module):
        if args is not None:
            has_self = self_sv is not None
            kwargs = self.bind_args(st, dq, fnode, has_self, args, kwargs, node, module)
            if kwargs is None: return
        depth = st.env.get("__depth__", 0)
        if depth >= MAX_INLINE_DEPTH: raise VCError("inline depth exceeded at %s" % dq)
        callee = st.fork()
        callee.env = dict(kwargs)
        tracked = {}
        for n_, v_ in kwargs.items():
            if isinstance(v_, SV) and _mutable_container(v_.ty) and v_.box is None and not self.spec:
                # alias guard: the callee's parameter and the caller's expression denote the same object - an in-place update is written back
                callee.env[n_] = SV(v_.ty, v_.t, cls=v_.cls, lv=v_.lv, mark=("param", n_, False)); tracked[n_] = v_
        for g in ("__trace__", "__bn__", "__yielded_outer__"):
            if g in st.env: callee.env[g] = st.env[g]
        if self_sv is not None: callee.env["self"] = self_sv
        callee.env["__depth__"] = depth + 1
        cq = None
        if self_sv is not None and isinstance(self_sv.ty, T.Obj):
            cq = self_sv.cls
        mcls = dq.split(":")[1].rsplit(".", 1)[0] if "." in dq.split(":")[1] else None
        callee.ctx = (module, "%s:%s" % (module, mcls) if mcls else None, dq)
        if id(fnode) not in self.numbered: self.number_loops(fnode, dq); self.numbered.add(id(fnode))
        self.inlined.add(dq)
        body = fnode.body
        for kind, s2, val in self.exec_block(body, callee):
            back = s2.fork(); back.env = dict(st.env); back.ctx = st.ctx; back.exc_sink = st.exc_sink
            for g in ("__trace__", "__bn__"):
                if g in s2.env: back.env[g] = s2.env[g]
            backs = [back]
            for n_, v0 in tracked.items():
                v1 = s2.env.get(n_)
                if v1 is not None and v1.mark == ("param", n_, True):
                    if v0.lv is None:
                        if v0.mark is not None: raise VCError("%s updates its parameter %s in place; the argument is not an lvalue at the call site" % (dq, n_))
                        continue        # a temporary nobody else can observe
                    nb = []
                    for b_ in backs: nb.extend(self.assign(v0.lv, SV(v1.ty, v1.t, cls=v1.cls), b_, quiet=True, mutation=True))
                    backs = nb
            if kind in ("fall", "return"):
                for back in backs: yield back, (val if val is not None else SV(T.NoneT, z3.BoolVal(True)))
            elif kind == "raise":
                for back in backs:
                    back.exc_sink = st.exc_sink
                    if st.exc_sink is not None: st.exc_sink.append((back, val))
            else: raise VCError("break/continue escaped function %s" % dq)

    def construct(self, st, cq, args, kwargs, node):
        fam = R.CLASS_FAMILY.get(cq)
        if fam is None:
            c = self.find_contract(cq + ".__init__")
            raise VCError("constructor of %s: class has no schema" % cq)
        sch = R.SCHEMAS[fam]
        ref = st.alloc
        st.alloc = st.alloc + 1
        obj = SV(T.Obj(fam), ref, cls=cq)
        self.hwrite(st, fam, "__class__", ref, I(sch.classes.index(cq)))
        m, c = cq.split(":")
        init = X.find_method(m, c, "__init__")
        if init is None:
            yield st, obj; return
        im, ic, inode = init
        for st2, _ in self.call_user(st, "%s:%s.__init__" % (im, ic), obj, args, kwargs, node):
            yield st2, obj

    # ------------------------------------------------------------------ modular call
    def contract_call(self, st, c, self_sv, bound, node):
        spec_env = {}
        for n, ty in c.params.items():
            if n not in bound: raise VCError("contract %s: parameter %s not bound" % (c.qual, n))
            spec_env[n] = self.coerce(bound[n], ty, st, node)
        if self_sv is not None: spec_env["self"] = self_sv
        pre = st.fork(); pre.env = dict(spec_env); pre.old = None
        for r in c.requires:
            g = self.spec_eval(r, pre, c)
            self.oblige(st, g, "precondition:%s:%s" % (c.qual.split(":")[-1], r[:60]), node)
        self.called.add(c.qual)
        self.apply_effects(st, c, pre)
        post = st    # mutate in place: havoc frame
        oldsnap = st.fork(); oldsnap.env = dict(spec_env)
        self.havoc_frame(post, c, spec_env, oldsnap)
        env2 = dict(spec_env)
        for mname in c.mutates:
            nv = SV(c.params[mname], fresh("mut_" + mname, c.params[mname]))
            env2[mname] = nv
        result = None
        rty = T.List(c.yields) if c.yields is not None else c.returns
        if rty != T.NoneT:
            result = SV(rty, fresh("res_" + c.qual.split(".")[-1].split(":")[-1], rty))
            if isinstance(c.returns, T.Obj):
                pass
        if "__bn__" in pre.env: env2["__bn__"] = pre.env["__bn__"]
        pst = post.fork(); pst.env = env2; pst.old = oldsnap
        if result is not None: pst.env["result"] = result
        # exceptional outcomes
        for exc, cond in c.raises:
            rs = st.fork()
            if cond is not None: rs.assume(self.spec_eval(cond.lstrip("?"), pre, c))
            if st.exc_sink is not None: st.exc_sink.append((rs, exc))
        # normal outcome: none of the must-raise conditions hold
        for exc, cond in c.raises:
            if cond is not None and not cond.startswith("?"):
                post.assume(z3.Not(self.spec_eval(cond, pre, c)))
        for e in c.ensures:
            f = self.spec_eval(e, pst, c)
            post.assume(f)
        post.heap = pst.heap; post.alloc = pst.alloc
        if result is not None: self.assume_wf(post, result)
        # write mutated parameters back to the caller's lvalues
        outs = [post]
        for mname in c.mutates:
            nv = env2[mname]
            src = bound[mname]
            if src.lv is None: raise VCError("mutated parameter %s of %s is not an lvalue at the call site" % (mname, c.qual))
            new_outs = []
            for o in outs:
                for o2 in self.assign(src.lv, nv, o, quiet=True): new_outs.append(o2)
            outs = new_outs
        for o in outs:
            yield o, (result if result is not None else SV(T.NoneT, z3.BoolVal(True)))

    def trace_seq(self, c, env_state):
        """expected event sequence of contract c evaluated in env_state (which carries __bn__)"""
        ety = R.TRACE["elem"]; ssort = z3.SeqSort(T.sort_of(ety))
        seq = z3.Empty(ssort)
        for e in (c.emits or []):
            d = self.spec_eval(e, env_state, c, want=None)
            if d.ty != Display or len(d.t) not in (len(ety.ts), len(ety.ts) + 1): raise VCError("emits entry must be a %d- or %d-tuple: %s" % (len(ety.ts), len(ety.ts) + 1, e))
            parts = d.t
            guard = None
            if len(parts) == len(ety.ts) + 1: guard, parts = self.truth(parts[0]), parts[1:]
            ev = T.tup_mk(ety, *[self.coerce(x, t).t for x, t in zip(parts, ety.ts)])
            unit = z3.Unit(ev)
            seq = z3.Concat(seq, unit if guard is None else z3.If(guard, unit, z3.Empty(ssort)))
        return seq

    def apply_effects(self, st, c, pre):
        if "__trace__" not in st.env: return
        if c.emits is None and c.bnodes is None: return
        pre.env["__bn__"] = st.env["__bn__"]
        if c.emits:
            st.env["__trace__"] = SV(st.env["__trace__"].ty, z3.Concat(st.env["__trace__"].t, self.trace_seq(c, pre)))
        if c.bnodes:
            n = self.spec_eval(c.bnodes, pre, c, want=None)
            st.env["__bn__"] = SV(T.Int, st.env["__bn__"].t + n.t)

    def havoc_frame(self, st, c, spec_env, oldsnap):
        for item in c.modifies:
            if item == "*":
                for k in list(st.heap.keys()):
                    st.heap[k] = fresh_sort("H_%s_%s" % k, st.heap[k].sort())
                for fam, sch in R.SCHEMAS.items():
                    for f in [f_ for f_ in sch.fields if sch.fields[f_] != "ignored"]:
                        st.heap[(fam, f)] = fresh_sort("H_%s_%s" % (fam, f), z3.ArraySort(T.Ref, T.sort_of(sch.fields[f])))
                continue
            if item == "alloc":
                # the callee may allocate: fields of objects that did not exist before the call are unknown afterwards
                r = z3.Int("r!al")
                for fam, sch in R.SCHEMAS.items():
                    if sch.box: continue
                    for f in [f_ for f_ in sch.fields if sch.fields[f_] != "ignored"] + ["__class__"]:
                        old = self.harr(st, fam, f)
                        new = fresh_sort("Ha_%s_%s" % (fam, f), old.sort())
                        st.assume(z3.ForAll([r], z3.Implies(r < st.alloc, z3.Select(new, r) == z3.Select(old, r))))
                        st.heap[(fam, f)] = new
                na = fresh("alloc", T.Int); st.assume(na >= st.alloc); st.alloc = na; continue
            spec, _, at = item.partition("[")
            fam, field = spec.split(".")
            old = self.harr(st, fam, field)
            new = fresh_sort("H_%s_%s" % (fam, field), old.sort())
            if at:
                tmp = oldsnap.fork()
                ref = self.spec_eval(at[:-1], tmp, c, want=None)
                r = z3.Int("r!frame")
                st.assume(z3.ForAll([r], z3.Implies(r != ref.t, z3.Select(new, r) == z3.Select(old, r))))
                self.frame_parent[new.get_id()] = (old, [ref.t])      # provenance: equal to `old` except at ref
            st.heap[(fam, field)] = new
