"""Statement execution: forward symbolic execution with path splitting; loops are cut with sidecar invariants."""
import ast, z3
from . import types as T
from . import extract as X
from . import registry as R
from .state import SV, State, VCError, Display, PyFunc, fresh, fresh_sort, fresh_mark, new_consts
from .expr import I, S, is_pystr

NONE = lambda: SV(T.NoneT, z3.BoolVal(True))

class StmtMixin:
    def exec_block(self, stmts, st):
        """yields (kind, state, value) with kind in fall/return/raise/break/continue"""
        if not stmts:
            yield "fall", st, None
            return
        head, rest = stmts[0], stmts[1:]
        for kind, s1, v in self.exec_stmt(head, st):
            if kind == "fall":
                yield from self.exec_block(rest, s1)
            else:
                yield kind, s1, v

    def exec_stmt(self, node, st):
        m = getattr(self, "st_" + type(node).__name__, None)
        if m is None: raise VCError("statement %s unsupported (line %d)" % (type(node).__name__, node.lineno))
        sink = []; prev = st.exc_sink; st.exc_sink = sink
        def flush():
            while sink:
                s, e = sink.pop(0); s.exc_sink = prev
                yield "raise", s, e
        for kind, s1, v in m(node, st):
            s1.exc_sink = prev
            yield kind, s1, v
            yield from flush()
        yield from flush()

    # ------------------------------------------------------------------ simple statements
    def st_Pass(self, node, st): yield "fall", st, None
    def st_Break(self, node, st): yield "break", st, None
    def st_Continue(self, node, st): yield "continue", st, None
    def st_Global(self, node, st): raise VCError("global")

    def st_Expr(self, node, st):
        v = node.value
        if isinstance(v, ast.Constant): yield "fall", st, None; return      # docstring (dropped)
        if isinstance(v, ast.Call) and isinstance(v.func, ast.Name) and v.func.id == "log_msg":
            yield "fall", st, None; return                                   # logging (dropped, documented)
        if isinstance(v, ast.Yield):
            for s1, x in self.ev(v.value, st):
                y = s1.env.get("__yielded__")
                if y is None:
                    # the contract promises an ordinary (re-iterable) value but the body is a generator: a single-use iterator is not a list
                    self.oblige(s1, z3.BoolVal(False), "function-became-a-generator-but-its-contract-returns-a-value", node)
                    raise VCError("yield in a function whose contract has no 'yields'")
                ty = y.ty; n = T.list_len(ty, y.t)
                s1.env["__yielded__"] = SV(ty, T.list_mk(ty, n + 1, z3.Store(T.list_arr(ty, y.t), n, self.coerce(x, ty.t).t)))
                yield "fall", s1, None
            return
        for s1, _ in self.ev(v, st): yield "fall", s1, None

    def st_Return(self, node, st):
        if node.value is None: yield "return", st, NONE(); return
        for s1, v in self.ev(node.value, st): yield "return", s1, v

    def st_Raise(self, node, st):
        e = node.exc
        if e is None: raise VCError("bare raise")
        if isinstance(e, ast.Call) and isinstance(e.func, ast.Name):
            name = e.func.id
            done = False
            try:
                for s1, _ in self.ev_list(list(e.args), st):
                    done = True
                    yield "raise", s1, name
            except VCError:
                if not done: yield "raise", st, name      # message expression outside the subset: message is not modelled
            return
        if isinstance(e, ast.Name): yield "raise", st, e.id; return
        raise VCError("raise form")

    def st_Assert(self, node, st):
        for s1, c in self.ev(node.test, st):
            self.oblige(s1, self.truth(c), "assert", node)
            s1.assume(self.truth(c)); yield "fall", s1, None

    def st_Assign(self, node, st):
        for s1, v in self.ev(node.value, st):
            states = [s1]
            for tgt in node.targets:
                nxt = []
                for s in states: nxt.extend(self.assign(tgt, v, s))
                states = nxt
            ref = None
            if _mutable_container(v.ty) and v.box is None:
                if isinstance(node.value, (ast.Name, ast.Attribute, ast.Subscript)): ref = ("ref", _src(node.value))
                elif v.mark is not None and v.mark[0] == "ref": ref = v.mark        # e.g. a getter that returned a field
            for s in states:
                if ref is not None:
                    for tgt in node.targets:
                        if isinstance(tgt, ast.Name) and tgt.id in s.env:
                            c = s.env[tgt.id]; s.env[tgt.id] = SV(c.ty, c.t, cls=c.cls, lv=c.lv, box=c.box, mark=ref)
                yield "fall", s, None

    def st_AugAssign(self, node, st):
        load = ast.copy_location(_as_load(node.target), node)
        for s1, (cur, rhs) in self.ev_list([load, node.value], st):
            v = self.binop(s1, node.op, cur, rhs, node)
            inplace = isinstance(cur.ty, T.List)          # list += ... extends the same object
            for s2 in self.assign(node.target, v, s1, quiet=True, mutation=inplace): yield "fall", s2, None

    def st_Delete(self, node, st):
        states = [st]
        for tgt in node.targets:
            if not isinstance(tgt, ast.Subscript): raise VCError("del of non-subscript")
            nxt = []
            for s in states:
                for s1, (base, key) in self.ev_list([tgt.value, tgt.slice], s):
                    base = self.unwrap_opt(s1, base, tgt, "subscript-of-None")
                    if not isinstance(base.ty, T.Dict): raise VCError("del on %s" % base.ty)
                    k = self.coerce(key, base.ty.k).t
                    self.oblige(s1, z3.Select(T.dict_dom(base.ty, base.t), k), "del:key-in-dict", node)
                    nv = SV(base.ty, T.dict_mk(base.ty, z3.Store(T.dict_dom(base.ty, base.t), k, z3.BoolVal(False)), T.dict_map(base.ty, base.t)))
                    if base.box is not None:
                        self.hwrite(s1, base.box[0], "val", base.box[1], nv.t); nxt.append(s1)
                    else:
                        nxt.extend(self.assign(tgt.value, nv, s1, quiet=True))
            states = nxt
        for s in states: yield "fall", s, None

    # ------------------------------------------------------------------ assignment to lvalues
    def alias_guard(self, tgt, st):
        """tgt (an lvalue expression) is about to be updated IN PLACE.  Containers are modelled as values, so the update is only
        visible through tgt itself: refuse (VCError -> undecided, never a verdict) when another name is known to denote the same object."""
        if isinstance(tgt, ast.Name):
            cur = st.env.get(tgt.id)
            if cur is not None and cur.mark is not None and cur.mark[0] == "ref":
                raise VCError("in-place update of '%s', which is a second name for %s: aliased containers must be declared as box(...) cells "
                              "(line %s)" % (tgt.id, cur.mark[1], getattr(tgt, "lineno", "?")))
        src = _src(tgt)
        for n, v in st.env.items():
            if isinstance(v, SV) and v.mark is not None and v.mark[0] == "ref" and v.mark[1] == src and not (isinstance(tgt, ast.Name) and n == tgt.id):
                raise VCError("in-place update of %s while '%s' is a live second name for it: aliased containers must be declared as box(...) cells "
                              "(line %s)" % (src, n, getattr(tgt, "lineno", "?")))

    def assign(self, tgt, val, st, quiet=False, mutation=False):
        """generator of states after  tgt = val  (nested containers are updated functionally and written back);
        mutation=True: the assignment is the write-back of an in-place update of the container tgt denotes"""
        if mutation and not self.spec: self.alias_guard(tgt, st)
        if isinstance(tgt, ast.Name):
            cur = st.env.get(tgt.id)
            if mutation and cur is not None and cur.mark is not None and cur.mark[0] == "param":
                keep = ("param", cur.mark[1], True)
            else: keep = None
            if cur is not None and cur.ty != val.ty and tgt.id in self.declared_locals:
                val = self.coerce(val, self.declared_locals[tgt.id])
            elif tgt.id in self.declared_locals and val.ty != self.declared_locals[tgt.id]:
                val = self.coerce(val, self.declared_locals[tgt.id])
            elif cur is not None and cur.ty != val.ty and cur.ty not in (Display, PyFunc):
                try: val = self.coerce(val, cur.ty)
                except VCError:
                    x, y = self.unify(cur, val); val = y
            st.env[tgt.id] = SV(val.ty, val.t, cls=val.cls, mark=keep)
            yield st; return
        if isinstance(tgt, ast.Call) and isinstance(tgt.func, ast.Attribute) and tgt.func.attr == "setdefault" and len(tgt.args) == 2:
            # write-back through  d.setdefault(k, default)  (the value it returned was mutated in place): same cell as d[k]
            sub = ast.copy_location(ast.Subscript(value=tgt.func.value, slice=tgt.args[0], ctx=ast.Store()), tgt)
            yield from self.assign(sub, val, st, quiet=True, mutation=mutation); return
        if isinstance(tgt, (ast.Tuple, ast.List)):
            if val.ty == Display: parts = val.t
            elif isinstance(val.ty, T.Tup): parts = [SV(t, T.tup_get(val.ty, val.t, i)) for i, t in enumerate(val.ty.ts)]
            else: raise VCError("unpacking of %s" % val.ty)
            if len(parts) != len(tgt.elts):
                self.oblige(st, z3.BoolVal(False), "unpack-arity", tgt); return
            states = [st]
            for e, p in zip(tgt.elts, parts):
                nxt = []
                for s in states: nxt.extend(self.assign(e, p, s, quiet))
                states = nxt
            yield from states; return
        self.quiet += 1 if quiet else 0
        try:
            if isinstance(tgt, ast.Attribute):
                outs = list(self.ev(tgt.value, st))
            else:
                outs = list(self.ev_list([tgt.value, tgt.slice], st))
        finally:
            self.quiet -= 1 if quiet else 0
        if isinstance(tgt, ast.Attribute):
            for s1, base in outs:
                base = self.unwrap_opt(s1, base, tgt)
                if not isinstance(base.ty, T.Obj): raise VCError("attribute assignment on %s" % base.ty)
                sch = R.SCHEMAS[base.ty.family]
                if tgt.attr in sch.funfields:
                    if val.ty != PyFunc or val.t[0] != "bound": raise VCError("function-valued attribute %s assigned a non-method" % tgt.attr)
                    mname = val.t[1].rsplit(".", 1)[1]
                    tmp = s1.fork(); tmp.env = {"self": base}
                    prev = []; ok = []
                    for cond, meth in sch.funfields[tgt.attr]:
                        cnd = self.spec_eval(cond, tmp, None)
                        if meth == mname: ok.append(z3.And([z3.Not(p) for p in prev] + [cnd]))
                        prev.append(cnd)
                    self.oblige(s1, z3.Or(ok + [z3.BoolVal(False)]), "function-attribute-%s-matches-declared-dispatch" % tgt.attr, tgt)
                    yield s1; continue
                if sch.fields.get(tgt.attr) == "ignored":
                    yield s1; continue          # attribute never read by verified code (declared as such in the schema)
                if tgt.attr in sch.fields:
                    self.hwrite(s1, base.ty.family, tgt.attr, base.t, self.coerce(val, sch.fields[tgt.attr], s1, tgt).t)
                    yield s1; continue
                # property setter, inlined from the real source
                for cq, cond in self.classes_of(s1, base):
                    m, c = cq.split(":")
                    ps = X.find_property(m, c, tgt.attr, setter=True)
                    s2 = s1.fork(); s2.assume(cond)
                    if ps is None:
                        raise VCError("assignment to undeclared attribute %s.%s (add it to the schema)" % (cq, tgt.attr))
                    pm, pc, pnode = ps
                    for s3, _ in self.inline_call(s2, "%s:%s.%s" % (pm, pc, tgt.attr), pnode, SV(base.ty, base.t, cls=cq), [val], {}, tgt, pm):
                        yield s3
            return
        if isinstance(tgt, ast.Subscript):
            for s1, (base, key) in outs:
                base = self.unwrap_opt(s1, base, tgt, "subscript-of-None")
                ty = base.ty
                if ty == Display and len(base.t) == 0 and key.ty not in (Display, PyFunc) and val.ty not in (Display, PyFunc):
                    # d = {} ... d[k] = v : the dictionary takes its key / value types from the first entry
                    base = self.empty(T.Dict(key.ty, val.ty)); ty = base.ty
                if isinstance(ty, T.Dict):
                    k = self.coerce(key, ty.k).t
                    nv = SV(ty, T.dict_mk(ty, z3.Store(T.dict_dom(ty, base.t), k, z3.BoolVal(True)),
                                          z3.Store(T.dict_map(ty, base.t), k, self.coerce(val, ty.v).t)))
                elif isinstance(ty, T.List):
                    i = self.coerce(key, T.Int).t; n = T.list_len(ty, base.t)
                    if not quiet: self.oblige(s1, z3.And(i >= -n, i < n), "index-in-range", tgt)
                    nv = SV(ty, T.list_mk(ty, n, z3.Store(T.list_arr(ty, base.t), z3.If(i < 0, i + n, i), self.coerce(val, ty.t).t)))
                elif isinstance(ty, T.Tup):
                    # in-place mutation of a mutable component reached through a tuple (write-back of a nested update)
                    if not quiet and not isinstance(ty, T.Rec): self.oblige(s1, z3.BoolVal(False), "tuple-item-assignment", tgt)
                    kidx = key.t.as_long()
                    comps = [T.tup_get(ty, base.t, j) for j in range(len(ty.ts))]
                    comps[kidx] = self.coerce(val, ty.ts[kidx]).t
                    nv = SV(ty, T.tup_mk(ty, *comps))
                else:
                    raise VCError("subscript assignment on %s" % ty)
                if base.box is not None:
                    self.hwrite(s1, base.box[0], "val", base.box[1], nv.t); yield s1
                else:
                    yield from self.assign(tgt.value, nv, s1, quiet=True, mutation=True)
            return
        raise VCError("assignment target %s" % type(tgt).__name__)

    # ------------------------------------------------------------------ control flow
    def st_If(self, node, st):
        for s1, c in self.ev(node.test, st):
            b = z3.simplify(self.truth(c))
            if not z3.is_false(b):
                sa = s1.fork(); sa.assume(b)
                yield from self.explore(lambda: self.exec_block(node.body, sa), list(sa.pc))
            if not z3.is_true(b):
                sb = s1.fork(); sb.assume(z3.Not(b))
                yield from self.explore(lambda: self.exec_block(node.orelse, sb), list(sb.pc))

    def explore(self, gen_factory, pc):
        """Run a branch; a construct outside the subset on a branch whose path condition is unsatisfiable is ignored."""
        try:
            yield from gen_factory()
        except VCError:
            sol = z3.Solver(); sol.set("timeout", 5000)
            for f in pc: sol.add(f)
            if sol.check() == z3.unsat: return
            raise

    def st_Try(self, node, st):
        if node.finalbody or node.orelse: raise VCError("try/finally/else")
        for kind, s1, v in self.exec_block(node.body, st):
            if kind != "raise":
                yield kind, s1, v; continue
            handled = False
            for h in node.handlers:
                names = []
                if h.type is None: names = None
                elif isinstance(h.type, ast.Name): names = [h.type.id]
                else: raise VCError("except form")
                if names is None or v in names or "Exception" in names:
                    yield from self.exec_block(h.body, s1)
                    handled = True; break
            if not handled: yield kind, s1, v

    def loop_ordinal(self, node):
        return self.loop_ids[id(node)]

    def loop_spec(self, node, st):
        ordv = self.loop_ids.get(id(node))
        c = R.CONTRACTS.get(st.ctx[2])
        if c is None: return {}
        return c.loops.get(ordv) or {}

    def discover_modified(self, body_runner, st):
        """Run the body once without emitting obligations to find which variables / heap cells it may assign."""
        self.quiet += 1
        mod_env, mod_heap, alloc_changed = {}, set(), False
        self._written_refs = {}
        mark = fresh_mark()
        sink = []
        try:
            probe = st.fork(); probe.exc_sink = sink
            for kind, s2, v in body_runner(probe):
                for k, sv in s2.env.items():
                    if not isinstance(sv, SV): continue      # bookkeeping entries of an inlined callee (__depth__)
                    old = st.env.get(k)
                    if old is None or old.ty != sv.ty or not _same(old.t, sv.t): mod_env[k] = sv.ty
                for k, arr in s2.heap.items():
                    if not self.harr(st, *k).eq(arr):
                        mod_heap.add(k); self._note_writes(k, arr, self.harr(st, *k), mark, st.alloc, s2)
                if not s2.alloc.eq(st.alloc): alloc_changed = True
            for s2, e in sink:
                for k, arr in s2.heap.items():
                    if not self.harr(st, *k).eq(arr):
                        mod_heap.add(k); self._note_writes(k, arr, self.harr(st, *k), mark, st.alloc, s2)
        finally:
            self.quiet -= 1
        return mod_env, {k: self._written_refs.get(k) for k in mod_heap}, alloc_changed

    def _note_writes(self, k, arr, base, mark, alloc0=None, outcome=None):
        """arr = Store(...Store(base, r1, v1)..., rn, vn) with loop-invariant references r_i: remember {r_i}; otherwise None (= anything)"""
        refs = []
        inherited_fresh = False
        cur = arr
        while not cur.eq(base):
            if z3.is_app(cur) and cur.decl().kind() == z3.Z3_OP_STORE:
                refs.append(cur.arg(1)); cur = cur.arg(0)
            elif cur.get_id() in self.frame_parent:       # result of a modular call that changes the field only at known references
                parent, rs = self.frame_parent[cur.get_id()]
                for x in rs:
                    if isinstance(x, str): inherited_fresh = True
                    else: refs.append(x)
                cur = parent
            else: break
        # writes to objects allocated inside the loop body (reference = allocation counter at loop entry + constant): in later
        # iterations they hit other fresh objects; what is preserved is every object that existed before the loop
        fresh_write = inherited_fresh
        if alloc0 is not None:
            keep = []
            for r in refs:
                d = z3.simplify(r - alloc0)
                if z3.is_int_value(d) and d.as_long() >= 0: fresh_write = True
                elif outcome is not None and new_consts([r], mark) and not self.maybe(outcome, r < alloc0): fresh_write = True
                else: keep.append(r)
            refs = keep
        ok = cur.eq(base) and not new_consts(refs, mark)
        if fresh_write: refs = refs + ["fresh"]
        prev = self._written_refs.get(k, [])
        if not ok or prev is None: self._written_refs[k] = None
        else:
            for r in refs:
                if isinstance(r, str):
                    if not any(isinstance(p, str) for p in prev): prev.append(r)
                elif not any((not isinstance(p, str)) and r.eq(p) for p in prev): prev.append(r)
            self._written_refs[k] = prev

    def havoc(self, st, mod_env, mod_heap, alloc_changed):
        for k, ty in mod_env.items():
            if k.startswith("__") and k != "__yielded__": continue
            if ty in (Display, PyFunc):
                if k in st.env: continue
                raise VCError("loop assigns display/function value to %s" % k)
            nv = SV(ty, fresh("hv_" + k, ty))
            st.env[k] = nv
            self.assume_wf(st, nv)
        for k, refs in (mod_heap.items() if isinstance(mod_heap, dict) else [(k, None) for k in mod_heap]):
            arr = self.harr(st, *k)
            new = fresh_sort("Hh_%s_%s" % k, arr.sort())
            if refs is not None:
                # the body writes this field only at loop-invariant references: every other object keeps its value
                r = z3.Int("r!hv")
                conds = [r != x for x in refs if not isinstance(x, str)]
                if any(isinstance(x, str) for x in refs): conds.append(r < st.alloc)      # st.alloc: allocation counter at loop entry (havocked below)
                st.assume(z3.ForAll([r], z3.Implies(z3.And(conds + [z3.BoolVal(True)]), z3.Select(new, r) == z3.Select(arr, r))))
                self.frame_parent[new.get_id()] = (arr, list(refs))
            st.heap[k] = new
        if alloc_changed:
            na = fresh("alloc", T.Int); st.assume(na >= st.alloc); st.alloc = na

    def check_invs(self, st, spec, when, node, extra_env):
        invs = spec.get("invariant", [])
        s = st.fork(); s.env = dict(st.env); s.env.update(extra_env)
        for inv in invs:
            base = len(s.pc)
            g = self.spec_eval(inv, s, None)
            for f in s.pc[base:]: st.assume(f)       # background facts (well-formedness of values read) instantiated by the evaluation
            self.oblige(st, g, "loop-invariant-%s:L%s:%s" % (when, spec.get("_ord"), inv[:70]), node)

    def assume_invs(self, st, spec, extra_env):
        s = st.fork(); s.env = dict(st.env); s.env.update(extra_env)
        for inv in spec.get("invariant", []):
            base = len(s.pc)
            g = self.spec_eval(inv, s, None)
            for f in s.pc[base:]: st.assume(f)
            st.assume(g)

    def st_While(self, node, st):
        if node.orelse: raise VCError("while/else")
        ordv = self.loop_ordinal(node); spec = dict(self.loop_spec(node, st)); spec["_ord"] = ordv
        st.loop_snap[ordv] = st.fork()
        def runner(s):
            for s1, c in self.ev(node.test, s):
                sb = s1.fork(); sb.assume(self.truth(c))
                yield from self.exec_block(node.body, sb)
        mod = self.discover_modified(runner, st)
        self.check_invs(st, spec, "entry", node, {})
        h = st.fork()
        self.havoc(h, *mod)
        self.assume_invs(h, spec, {})
        for s1, c in self.ev(node.test, h):
            b = self.truth(c)
            sa = s1.fork(); sa.assume(b)
            dec0 = None
            if "decreases" in spec:
                dec0 = self.spec_eval(spec["decreases"], sa, None, want=None).t
            elif not self.quiet:
                self.note_assumption("termination of while loop L%s in %s not proved (no decreases clause)" % (ordv, st.ctx[2]))
            for kind, s2, v in self.exec_block(node.body, sa):
                if kind in ("fall", "continue"):
                    self.check_invs(s2, spec, "preserved", node, {})
                    if dec0 is not None:
                        dec1 = self.spec_eval(spec["decreases"], s2, None, want=None).t
                        self.oblige(s2, z3.And(dec0 >= 0, dec1 < dec0), "loop-decreases:L%s:%s" % (ordv, spec["decreases"][:50]), node)
                elif kind == "break": yield "fall", s2, None
                else: yield kind, s2, v
            sb = s1.fork(); sb.assume(z3.Not(b))
            yield "fall", sb, None

    def st_For(self, node, st):
        if node.orelse: raise VCError("for/else")
        ordv = self.loop_ordinal(node); spec = dict(self.loop_spec(node, st)); spec["_ord"] = ordv
        it = node.iter
        # range(...)
        if isinstance(it, ast.Call) and isinstance(it.func, ast.Name) and it.func.id == "range":
            for s1, args in self.ev_list(list(it.args), st):
                lo = I(0) if len(args) == 1 else self.coerce(args[0], T.Int).t
                hi = self.coerce(args[-1], T.Int).t
                n = z3.If(hi - lo > 0, hi - lo, I(0))
                yield from self.cut_for(node, s1, spec, ordv, n, lambda s, i: SV(T.Int, lo + i), {}, None)
            return
        if isinstance(it, ast.Call) and isinstance(it.func, ast.Name) and it.func.id in ("enumerate", "zip") and not it.keywords:
            for s1, n, elem, ghost in self.iter_source(it, st, node, ordv):
                yield from self.cut_for(node, s1, spec, ordv, n, elem, ghost, None)
            return
        for s1, seq in self.ev(it, st):
            seq = self.unwrap_opt(s1, seq, node, "iteration-over-None")
            if seq.ty == T.Str:
                for s2, n, elem, ghost in self.iter_source(None, s1, node, ordv, seq): 
                    yield from self.cut_for(node, s2, spec, ordv, n, elem, ghost, None)
                continue
            yield from self.for_over(node, s1, spec, ordv, seq)

    def mark_loop_target(self, tgt, st):
        """alias guard: a loop variable of container type is a second name for an element of the iterated collection"""
        if isinstance(tgt, ast.Name):
            c = st.env.get(tgt.id)
            if isinstance(c, SV) and _mutable_container(c.ty) and c.box is None:
                st.env[tgt.id] = SV(c.ty, c.t, cls=c.cls, lv=c.lv, mark=("ref", "an element of the iterated collection"))
        elif isinstance(tgt, (ast.Tuple, ast.List)):
            for e in tgt.elts: self.mark_loop_target(e, st)

    def iter_source(self, it, st, node, ordv, val=None):
        """index view (length, element function) of enumerate(...) / zip(...) / a string / a list; anything else is refused"""
        if val is None and isinstance(it, ast.Call) and isinstance(it.func, ast.Name) and not it.keywords:
            if it.func.id == "enumerate" and len(it.args) == 1:
                for s1, n, el, gh in self.iter_source(it.args[0], st, node, ordv):
                    yield s1, n, (lambda s, i, el=el: SV(Display, [SV(T.Int, i), el(s, i)])), gh
                return
            if it.func.id == "zip" and len(it.args) == 2:
                for s1, n1, e1, g1 in self.iter_source(it.args[0], st, node, ordv):
                    for s2, n2, e2, g2 in self.iter_source(it.args[1], s1, node, ordv):
                        yield s2, z3.If(n1 <= n2, n1, n2), (lambda s, i, e1=e1, e2=e2: SV(Display, [e1(s, i), e2(s, i)])), dict(g1, **g2)
                return
        outs = [(st, val)] if val is not None else self.ev(it, st)
        for s1, seq in outs:
            seq = self.unwrap_opt(s1, seq, node, "iteration-over-None")
            if seq.ty == T.Str:
                yield s1, z3.Length(seq.t), (lambda s, i, q=seq: SV(T.Str, z3.SubString(q.t, i, I(1)))), {}
            elif isinstance(seq.ty, T.List):
                ty = seq.ty; arr = T.list_arr(ty, seq.t)
                def elem(s, i, ty=ty, arr=arr):
                    v = SV(ty.t, z3.Select(arr, i)); self.assume_wf(s, v); return v
                yield s1, T.list_len(ty, seq.t), elem, {}
            else:
                raise VCError("iteration over %s inside enumerate/zip (line %d)" % (seq.ty, node.lineno))

    def for_over(self, node, s1, spec, ordv, seq):
        ty = seq.ty
        if ty == Display:
            # constant-length display: unrolled (no invariant needed)
            def unroll(k, s):
                if k == len(seq.t):
                    yield "fall", s, None; return
                for s2 in self.assign(node.target, seq.t[k], s):
                    self.mark_loop_target(node.target, s2)
                    for kind, s3, v in self.exec_block(node.body, s2):
                        if kind in ("fall", "continue"): yield from unroll(k + 1, s3)
                        elif kind == "break": yield "fall", s3, None
                        else: yield kind, s3, v
            yield from unroll(0, s1); return
        if isinstance(ty, T.List):
            n = T.list_len(ty, seq.t); arr = T.list_arr(ty, seq.t)
            def elem(s, i):
                v = SV(ty.t, z3.Select(arr, i)); self.assume_wf(s, v); return v
            yield from self.cut_for(node, s1, spec, ordv, n, elem, {"_seq%d" % ordv: seq}, seq); return
        view = None
        if ty == PyFunc and seq.t[0] == "dictview":
            view, seq = seq.t[1], seq.t[2]; ty = seq.ty
        if isinstance(ty, (T.Dict, T.Set)):
            kt = ty.k
            dom = T.dict_dom(ty, seq.t) if isinstance(ty, T.Dict) else seq.t
            lt = T.List(kt)
            keys = fresh("keys%d" % ordv, lt); n = T.list_len(lt, keys); karr = T.list_arr(lt, keys)
            pos = z3.Function("pos!%d!%d" % (ordv, id(node) % 100000), T.sort_of(kt), z3.IntSort())
            i = z3.Int("i!k"); k = z3.Const("k!k", T.sort_of(kt))
            s1.assume(n >= 0)
            s1.assume(z3.ForAll([i], z3.Implies(z3.And(i >= 0, i < n), z3.And(z3.Select(dom, karr[i]), pos(karr[i]) == i))))
            s1.assume(z3.ForAll([k], z3.Implies(z3.Select(dom, k), z3.And(pos(k) >= 0, pos(k) < n, karr[pos(k)] == k))))
            if isinstance(ty, T.Set):
                self.order_sensitive_sites.append((s1.ctx[2], ordv, getattr(node, "lineno", 0)))
            itexpr = node.iter
            if view is not None: itexpr = node.iter.func.value
            def elem(s, idx):
                kk = SV(kt, z3.Select(karr, idx))
                if view is None: return kk
                cur = seq
                try:
                    self.quiet += 1
                    outs = list(self.ev(itexpr, s))
                    if len(outs) == 1: cur = self.unwrap_opt(s, outs[0][1], node)
                finally: self.quiet -= 1
                vv = SV(ty.v, z3.Select(T.dict_map(ty, cur.t), kk.t)); self.assume_wf(s, vv)
                if view == "values": return vv
                return SV(Display, [kk, vv])
            yield from self.cut_for(node, s1, spec, ordv, n, elem, {"_keys%d" % ordv: SV(lt, keys), "_seq%d" % ordv: seq}, seq, dict_iter=(itexpr, ty, dom))
            return
        raise VCError("for over %s (line %d)" % (ty, node.lineno))

    def cut_for(self, node, st, spec, ordv, n, elem, ghost, seq, dict_iter=None):
        st.loop_snap[ordv] = st.fork()
        idx0 = fresh("idx%d" % ordv, T.Int)
        gname = "_i%d" % ordv
        def ghosts(i):
            g = dict(ghost); g[gname] = SV(T.Int, i); g["_n%d" % ordv] = SV(T.Int, n); return g
        def runner(s):
            s.env.update(ghosts(idx0))
            for s2 in self.assign(node.target, elem(s, idx0), s):
                self.mark_loop_target(node.target, s2)
                yield from self.exec_block(node.body, s2)
        mod = self.discover_modified(runner, st)
        for g in list(ghosts(idx0).keys()): mod[0].pop(g, None)
        self.check_invs(st, spec, "entry", node, ghosts(I(0)))
        h = st.fork()
        self.havoc(h, *mod)
        h.assume(z3.And(idx0 >= 0, idx0 <= n))
        self.assume_invs(h, spec, ghosts(idx0))
        if dict_iter is not None and not self.quiet:
            self.assume_same_keys(h, dict_iter, node)
        # one arbitrary iteration
        sa = h.fork(); sa.assume(idx0 < n); sa.env.update(ghosts(idx0))
        for s2 in self.assign(node.target, elem(sa, idx0), sa):
            self.mark_loop_target(node.target, s2)
            for kind, s3, v in self.exec_block(node.body, s2):
                if kind in ("fall", "continue"):
                    self.check_invs(s3, spec, "preserved", node, ghosts(idx0 + 1))
                    if dict_iter is not None: self.check_same_keys(s3, dict_iter, node)
                elif kind == "break":
                    for g in ghosts(idx0): s3.env.pop(g, None)
                    yield "fall", s3, None
                else: yield kind, s3, v
        sb = h.fork(); sb.assume(idx0 == n)
        sb.env.update(ghosts(idx0))      # ghosts stay visible for later invariants / postconditions (as _iK, _nK)
        yield "fall", sb, None

    def assume_same_keys(self, st, dict_iter, node):
        itexpr, ty, dom0 = dict_iter
        try:
            self.quiet += 1
            outs = list(self.ev(itexpr, st.fork()))
        except VCError: return
        finally: self.quiet -= 1
        if len(outs) != 1: return
        cur = outs[0][1]
        if isinstance(cur.ty, T.Opt): cur = SV(cur.ty.t, T.opt_val(cur.ty, cur.t))
        if cur.ty != ty: return
        dom = T.dict_dom(ty, cur.t) if isinstance(ty, T.Dict) else cur.t
        st.assume(dom == dom0)

    def check_same_keys(self, st, dict_iter, node):
        itexpr, ty, dom0 = dict_iter
        try:
            self.quiet += 1
            outs = list(self.ev(itexpr, st.fork()))
        except VCError: return
        finally: self.quiet -= 1
        if len(outs) != 1: return
        cur = outs[0][1]
        if isinstance(cur.ty, T.Opt): cur = SV(cur.ty.t, T.opt_val(cur.ty, cur.t))
        if cur.ty != ty: return
        dom = T.dict_dom(ty, cur.t) if isinstance(ty, T.Dict) else cur.t
        k = z3.Const("k!sk", T.sort_of(ty.k))
        self.oblige(st, z3.ForAll([k], z3.Select(dom, k) == z3.Select(dom0, k)), "iterated-container-keys-unchanged", node)

def _mutable_container(ty):
    return isinstance(ty, (T.List, T.Dict, T.Set, T.Rec)) or (isinstance(ty, T.Opt) and _mutable_container(ty.t))

def _src(node):
    try: return ast.unparse(_as_load(node))
    except Exception: return ast.dump(node)

def _same(a, b):
    if isinstance(a, list) or isinstance(b, list): return a is b
    if isinstance(a, tuple) or isinstance(b, tuple): return a is b or a == b
    return a.eq(b)

def _as_load(t):
    import copy
    t2 = copy.deepcopy(t)
    for n in ast.walk(t2):
        if hasattr(n, "ctx"): n.ctx = ast.Load()
    return t2
