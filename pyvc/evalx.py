"""ev(): generator-based expression evaluator; yields (state, SV) for each normal continuation."""
import ast, z3
from . import types as T
from . import extract as X
from . import registry as R
from .state import SV, State, VCError, Display, DisplayDict, PyFunc, fresh, fresh_sort, fresh_mark, new_consts
from .expr import I, S, is_pystr

BUILTIN_EXC = {"ValueError", "TypeError", "RuntimeError", "NotImplementedError", "KeyError", "IndexError",
               "AttributeError", "ZeroDivisionError", "Exception", "InstancesCapException", "ResourceWarning"}

class EvalMixin:
    def ev_list(self, nodes, st):
        if not nodes:
            yield st, []
            return
        for st1, v in self.ev(nodes[0], st):
            for st2, rest in self.ev_list(nodes[1:], st1):
                yield st2, [v] + rest

    # ------------------------------------------------------------------ names
    def lookup_name(self, name, st):
        if name in st.env: return st.env[name]
        if name == "True": return SV(T.Bool, z3.BoolVal(True))
        if name == "False": return SV(T.Bool, z3.BoolVal(False))
        if name == "None": return SV(T.NoneT, z3.BoolVal(True))
        if self.spec and name in self.spec_names: return self.spec_names[name]
        if name in ("str", "int", "float", "list", "tuple", "set", "dict", "bool"):
            return SV(PyFunc, ("pytype", name))
        if name in BUILTIN_EXC: return SV(PyFunc, ("exc", name))
        module = st.ctx[0]
        try:
            kind, m, node = X.resolve_name(module, name)
        except X.ExtractionError as e:
            raise VCError("unknown name %s in %s: %s" % (name, module, e))
        if kind == "const":
            try:
                return self.const_sv(X.const_value(module, name))
            except X.ExtractionError:
                sub = State(); sub.ctx = (m, None, st.ctx[2]); sub.heap = st.heap; sub.alloc = st.alloc
                prev = self.quiet; self.quiet += 1
                try: outs = list(self.ev(node, sub))
                finally: self.quiet = prev
                if len(outs) != 1: raise VCError("module constant %s is not a simple expression" % name)
                for f in outs[0][0].pc: st.assume(f)
                return outs[0][1]
        if kind == "func": return SV(PyFunc, ("func", "%s:%s" % (m, name if node.name == name else node.name)))
        if kind == "class": return SV(PyFunc, ("class", "%s:%s" % (m, node.name)))
        if kind == "external": return SV(PyFunc, ("external", "%s.%s" % (m, node)))
        raise VCError("name %s: %s" % (name, kind))

    def const_sv(self, v):
        if v is None: return SV(T.NoneT, z3.BoolVal(True))
        if isinstance(v, bool): return SV(T.Bool, z3.BoolVal(v))
        if isinstance(v, int): return SV(T.Int, I(v))
        if isinstance(v, float):
            return SV(T.Real, z3.RealVal(repr(v)))
        if isinstance(v, str): return SV(T.Str, S(v))
        if isinstance(v, (list, tuple)): return SV(Display, [self.const_sv(x) for x in v])
        raise VCError("constant %r unsupported" % (v,))

    # ------------------------------------------------------------------ main dispatcher
    def ev(self, node, st):
        m = getattr(self, "ev_" + type(node).__name__, None)
        if m is None: raise VCError("expression %s unsupported (line %s)" % (type(node).__name__, getattr(node, "lineno", "?")))
        yield from m(node, st)

    def ev_Constant(self, node, st):
        yield st, self.const_sv(node.value)
    def ev_Name(self, node, st):
        yield st, self.lookup_name(node.id, st)
    def ev_List(self, node, st):
        for st1, vs in self.ev_list(node.elts, st): yield st1, SV(Display, vs)
    ev_Tuple = ev_List
    def ev_Dict(self, node, st):
        if not node.keys:
            yield st, SV(Display, []); return
        for st1, ks in self.ev_list(list(node.keys), st):
            for st2, vs in self.ev_list(list(node.values), st1):
                yield st2, SV(DisplayDict, list(zip(ks, vs)))
    def ev_ListComp(self, node, st):
        """[f(x) for x in lst]  (one generator, no condition, pure element expression)"""
        if len(node.generators) != 1:
            raise VCError("list comprehension form (line %d)" % node.lineno)
        g = node.generators[0]
        for st1, seq in self.ev(g.iter, st):
            seq = self.unwrap_opt(st1, seq, node, "iteration-over-None")
            if seq.ty == Display:
                # literal tuple / list / *args: unrolled element by element, one path per outcome of the filters
                yield from self.listcomp_display(node, g, st1, seq.t, 0, [])
                continue
            if (len(g.ifs) == 1 and isinstance(g.target, ast.Name) and isinstance(node.elt, ast.Name) and node.elt.id == g.target.id
                    and isinstance(seq.ty, T.List)):
                yield from self.listcomp_filter(node, g, st1, seq); continue
            if g.ifs or not isinstance(g.target, ast.Name):
                raise VCError("list comprehension form (line %d)" % node.lineno)
            if not isinstance(seq.ty, T.List): raise VCError("list comprehension over %s" % seq.ty)
            i = fresh("lc_i", T.Int)
            mark = fresh_mark()
            s2 = st1.fork(); s2.env = dict(st1.env)
            elem = SV(seq.ty.t, z3.Select(T.list_arr(seq.ty, seq.t), i))
            s2.env[g.target.id] = elem
            base = len(s2.pc)
            self.assume_wf(s2, elem)
            wf = s2.pc[base:]
            base = len(s2.pc)
            s2.exc_sink = []
            outs = list(self.ev(node.elt, s2))
            if not outs: raise VCError("list comprehension element has no normal outcome")
            r = outs[-1][1]
            for so, vo in reversed(outs[:-1]):
                if vo.ty != r.ty: raise VCError("list comprehension of mixed types")
                r = SV(r.ty, z3.If(z3.And(so.pc[base:] + [z3.BoolVal(True)]), vo.t, r.t))
            if s2.exc_sink and not self.spec:
                # the element expression may raise for some element: obligation that it does not
                for es, exn in s2.exc_sink:
                    n = T.list_len(seq.ty, seq.t)
                    self.oblige(st1, z3.ForAll([i], z3.Implies(z3.And(i >= 0, i < n), z3.Not(z3.And(wf + es.pc[base:] + [z3.BoolVal(True)])))),
                                "list-comprehension-element-raises-%s" % exn, node)
            rty = T.List(r.ty)
            res = fresh("lc", rty); n = T.list_len(seq.ty, seq.t)
            st1.assume(T.list_len(rty, res) == n)
            # values created while evaluating the element expression (results of modular calls, ...) depend on the element:
            # they become functions of the index
            facts = wf + outs[-1][0].pc[base:] if len(outs) == 1 else wf
            body = z3.And(facts + [T.list_arr(rty, res)[i] == r.t])
            subst = [(c, z3.Function("lcf_" + c.decl().name(), z3.IntSort(), c.sort())(i)) for c in new_consts([body], mark) if not c.eq(res)]
            if subst: body = z3.substitute(body, *subst)
            st1.assume(z3.ForAll([i], z3.Implies(z3.And(i >= 0, i < n), body), patterns=[T.list_arr(rty, res)[i]]))
            yield st1, SV(rty, res)

    def listcomp_filter(self, node, g, st1, seq):
        """[x for x in lst if cond(x)] : the sub-list of the elements that satisfy a pure condition, in order, with multiplicity.
        Encoding: a fresh list `res` with a strictly increasing index map fidx (res[k] == lst[fidx(k)], cond holds there) that is onto the
        positions where cond holds (inverse finv)."""
        i = fresh("lf_i", T.Int)
        s2 = st1.fork(); s2.env = dict(st1.env)
        arr = T.list_arr(seq.ty, seq.t); n = T.list_len(seq.ty, seq.t)
        elem = SV(seq.ty.t, z3.Select(arr, i))
        s2.env[g.target.id] = elem
        base = len(s2.pc)
        self.assume_wf(s2, elem)
        wf = s2.pc[base:]
        base = len(s2.pc)
        s2.exc_sink = []
        mark = fresh_mark()
        outs = list(self.ev(g.ifs[0], s2))
        if not outs: raise VCError("list comprehension condition has no normal outcome")
        if s2.exc_sink and not self.spec:
            for es, exn in s2.exc_sink:
                self.oblige(st1, z3.ForAll([i], z3.Implies(z3.And(i >= 0, i < n), z3.Not(z3.And(wf + es.pc[base:] + [z3.BoolVal(True)])))),
                            "list-comprehension-condition-raises-%s" % exn, node)
        c = self.truth(outs[-1][1])
        for so, vo in reversed(outs[:-1]):
            c = z3.If(z3.And(so.pc[base:] + [z3.BoolVal(True)]), self.truth(vo), c)
        if new_consts([c], mark):
            raise VCError("list comprehension condition is not a pure function of the element (line %d)" % node.lineno)
        def C(j): return z3.substitute(c, (i, j))
        rty = seq.ty
        res = fresh("lf", rty); m = T.list_len(rty, res); rarr = T.list_arr(rty, res)
        tag = res.decl().name().replace("!", "_")
        fidx = z3.Function("fidx_" + tag, z3.IntSort(), z3.IntSort()); finv = z3.Function("finv_" + tag, z3.IntSort(), z3.IntSort())
        k = z3.Int("k!lf"); k2 = z3.Int("k2!lf"); j = z3.Int("j!lf")
        st1.assume(z3.And(m >= 0, m <= n))
        st1.assume(z3.ForAll([k], z3.Implies(z3.And(k >= 0, k < m), z3.And(fidx(k) >= 0, fidx(k) < n, rarr[k] == arr[fidx(k)], C(fidx(k)))), patterns=[rarr[k]]))
        st1.assume(z3.ForAll([k, k2], z3.Implies(z3.And(k >= 0, k < k2, k2 < m), fidx(k) < fidx(k2)), patterns=[z3.MultiPattern(fidx(k), fidx(k2))]))
        st1.assume(z3.ForAll([j], z3.Implies(z3.And(j >= 0, j < n, C(j)), z3.And(finv(j) >= 0, finv(j) < m, fidx(finv(j)) == j, rarr[finv(j)] == arr[j])),
                             patterns=[arr[j]]))
        out = SV(rty, res)
        yield st1, out

    def listcomp_display(self, node, g, st, elems, k, acc):
        if k == len(elems):
            st.env = {n: v for n, v in st.env.items() if not n.startswith("%lc%")}
            yield st, SV(Display, list(acc)); return
        s1 = st.fork(); s1.env = dict(st.env)
        saved = {}
        def bind(tgt, v):
            if isinstance(tgt, ast.Name):
                saved.setdefault(tgt.id, s1.env.get(tgt.id)); s1.env[tgt.id] = v
            elif isinstance(tgt, (ast.Tuple, ast.List)) and v.ty == Display and len(v.t) == len(tgt.elts):
                for t2, v2 in zip(tgt.elts, v.t): bind(t2, v2)
            else: raise VCError("list comprehension target (line %d)" % node.lineno)
        bind(g.target, elems[k])
        def restore(s):
            s.env = dict(s.env)
            for n, v in saved.items():
                if v is None: s.env.pop(n, None)
                else: s.env[n] = v
            return s
        def conds(j, s):
            if j == len(g.ifs):
                yield s, True; return
            for s2, c in self.ev(g.ifs[j], s):
                b = z3.simplify(self.truth(c))
                if not z3.is_false(b):
                    sa = s2.fork(); sa.assume(b)
                    if z3.is_true(b) or self.maybe(s2, b):
                        yield from conds(j + 1, sa)
                if not z3.is_true(b):
                    sb = s2.fork(); sb.assume(z3.Not(b))
                    if z3.is_false(b) or self.maybe(s2, z3.Not(b)):
                        yield sb, False
        for s2, keep in conds(0, s1):
            if keep:
                for s3, v in self.ev(node.elt, s2):
                    yield from self.listcomp_display(node, g, restore(s3), elems, k + 1, acc + [v])
            else:
                yield from self.listcomp_display(node, g, restore(s2), elems, k + 1, acc)

    def ev_Lambda(self, node, st):
        yield st, SV(PyFunc, ("lambda", node))
    def ev_JoinedStr(self, node, st):
        parts = []
        nodes = []
        for v in node.values:
            if isinstance(v, ast.Constant): parts.append(("c", v.value))
            elif isinstance(v, ast.FormattedValue) and v.format_spec is None and v.conversion == -1:
                parts.append(("e", len(nodes))); nodes.append(v.value)
            else: raise VCError("f-string with format spec")
        for st1, vs in self.ev_list(nodes, st):
            out = [S(p) if k == "c" else self.to_str(st1, vs[p]).t for k, p in parts]
            yield st1, SV(T.Str, z3.Concat(*out) if len(out) > 1 else out[0])

    def ev_IfExp(self, node, st):
        for st1, c in self.ev(node.test, st):
            b = self.truth(c)
            if self.spec:
                for st2, x in self.ev(node.body, st1):
                    for st3, y in self.ev(node.orelse, st2):
                        x2, y2 = self.unify(x, y)
                        yield st3, SV(x2.ty, z3.If(b, x2.t, y2.t))
                return
            b = z3.simplify(b)
            if not z3.is_false(b):
                sa = st1.fork(); sa.assume(b)
                yield from self.explore(lambda: self.ev(node.body, sa), list(sa.pc))
            if not z3.is_true(b):
                sb = st1.fork(); sb.assume(z3.Not(b))
                yield from self.explore(lambda: self.ev(node.orelse, sb), list(sb.pc))

    def unify(self, x, y):
        if x.ty == y.ty: return x, y
        if x.ty == T.Card or y.ty == T.Card:
            return self.coerce(x, T.Card), self.coerce(y, T.Card)
        for a, b in ((x, y), (y, x)):
            try:
                c = self.coerce(b, a.ty)
                return (a, c) if a is x else (c, a)
            except VCError: pass
        if x.ty == T.NoneT and not isinstance(y.ty, T.Opt):
            ty = T.Opt(y.ty); return self.coerce(x, ty), self.coerce(y, ty)
        if y.ty == T.NoneT and not isinstance(x.ty, T.Opt):
            ty = T.Opt(x.ty); return self.coerce(x, ty), self.coerce(y, ty)
        raise VCError("cannot unify %s and %s" % (x.ty, y.ty))

    def ev_BoolOp(self, node, st):
        is_and = isinstance(node.op, ast.And)
        if self.spec:
            for st1, vs in self.ev_list(node.values, st):
                bs = [self.truth(v) for v in vs]
                yield st1, SV(T.Bool, z3.And(bs) if is_and else z3.Or(bs))
            return
        def go(i, st0):
            for st1, v in self.ev(node.values[i], st0):
                if i == len(node.values) - 1:
                    yield st1, v
                    continue
                b = z3.simplify(self.truth(v))
                stop_cond = z3.simplify(z3.Not(b)) if is_and else b
                if not z3.is_false(stop_cond):
                    short = st1.fork(); short.assume(stop_cond)
                    # value of a short-circuited and/or is the operand itself; we only support boolean use
                    yield short, SV(T.Bool, z3.BoolVal(not is_and))
                if not z3.is_true(stop_cond):
                    cont = st1.fork(); cont.assume(z3.Not(stop_cond))
                    for st2, w in go(i + 1, cont):
                        yield st2, (w if w.ty == T.Bool else SV(T.Bool, self.truth(w)))
        yield from go(0, st)

    def ev_UnaryOp(self, node, st):
        for st1, v in self.ev(node.operand, st):
            if isinstance(node.op, ast.Not): yield st1, SV(T.Bool, z3.Not(self.truth(v)))
            elif isinstance(node.op, ast.USub) and v.ty in (T.Int, T.Real): yield st1, SV(v.ty, -v.t)
            else: raise VCError("unary op")

    def ev_BinOp(self, node, st):
        for st1, (a, b) in self.ev_list([node.left, node.right], st):
            yield st1, self.binop(st1, node.op, a, b, node)

    def binop(self, st, op, a, b, node):
        num = (T.Int, T.Real)
        if isinstance(op, ast.Add):
            # str + Optional[str]: Python raises TypeError when the value is None -> obligation "not None", then plain concatenation
            if a.ty == T.Str and isinstance(b.ty, T.Opt) and b.ty.t == T.Str: b = self.unwrap_opt(st, b, node, "str-plus-None")
            if b.ty == T.Str and isinstance(a.ty, T.Opt) and a.ty.t == T.Str: a = self.unwrap_opt(st, a, node, "str-plus-None")
            if a.ty == T.Str and b.ty == T.Str: return SV(T.Str, z3.Concat(a.t, b.t))
            if a.ty == T.Str or b.ty == T.Str:
                if not self.spec: self.oblige(st, z3.BoolVal(False), "str-plus-nonstr", node)
                raise VCError("str + non-str (%s + %s)" % (a.ty, b.ty))
            if a.ty == Display and b.ty == Display: return SV(Display, a.t + b.t)
            if isinstance(a.ty, T.List) or isinstance(b.ty, T.List):
                lt = a.ty if isinstance(a.ty, T.List) else b.ty
                return self.list_concat(st, self.coerce(a, lt), self.coerce(b, lt))
        if isinstance(a.ty, T.Opt) and a.ty.t in num: a = self.unwrap_opt(st, a, node, "order-compare-with-None")
        if isinstance(b.ty, T.Opt) and b.ty.t in num: b = self.unwrap_opt(st, b, node, "order-compare-with-None")
        if a.ty in num and b.ty in num:
            if a.ty != b.ty: a, b = self.coerce(a, T.Real), self.coerce(b, T.Real)
            if isinstance(op, ast.Add): return SV(a.ty, a.t + b.t)
            if isinstance(op, ast.Sub): return SV(a.ty, a.t - b.t)
            if isinstance(op, ast.Mult): return SV(a.ty, a.t * b.t)
            if isinstance(op, ast.Div):
                if not self.spec: self.oblige(st, b.t != 0, "division-by-zero", node)
                return SV(T.Real, self.coerce(a, T.Real).t / self.coerce(b, T.Real).t)
            if isinstance(op, (ast.Mod, ast.FloorDiv)) and a.ty == T.Int:
                if not self.spec: self.oblige(st, b.t != 0, "division-by-zero", node)
                # Python: the remainder takes the sign of the divisor (SMT-LIB mod is always non-negative), a // b = floor(a / b)
                m = a.t % b.t
                pm = z3.If(z3.Or(b.t > 0, m == 0), m, m + b.t)
                if isinstance(op, ast.Mod): return SV(T.Int, pm)
                return SV(T.Int, (a.t - pm) / b.t)
        raise VCError("binop %s on %s,%s (line %s)" % (type(op).__name__, a.ty, b.ty, getattr(node, "lineno", "?")))

    def list_concat(self, st, a, b):
        ty = a.ty
        r = fresh("concat", ty); i = z3.Int("i!cc")
        la, lb = T.list_len(ty, a.t), T.list_len(ty, b.t)
        st.assume(T.list_len(ty, r) == la + lb)
        st.assume(z3.ForAll([i], z3.Implies(z3.And(i >= 0, i < la), T.list_arr(ty, r)[i] == T.list_arr(ty, a.t)[i])))
        st.assume(z3.ForAll([i], z3.Implies(z3.And(i >= 0, i < lb), T.list_arr(ty, r)[la + i] == T.list_arr(ty, b.t)[i])))
        return SV(ty, r)

    def ev_Compare(self, node, st):
        for st1, vs in self.ev_list([node.left] + node.comparators, st):
            conj = []
            for op, a, b in zip(node.ops, vs, vs[1:]):
                conj.append(self.compare(st1, op, a, b, node))
            yield st1, SV(T.Bool, z3.And(conj) if len(conj) > 1 else conj[0])

    def compare(self, st, op, a, b, node):
        if isinstance(op, ast.Eq): return self.eq(a, b, st)
        if isinstance(op, ast.NotEq): return z3.Not(self.eq(a, b, st))
        if isinstance(op, ast.Is):
            if b.ty == T.NoneT or a.ty == T.NoneT: return self.eq(a, b, st)
            raise VCError("'is' only with None")
        if isinstance(op, ast.IsNot):
            if b.ty == T.NoneT or a.ty == T.NoneT: return z3.Not(self.eq(a, b, st))
            raise VCError("'is not' only with None")
        if isinstance(op, (ast.In, ast.NotIn)):
            r = self.contains(st, b, a, node)
            return r if isinstance(op, ast.In) else z3.Not(r)
        num = (T.Int, T.Real)
        if a.ty == T.Card and not self.spec:
            self.oblige(st, T.card_is_int(a.t), "order-compare-on-str-cardinality", node); a = SV(T.Int, T.card_n(a.t))
        if isinstance(a.ty, T.Opt) and a.ty.t in num: a = self.unwrap_opt(st, a, node, "order-compare-with-None")
        if isinstance(b.ty, T.Opt) and b.ty.t in num: b = self.unwrap_opt(st, b, node, "order-compare-with-None")
        if a.ty in num and b.ty in num:
            if a.ty != b.ty: a, b = self.coerce(a, T.Real), self.coerce(b, T.Real)
            if isinstance(op, ast.Lt): return a.t < b.t
            if isinstance(op, ast.LtE): return a.t <= b.t
            if isinstance(op, ast.Gt): return a.t > b.t
            if isinstance(op, ast.GtE): return a.t >= b.t
        raise VCError("compare %s on %s,%s" % (type(op).__name__, a.ty, b.ty))

    def contains(self, st, cont, x, node):
        cont = self.unbox(st, cont)
        ty = cont.ty
        if ty == PyFunc and cont.t[0] == "dictview" and cont.t[1] == "values":
            d = cont.t[2]
            k = z3.Const("k!dv%d" % (id(node) % 9973), T.sort_of(d.ty.k))
            return z3.Exists([k], z3.And(z3.Select(T.dict_dom(d.ty, d.t), k), z3.Select(T.dict_map(d.ty, d.t), k) == self.coerce(x, d.ty.v).t))
        if ty == Display:
            return z3.Or([self.eq(x, e, st) for e in cont.t] + [z3.BoolVal(False)])
        if ty == T.Str: return z3.Contains(cont.t, self.coerce(x, T.Str).t)
        if ty == DisplayDict:
            return z3.Or([self.eq(x, k, st) for k, _ in cont.t] + [z3.BoolVal(False)])
        if isinstance(ty, (T.Dict, T.Set)) and isinstance(x.ty, T.Opt) and x.ty.t == ty.k:
            # Optional key: None is never a member of a container of K (Python: `None in {..}` is False, no exception)
            inner = SV(x.ty.t, T.opt_val(x.ty, x.t))
            return z3.And(z3.Not(T.opt_is_none(x.ty, x.t)), self.contains(st, cont, inner, node))
        if isinstance(ty, T.Dict): return z3.Select(T.dict_dom(ty, cont.t), self.coerce(x, ty.k).t)
        if isinstance(ty, T.Set): return z3.Select(cont.t, self.coerce(x, ty.k).t)
        if isinstance(ty, T.List):
            i = fresh("in_idx", T.Int)   # skolem for the positive case; sound only under positive polarity -> use quantifier
            j = z3.Int("j!in")
            xx = x
            body = self.eq(SV(ty.t, T.list_arr(ty, cont.t)[j]), xx, st)
            return z3.Exists([j], z3.And(j >= 0, j < T.list_len(ty, cont.t), body))
        if isinstance(ty, T.Opt):
            if not self.spec: self.oblige(st, z3.Not(T.opt_is_none(ty, cont.t)), "in-on-None", node)
            return self.contains(st, SV(ty.t, T.opt_val(ty, cont.t)), x, node)
        raise VCError("'in' on %s" % ty)

    # ------------------------------------------------------------------ attribute / subscript
    def unwrap_opt(self, st, v, node, what="attribute-of-None"):
        if isinstance(v.ty, T.Opt):
            if not self.spec: self.oblige(st, z3.Not(T.opt_is_none(v.ty, v.t)), what, node)
            inner = SV(v.ty.t, T.opt_val(v.ty, v.t), cls=v.cls)
            if not self.spec:
                st.assume(z3.Not(T.opt_is_none(v.ty, v.t)))
            return self.unbox(st, inner)
        if v.ty == T.NoneT and not self.spec:
            self.oblige(st, z3.BoolVal(False), what, node)
            raise VCError("attribute of None constant")
        return self.unbox(st, v)

    def unbox(self, st, v):
        if isinstance(v.ty, T.Obj) and R.SCHEMAS[v.ty.family].box:
            fam = v.ty.family
            inner = SV(R.SCHEMAS[fam].fields["val"], self.hread(st, fam, "val", v.t), box=(fam, v.t))
            return inner
        return v

    def ev_Attribute(self, node, st):
        for st1, base in self.ev(node.value, st):
            yield from self.getattr(st1, base, node.attr, node)

    def getattr(self, st, base, attr, node):
        if base.ty == PyFunc:
            kind = base.t[0]
            if kind == "class":      # Class.staticmethod / Class.CONST
                yield st, SV(PyFunc, ("func", base.t[1] + "." + attr)); return
            if kind == "external":
                key = base.t[1] + "." + attr
                if key in R.EXTCONSTS:
                    yield st, SV(R.EXTCONSTS[key][0], R.EXTCONSTS[key][1]); return
                yield st, SV(PyFunc, ("external", key)); return
            raise VCError("attribute %s of %s" % (attr, base.t,))
        base = self.unwrap_opt(st, base, node)
        if isinstance(base.ty, T.Obj):
            sch = R.SCHEMAS[base.ty.family]
            if sch.fields.get(attr) == "ignored": raise VCError("read of attribute %s declared 'ignored'" % attr)
            if attr in sch.fields:
                v = SV(sch.fields[attr], self.hread(st, base.ty.family, attr, base.t))
                self.assume_wf(st, v)
                yield st, v; return
            yield from self.obj_attr(st, base, attr, node); return
        if base.ty in (T.Str,) or isinstance(base.ty, (T.List, T.Dict, T.Set, T.Atom)):
            yield st, SV(PyFunc, ("bound-builtin", attr, base, node.value if isinstance(node, ast.Attribute) else None)); return
        if base.ty == Display and attr in ("append", "add") and isinstance(node, ast.Attribute):
            # a list / set built by a literal or by list() / set(): it takes its element type from the first element added
            yield st, SV(PyFunc, ("bound-builtin", attr, base, node.value)); return
        raise VCError("attribute %s on %s (line %s)" % (attr, base.ty, getattr(node, "lineno", "?")))

    def classes_of(self, st, obj):
        sch = R.SCHEMAS[obj.ty.family]
        if obj.cls is not None: return [(obj.cls, z3.BoolVal(True))]
        tag = self.hread(st, obj.ty.family, "__class__", obj.t)
        cands = [(c, tag == i) for i, c in enumerate(sch.classes)]
        return [(c, cond) for c, cond in cands if self.maybe(st, cond)]

    def maybe(self, st, cond):
        """False only if cond is certainly inconsistent with the quantifier-free part of the path condition."""
        sol = z3.Solver(); sol.set("timeout", 1000)
        for f in st.pc:
            if not _has_quant(f): sol.add(f)
        sol.add(cond)
        return sol.check() != z3.unsat

    def obj_attr(self, st, obj, attr, node):
        """property getter (inlined from the real source) or bound method, by dynamic class."""
        sch = R.SCHEMAS[obj.ty.family]
        virt = getattr(sch, "virtual", {})
        if attr in virt and obj.cls is None:
            yield st, SV(PyFunc, ("bound", virt[attr], obj)); return
        if attr in sch.funfields:
            prev = []
            tmp = st.fork(); tmp.env = {"self": obj}
            for cond, meth in sch.funfields[attr]:
                cnd = self.spec_eval(cond, tmp, None)
                s2 = st.fork(); s2.assume(z3.And([z3.Not(p) for p in prev] + [cnd]))
                prev.append(cnd)
                sol = z3.Solver(); sol.set("timeout", 3000)
                for f in s2.pc: sol.add(f)
                if sol.check() == z3.unsat: continue
                found = None
                for cq, ccond in self.classes_of(s2, obj):
                    mm = X.find_method(*cq.split(":"), meth)
                    if mm is not None:
                        s3 = s2.fork(); s3.assume(ccond)
                        yield s3, SV(PyFunc, ("bound", "%s:%s.%s" % (mm[0], mm[1], meth), SV(obj.ty, obj.t, cls=cq)))
            self.note_assumption("function-valued attribute %s.%s dispatches as declared in the schema (established by the constructor)" % (obj.ty.family, attr))
            return
        cands = self.classes_of(st, obj)
        missing = []
        for cq, cond in cands:
            if cq.startswith("ext:"):
                yield st, SV(PyFunc, ("bound", cq + "." + attr, obj)); continue
            m, c = cq.split(":")
            prop = X.find_property(m, c, attr)
            st2 = st.fork() if len(cands) > 1 else st
            st2.assume(cond)
            if prop is not None:
                pm, pc, pnode = prop
                yield from self.inline_call(st2, "%s:%s.%s" % (pm, pc, attr), pnode, SV(obj.ty, obj.t, cls=cq), [], {}, node, pm)
                continue
            meth = X.find_method(m, c, attr)
            if meth is not None:
                yield st2, SV(PyFunc, ("bound", "%s:%s.%s" % (meth[0], meth[1], attr), SV(obj.ty, obj.t, cls=cq)))
                continue
            # instance attribute holding a function (assigned in __init__) is declared in the schema; else AttributeError
            missing.append(cond)
            self.oblige(st2, z3.BoolVal(False), "no-such-attribute:%s" % attr, node)

    def ev_Subscript(self, node, st):
        for st1, base in self.ev(node.value, st):
            base = self.unwrap_opt(st1, base, node, "subscript-of-None")
            sl = node.slice
            if isinstance(sl, ast.Slice):
                parts = [sl.lower, sl.upper]
                if sl.step is not None: raise VCError("slice step unsupported (line %d)" % node.lineno)
                present = [p for p in parts if p is not None]
                for st2, vs in self.ev_list(present, st1):
                    it = iter(vs)
                    lo = self.coerce(next(it), T.Int).t if sl.lower is not None else None
                    hi = self.coerce(next(it), T.Int).t if sl.upper is not None else None
                    if base.ty == T.Str:
                        a, ln = self.norm_slice(z3.Length(base.t), lo, hi)
                        yield st2, SV(T.Str, z3.SubString(base.t, a, ln))
                    else: raise VCError("slice of %s" % base.ty)
                continue
            for st2, idx in self.ev(sl, st1):
                yield st2, self.index(st2, base, idx, node)

    def index(self, st, base, idx, node):
        ty = base.ty
        if ty == T.Str:
            return SV(T.Str, self.str_index(st, base.t, self.coerce(idx, T.Int).t, node) if not self.spec
                      else z3.SubString(base.t, z3.If(idx.t < 0, idx.t + z3.Length(base.t), idx.t), 1))
        if ty == DisplayDict:
            if not self.spec: self.oblige(st, self.contains(st, base, idx, node), "key-in-dict", node)
            vals = [v for _, v in base.t]
            vty = vals[0].ty
            for v in vals:
                if v.ty != vty:
                    a, b = self.unify(SV(vty, None), v) if False else (None, None)
            # unify value types (None mixed with values -> Opt)
            tys = [v.ty for v in vals if v.ty != T.NoneT]
            vty = tys[0] if tys else T.NoneT
            if any(v.ty == T.NoneT for v in vals) and vty != T.NoneT and not isinstance(vty, T.Opt): vty = T.Opt(vty)
            r = self.coerce(vals[-1], vty).t
            for k, v in reversed(base.t[:-1]):
                r = z3.If(self.eq(idx, k, st), self.coerce(v, vty).t, r)
            return SV(vty, r)
        if isinstance(ty, T.Tup) or ty == Display:
            if not z3.is_int_value(idx.t): raise VCError("tuple index must be constant")
            k = idx.t.as_long()
            n = len(ty.ts) if isinstance(ty, T.Tup) else len(base.t)
            if not (-n <= k < n):
                if not self.spec: self.oblige(st, z3.BoolVal(False), "index-in-range", node)
                raise VCError("tuple index out of range")
            if ty == Display: return base.t[k]
            v = SV(ty.ts[k % n], T.tup_get(ty, base.t, k % n))
            self.assume_wf(st, v); return v
        if isinstance(ty, T.List):
            i = self.coerce(idx, T.Int).t; n = T.list_len(ty, base.t)
            if not self.spec: self.oblige(st, z3.And(i >= -n, i < n), "index-in-range", node)
            v = SV(ty.t, z3.Select(T.list_arr(ty, base.t), z3.If(i < 0, i + n, i)))
            self.assume_wf(st, v); return v
        if isinstance(ty, T.Dict):
            k = (self.coerce(idx, ty.k, st, node) if not self.spec else self.coerce(idx, ty.k)).t
            if not self.spec: self.oblige(st, z3.Select(T.dict_dom(ty, base.t), k), "key-in-dict", node)
            v = SV(ty.v, z3.Select(T.dict_map(ty, base.t), k))
            self.assume_wf(st, v); return v
        raise VCError("subscript on %s (line %s)" % (ty, getattr(node, "lineno", "?")))

_hq_cache = {}
def _has_quant(f):
    k = f.get_id()
    if k in _hq_cache: return _hq_cache[k]
    r = False
    stack = [f]; seen = set()
    while stack:
        e = stack.pop()
        if e.get_id() in seen: continue
        seen.add(e.get_id())
        if z3.is_quantifier(e): r = True; break
        stack.extend(e.children())
    _hq_cache[k] = r
    return r
