"""Symbolic values, path state and obligations."""
import itertools, z3
from . import types as T

class VCError(Exception):
    """Construct outside the verified subset / contract refers to something that does not exist (exit 2/3, never a violation)."""

class SV:
    __slots__ = ("ty", "t", "cls", "lv", "box", "mark")
    def __init__(self, ty, t, cls=None, lv=None, box=None, mark=None):
        self.mark = mark   # alias guard: ("ref", source) = a second name for an unboxed container that lives elsewhere; ("param", name, dirty)
        self.ty, self.t, self.cls, self.lv, self.box = ty, t, cls, lv, box   # box: (family, ref) when the value was read out of a shared container cell   # cls: known dynamic class for Obj; lv: lvalue path for write-back
    def __repr__(self): return "SV(%s,%s)" % (self.ty, self.t)

class DisplayT(T.Ty):
    """A Python list/tuple display (or module constant list) kept structurally: t is a python list of SV."""
    def name(self): return "Display"
Display = DisplayT()

class DisplayDictT(T.Ty):
    def name(self): return "DisplayDict"
DisplayDict = DisplayDictT()   # t = [(key SV, value SV)]: a constant dict display such as a module-level table

class PyFuncT(T.Ty):
    def name(self): return "PyFunc"
PyFunc = PyFuncT()    # t = ('func', qual) | ('bound', qual, self_sv) | ('class', qual) | ('lambda', node, env)

_counter = [0]
def _next():
    _counter[0] += 1
    return _counter[0]
def fresh_mark():
    """every constant created by fresh()/fresh_sort() from now on has a number greater than the returned mark"""
    return _counter[0]
def fresh(prefix, ty):
    return z3.Const("%s!%d" % (prefix, _next()), T.sort_of(ty))
def fresh_sort(prefix, sort):
    return z3.Const("%s!%d" % (prefix, _next()), sort)

def new_consts(exprs, mark):
    """uninterpreted constants named '<x>!<n>' with n > mark occurring in exprs"""
    out = {}; seen = set(); stack = list(exprs)
    while stack:
        e = stack.pop()
        if e.get_id() in seen: continue
        seen.add(e.get_id())
        if z3.is_quantifier(e):
            stack.append(e.body()); continue
        if z3.is_app(e):
            if e.num_args() == 0 and e.decl().kind() == z3.Z3_OP_UNINTERPRETED:
                nm = e.decl().name()
                if "!" in nm:
                    tail = nm.rsplit("!", 1)[1]
                    if tail.isdigit() and int(tail) > mark: out[nm] = e
            else:
                stack.extend(e.children())
    return list(out.values())

class Obligation:
    def __init__(self, name, func, kind, line, assumptions, goal, props=(), note="", extra_decls=()):
        self.name, self.func, self.kind, self.line = name, func, kind, line
        self.assumptions, self.goal = list(assumptions), goal
        self.props, self.note = list(props), note
        self.inputs = {}          # name -> z3 term for model extraction (function params in pre-state)
        self.expect = "unsat"     # 'unsat' = must be proved; 'sat' = cover / canary (must be satisfiable/refutable)
        self.strings = None

class State:
    def __init__(self):
        self.env = {}             # name -> SV
        self.heap = {}            # (family, field) -> z3 array Ref -> sort
        self.alloc = z3.IntVal(1) # next free reference
        self.pc = []              # assumptions
        self.old = None           # State snapshot at function entry
        self.yielded = None       # SV of List type for generators
        self.loop_snap = {}       # ordinal -> snapshot for loop ghost access
        self.ret_ty = None
        self.exc_sink = None      # list collecting exceptional continuations raised while evaluating the current statement
        self.ctx = None           # (module, 'module:Class' or None) of the code being executed
    def fork(self):
        s = State()
        s.env = dict(self.env); s.heap = dict(self.heap); s.alloc = self.alloc; s.pc = list(self.pc)
        s.old = self.old; s.yielded = self.yielded; s.loop_snap = dict(self.loop_snap); s.ret_ty = self.ret_ty; s.ctx = self.ctx; s.exc_sink = self.exc_sink
        return s
    def assume(self, f):
        if z3.is_true(f): return
        self.pc.append(f)
