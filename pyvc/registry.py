"""Sidecar contract registry: schemas (heap layouts), contracts, spec functions, lemmas."""
import z3
from . import types as T

SCHEMAS = {}      # family -> Schema
CLASS_FAMILY = {} # 'module:Class' -> family
CONTRACTS = {}    # 'module:Class.meth' (defining class) or alias -> Contract
SPECFUNS = {}     # name -> SpecFun
LEMMAS = []       # Lemma
CANARIES = []
TRACE = {}        # 'elem': Tup type of trace events when the effect-trace mechanism is used
SPEC_TYPES = {}   # names usable as quantifier domains in spec expressions
EXTCONSTS = {}    # 'rdflib.RDF.type' -> (Ty, z3 const)

class Schema:
    def __init__(self, family, classes, fields, eq_fields=None, invariant=None, box=False, eq_inline=False, funfields=None):
        self.funfields = funfields or {}      # attr -> [(cond over self, method name)]: instance attributes holding bound methods
        self.family = family
        self.classes = list(classes)          # 'module:Class' possible dynamic classes, index = class tag
        self.fields = dict(fields)            # field name -> Ty
        self.eq_fields = eq_fields            # fields compared by __eq__ (with dynamic class) or None = identity
        self.invariant = invariant or []      # spec expressions over `self` assumed for every allocated object
        self.box = box                        # a shared mutable container cell: single field 'val'
        self.eq_inline = eq_inline            # == is the class's own __eq__, inlined from the real source

def schema(family, classes, fields, eq_fields=None, invariant=None, box=False, eq_inline=False, funfields=None, register=True):
    """register=False: a second view of classes that already have a schema (used only through an explicit self_type)"""
    s = Schema(family, classes, fields, eq_fields, invariant, box, eq_inline, funfields)
    SCHEMAS[family] = s
    for c in s.classes:
        if register or c not in CLASS_FAMILY: CLASS_FAMILY[c] = family
    return T.Obj(family)

class Contract:
    def __init__(self, qual, params, returns=T.NoneT, requires=(), ensures=(), raises=(), loops=None,
                 modifies=(), mutates=(), inline=False, props=(), self_type=None, ghost=None, verify=True,
                 assume_only=False, yields=None, decreases=None, lemmas=(), note="", cover=True,
                 raises_any_ok=False, vararg_types=None, canary=False, replay_self=None, emits=None, bnodes=None, axioms_of=()):
        self.qual = qual
        self.params = dict(params)            # name -> Ty (without self)
        self.returns = returns
        self.requires = list(requires)
        self.ensures = list(ensures)
        self.raises = list(raises)            # [(ExcName, cond-expr or None)]; [] = raises nothing
        self.loops = loops or {}
        self.modifies = list(modifies)        # heap frame: ['family.field', 'family.field[expr]'] ; '*' = everything
        self.mutates = list(mutates)          # names of container parameters updated in place
        self.inline = inline
        self.props = list(props)
        self.self_type = self_type
        self.ghost = ghost or {}
        self.verify = verify
        self.assume_only = assume_only        # trusted/external: contract assumed, body not verified
        self.yields = yields                  # element type if generator
        self.note = note
        self.cover = cover
        self.vararg_types = vararg_types
        self.canary = canary            # deliberately wrong contract: at least one obligation must be refuted
        self.replay_self = replay_self
        self.emits = emits              # effect trace: list of '(s, p, o)' or '(guard, s, p, o)' spec expressions (None = no trace contract)
        self.axioms_of = list(axioms_of)   # spec functions whose defining axioms are needed to verify this function
        self.bnodes = bnodes            # number of fresh nodes drawn (spec expression)

def contract(qual, **kw):
    c = Contract(qual, **kw)
    CONTRACTS[qual] = c
    return c

class SpecFun:
    def __init__(self, name, argtys, ret, define=None, axioms=(), py=None, argnames=None, rec=False):
        self.name, self.argtys, self.ret = name, list(argtys), ret
        self.define = define      # expression over argnames
        self.axioms = list(axioms)  # closed spec expressions (may mention other spec functions)
        self.py = py
        self.argnames = argnames or ["a%d" % i for i in range(len(argtys))]
        self.rec = rec
        self.z3f = z3.Function(name, *[T.sort_of(t) for t in argtys], T.sort_of(ret)) if define is None or rec else None

def specfun(name, argtys, ret, **kw):
    f = SpecFun(name, argtys, ret, **kw)
    SPECFUNS[name] = f
    return f

class Lemma:
    def __init__(self, name, vars, hyps, goal, props=(), note="", induction=None, canary=False):
        self.name, self.vars, self.hyps, self.goal = name, dict(vars), list(hyps), goal
        self.props, self.note = list(props), note
        self.canary = canary        # deliberately false goal under the same hypotheses: must NOT be provable (guards against contradictory hypotheses)

def lemma(name, vars, hyps, goal, **kw):
    l = Lemma(name, vars, hyps, goal, **kw)
    LEMMAS.append(l)
    return l

def reset():
    SCHEMAS.clear(); CLASS_FAMILY.clear(); CONTRACTS.clear(); SPECFUNS.clear(); del LEMMAS[:]; del CANARIES[:]; TRACE.clear(); EXTCONSTS.clear(); SPEC_TYPES.clear()

def trace_events(tup_ty):
    TRACE["elem"] = tup_ty

def extconst(name, ty):
    import z3 as _z3
    EXTCONSTS[name] = (ty, _z3.Const("ext!" + name.replace(".", "_"), T.sort_of(ty)))

def box(name, ty):
    """A heap cell holding one container that several objects reference (aliasing made explicit)."""
    return schema(name, [], {"val": ty}, box=True)

def spectype(name, ty):
    SPEC_TYPES[name] = ty
    return ty

REGEXES = {}
def regex(name, z3re):
    """named SMT regular expression usable in spec expressions as in_re(s, 'name')"""
    REGEXES[name] = z3re
