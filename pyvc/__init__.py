"""pyvc - a small verification-condition generator for a subset of Python.

It re-reads real function bodies from the repository under verification on every run,
executes them symbolically against sidecar contracts and hands every proof obligation to
SMT solvers (z3 / cvc5).  See /verif/DESIGN.md section 2.
"""
