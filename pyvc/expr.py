"""Expression evaluation (symbolic) for the verified Python subset and for specification expressions."""
import ast, z3
from . import types as T
from . import extract as X
from . import registry as R
from .state import SV, State, VCError, Display, PyFunc, fresh, fresh_sort
from . import extract as X

I = z3.IntVal
def S(s): return z3.StringVal(s)

def str_tree_to_card(t):
    """If-tree whose leaves are cardinality strings -> the same tree over the Card datatype (None if not of that shape)."""
    if z3.is_string_value(t):
        return T.card_str(t.as_string()) if t.as_string() in T.Card.strs else None
    if z3.is_app(t) and t.decl().kind() == z3.Z3_OP_ITE:
        a, b = str_tree_to_card(t.arg(1)), str_tree_to_card(t.arg(2))
        if a is None or b is None: return None
        return z3.If(t.arg(0), a, b)
    return None

def str_tree_to_atom(t, ty):
    if z3.is_string_value(t): return T.atom_const(ty, t.as_string())
    if z3.is_app(t) and t.decl().kind() == z3.Z3_OP_ITE:
        a, b = str_tree_to_atom(t.arg(1), ty), str_tree_to_atom(t.arg(2), ty)
        if a is None or b is None: return None
        return z3.If(t.arg(0), a, b)
    return None

def is_pystr(sv):
    return sv.ty == T.Str and z3.is_string_value(sv.t)

def _seq_replace_all(s, a, b):
    return z3.SeqRef(z3.Z3_mk_seq_replace_all(s.ctx_ref(), s.as_ast(), a.as_ast(), b.as_ast()), s.ctx)

WS = z3.Union(z3.Re(" "), z3.Re("\t"), z3.Re("\n"), z3.Re("\r"), z3.Re("\x0b"), z3.Re("\x0c"))

class ExprMixin:
    # ------------------------------------------------------------------ conversions
    def truth(self, sv):
        ty = sv.ty
        if ty == T.Bool: return sv.t
        if ty == T.Int: return sv.t != 0
        if ty == T.Str: return z3.Length(sv.t) > 0
        if ty == T.NoneT: return z3.BoolVal(False)
        if isinstance(ty, T.List): return T.list_len(ty, sv.t) > 0
        if isinstance(ty, T.Opt):
            inner = self.truth(SV(ty.t, T.opt_val(ty, sv.t)))
            return z3.And(z3.Not(T.opt_is_none(ty, sv.t)), inner)
        if isinstance(ty, T.Obj): return z3.BoolVal(True)
        if ty == Display: return z3.BoolVal(len(sv.t) > 0)
        if ty == T.Real: return sv.t != 0
        raise VCError("truthiness of %s unsupported" % ty)

    def coerce(self, sv, ty, st=None, node=None):
        if sv.ty == ty: return sv
        if isinstance(sv.ty, T.Opt) and not isinstance(ty, T.Opt) and ty != T.NoneT:
            if st is not None and not self.spec:
                self.oblige(st, z3.Not(T.opt_is_none(sv.ty, sv.t)), "None-where-%s-required" % ty, node)
                st.assume(z3.Not(T.opt_is_none(sv.ty, sv.t)))
            elif not self.spec:
                raise VCError("cannot coerce %s to %s" % (sv.ty, ty))
            return self.coerce(SV(sv.ty.t, T.opt_val(sv.ty, sv.t), cls=sv.cls), ty, st, node)
        if isinstance(ty, T.Opt):
            if sv.ty == T.NoneT: return SV(ty, T.opt_none(ty))
            return SV(ty, T.opt_some(ty, self.coerce(sv, ty.t, st, node).t), cls=sv.cls)
        if ty == T.Real and sv.ty == T.Int: return SV(T.Real, z3.ToReal(sv.t))
        if sv.ty == T.Card and ty in (T.Int, T.Str, T.Real):
            want_int = ty != T.Str
            if st is not None and not self.spec:
                self.oblige(st, T.card_is_int(sv.t) if want_int else z3.Not(T.card_is_int(sv.t)), "cardinality-is-%s-here" % ("int" if want_int else "str"), node)
                st.assume(T.card_is_int(sv.t) if want_int else z3.Not(T.card_is_int(sv.t)))
            elif not self.spec: raise VCError("cannot coerce %s to %s" % (sv.ty, ty))
            if want_int: return self.coerce(SV(T.Int, T.card_n(sv.t)), ty)
            return self.to_str(st, sv)
        if ty == T.Card:
            if sv.ty == T.Int: return SV(ty, T.card_int(sv.t))
            if is_pystr(sv) and sv.t.as_string() in T.Card.strs: return SV(ty, T.card_str(sv.t.as_string()))
            if sv.ty == T.Str and str_tree_to_card(sv.t) is not None:
                return SV(ty, str_tree_to_card(sv.t))
            if sv.ty == T.Str and self.spec:
                r = T.card_str(T.Card.strs[-1])
                for s_ in T.Card.strs[:-1][::-1]: r = z3.If(sv.t == S(s_), T.card_str(s_), r)
                return SV(ty, r)
        if isinstance(ty, T.Atom) and is_pystr(sv):
            return SV(ty, T.atom_const(ty, sv.t.as_string()))
        if isinstance(ty, T.Atom) and sv.ty == T.Str and str_tree_to_atom(sv.t, ty) is not None:
            return SV(ty, str_tree_to_atom(sv.t, ty))
        if isinstance(ty, T.List) and sv.ty == Display:
            arr = fresh_sort("elems", z3.ArraySort(z3.IntSort(), T.sort_of(ty.t)))
            elems = []
            for i, e in enumerate(sv.t):
                elems.append(self.coerce(e, ty.t).t)
                arr = z3.Store(arr, i, elems[-1])
            v = T.list_mk(ty, I(len(sv.t)), arr)
            if ty.t == T.Str:     # "".join of a display is the concatenation of its elements
                self.pending_facts.append(self.joined(v) == (S("") if not elems else (elems[0] if len(elems) == 1 else z3.Concat(*elems))))
            return SV(ty, v)
        if isinstance(ty, T.Set) and sv.ty == Display:
            s = z3.K(T.sort_of(ty.k), z3.BoolVal(False))
            for e in sv.t: s = z3.Store(s, self.coerce(e, ty.k).t, z3.BoolVal(True))
            return SV(ty, s)
        if isinstance(ty, T.Tup) and sv.ty == Display and len(sv.t) == len(ty.ts):
            return SV(ty, T.tup_mk(ty, *[self.coerce(e, t).t for e, t in zip(sv.t, ty.ts)]))
        if isinstance(ty, T.Dict) and sv.ty == Display and len(sv.t) == 0:
            return self.empty(ty)
        if isinstance(ty, T.Obj) and isinstance(sv.ty, T.Obj) and ty.family == sv.ty.family: return sv
        raise VCError("cannot coerce %s to %s" % (sv.ty, ty))

    def default(self, ty):
        if ty == T.Int: return I(0)
        if ty == T.Bool: return z3.BoolVal(False)
        if ty == T.Real: return z3.RealVal(0)
        if ty == T.Str: return S("")
        return fresh_sort("dflt", T.sort_of(ty))

    def empty(self, ty):
        if isinstance(ty, T.List):
            v = T.list_mk(ty, I(0), fresh_sort("noelems", z3.ArraySort(z3.IntSort(), T.sort_of(ty.t))))
            if ty.t == T.Str: self.pending_facts.append(self.joined(v) == S(""))      # "".join([]) == ""
            return SV(ty, v)
        if isinstance(ty, T.Dict):
            return SV(ty, T.dict_mk(ty, z3.K(T.sort_of(ty.k), z3.BoolVal(False)), fresh_sort("novals", z3.ArraySort(T.sort_of(ty.k), T.sort_of(ty.v)))))
        if isinstance(ty, T.Set):
            return SV(ty, z3.K(T.sort_of(ty.k), z3.BoolVal(False)))
        raise VCError("no empty value for %s" % ty)

    # ------------------------------------------------------------------ equality
    def eq_inline(self, st, a, b):
        """a == b through the class's own __eq__, inlined from the real source for each possible dynamic class of a."""
        if st is None: raise VCError("object == needs a state")
        alts = []
        self.quiet += 1
        try:
            for cq, cond in self.classes_of(st, a):
                m, c = cq.split(":")
                meth = X.find_method(m, c, "__eq__")
                if meth is None:
                    alts.append(z3.And(cond, a.t == b.t)); continue
                s0 = st.fork(); s0.assume(cond); s0.exc_sink = []
                base = len(s0.pc)
                for s1, v in self.call_user(s0, "%s:%s.__eq__" % (meth[0], meth[1]), SV(a.ty, a.t, cls=cq), [b], {}, None):
                    alts.append(z3.And([cond] + s1.pc[base:] + [self.truth(v)]))
        finally:
            self.quiet -= 1
        return z3.Or(alts + [z3.BoolVal(False)])

    def eq_types(self, st, a, b):
        ka, kb = a.t, b.t
        def tag(k):
            x = k[1]
            if isinstance(x.ty, T.Obj): return ("obj", x.ty.family, self.hread(st, x.ty.family, "__class__", x.t))
            return ("static", x.ty)
        if ka[0] == "typeof" and kb[0] == "typeof":
            ta, tb = tag(ka), tag(kb)
            if ta[0] == "obj" and tb[0] == "obj":
                return (ta[2] == tb[2]) if ta[1] == tb[1] else z3.BoolVal(False)
            if ta[0] == "static" and tb[0] == "static": return z3.BoolVal(ta[1] == tb[1])
            return z3.BoolVal(False)
        t, o = (ka, kb) if ka[0] == "typeof" else (kb, ka)
        if t[0] != "typeof": raise VCError("comparison of function values")
        x = t[1]
        if o[0] == "class":
            if not isinstance(x.ty, T.Obj): return z3.BoolVal(False)
            sch = R.SCHEMAS[x.ty.family]
            if o[1] not in sch.classes: return z3.BoolVal(False)
            return self.hread(st, x.ty.family, "__class__", x.t) == sch.classes.index(o[1])
        if o[0] == "pytype":
            py = {"str": T.Str, "int": T.Int, "float": T.Real, "bool": T.Bool, "list": None}.get(o[1])
            if x.ty == T.Card: return T.card_is_int(x.t) if o[1] == "int" else (z3.Not(T.card_is_int(x.t)) if o[1] == "str" else z3.BoolVal(False))
            if isinstance(x.ty, T.Opt): return z3.And(z3.Not(T.opt_is_none(x.ty, x.t)), z3.BoolVal(x.ty.t == py))
            if o[1] == "str" and isinstance(x.ty, T.Atom): return z3.BoolVal(True)
            if o[1] == "list": return z3.BoolVal(isinstance(x.ty, T.List))
            return z3.BoolVal(x.ty == py)
        raise VCError("type comparison with %s" % (o,))

    def eq(self, a, b, st=None):
        """Python == as a z3 Bool."""
        if a.ty == PyFunc and b.ty == PyFunc: return self.eq_types(st, a, b)
        if a.ty == Display or b.ty == Display:
            if a.ty == Display and b.ty == Display:
                if len(a.t) != len(b.t): return z3.BoolVal(False)
                return z3.And([self.eq(x, y, st) for x, y in zip(a.t, b.t)] + [z3.BoolVal(True)])
            d, o = (a, b) if a.ty == Display else (b, a)
            return self.eq(self.coerce(d, o.ty), o, st)
        if a.ty == T.NoneT and b.ty == T.NoneT: return z3.BoolVal(True)
        if isinstance(a.ty, T.Opt) or isinstance(b.ty, T.Opt):
            o, x = (a, b) if isinstance(a.ty, T.Opt) else (b, a)
            if x.ty == T.NoneT: return T.opt_is_none(o.ty, o.t)
            if isinstance(x.ty, T.Opt):
                if x.ty == o.ty and not isinstance(o.ty.t, T.Obj): return o.t == x.t
                return z3.Or(z3.And(T.opt_is_none(o.ty, o.t), T.opt_is_none(x.ty, x.t)),
                             z3.And(z3.Not(T.opt_is_none(o.ty, o.t)), z3.Not(T.opt_is_none(x.ty, x.t)),
                                    self.eq(SV(o.ty.t, T.opt_val(o.ty, o.t)), SV(x.ty.t, T.opt_val(x.ty, x.t)), st)))
            return z3.And(z3.Not(T.opt_is_none(o.ty, o.t)), self.eq(SV(o.ty.t, T.opt_val(o.ty, o.t)), x, st))
        if a.ty == T.NoneT or b.ty == T.NoneT: return z3.BoolVal(False)
        if a.ty == T.Card or b.ty == T.Card:
            c, x = (a, b) if a.ty == T.Card else (b, a)
            if x.ty == T.Card: return c.t == x.t
            if x.ty == T.Int: return z3.And(T.card_is_int(c.t), T.card_n(c.t) == x.t)
            if is_pystr(x):
                s = x.t.as_string()
                return T.card_is_str(c.t, s) if s in T.Card.strs else z3.BoolVal(False)
            if x.ty == T.Str:
                conv = str_tree_to_card(x.t)
                if conv is not None: return c.t == conv
                return z3.And(z3.Not(T.card_is_int(c.t)), self.to_str(st, c).t == x.t)
            raise VCError("Card compared with %s" % x.ty)
        if isinstance(a.ty, T.Atom) or isinstance(b.ty, T.Atom):
            at, x = (a, b) if isinstance(a.ty, T.Atom) else (b, a)
            return at.t == self.coerce(x, at.ty).t
        if isinstance(a.ty, T.Obj) and isinstance(b.ty, T.Obj):
            if a.ty.family != b.ty.family: return z3.BoolVal(False)
            sch = R.SCHEMAS[a.ty.family]
            if sch.eq_inline: return self.eq_inline(st, a, b)
            if sch.eq_fields is None: return a.t == b.t
            if st is None: raise VCError("object == needs a state")
            conj = [self.hread(st, a.ty.family, "__class__", a.t) == self.hread(st, a.ty.family, "__class__", b.t)]
            for f in sch.eq_fields:
                conj.append(self.hread(st, a.ty.family, f, a.t) == self.hread(st, a.ty.family, f, b.t))
            return z3.And(conj)
        if a.ty == b.ty:
            if isinstance(a.ty, (T.List, T.Dict)) and not self.spec: raise VCError("== on containers unsupported; use spec helpers")
            return a.t == b.t
        num = (T.Int, T.Real)
        if a.ty in num and b.ty in num:
            return self.coerce(a, T.Real).t == self.coerce(b, T.Real).t
        if isinstance(a.ty, T.Obj) or isinstance(b.ty, T.Obj): return z3.BoolVal(False)
        prim = (T.Int, T.Real, T.Str, T.Bool)
        if a.ty in prim and b.ty in prim: return z3.BoolVal(False)
        raise VCError("== between %s and %s unsupported" % (a.ty, b.ty))

    # ------------------------------------------------------------------ heap
    def harr(self, st, family, field):
        k = (family, field)
        if k not in st.heap:
            sch = R.SCHEMAS[family]
            if sch.fields.get(field) == "ignored": raise VCError("heap access to ignored field %s" % field)
            srt = z3.IntSort() if field == "__class__" else T.sort_of(sch.fields[field])
            st.heap[k] = z3.Const("H0_%s_%s" % (family, field), z3.ArraySort(T.Ref, srt))
        return st.heap[k]
    def hread(self, st, family, field, ref):
        return z3.Select(self.harr(st, family, field), ref)
    def hwrite(self, st, family, field, ref, val):
        st.heap[(family, field)] = z3.Store(self.harr(st, family, field), ref, val)

    def assume_wf(self, st, sv):
        """Well-formedness facts that hold for every value read from the heap / parameters."""
        ty = sv.ty
        if isinstance(ty, T.Obj):
            st.assume(z3.And(sv.t >= 1, sv.t < st.alloc))
            sch = R.SCHEMAS[ty.family]
            c = self.hread(st, ty.family, "__class__", sv.t)
            if sch.classes: st.assume(z3.And(c >= 0, c < len(sch.classes)))
            if sch.invariant and not getattr(self, "_in_inv", False):
                self._in_inv = True
                try:
                    tmp = st.fork(); tmp.env = {"self": SV(ty, sv.t)}
                    for inv in sch.invariant:
                        st.assume(self.spec_eval(inv, tmp, None))
                    self.note_assumption("object invariant of %s assumed for every object read: %s" % (ty.family, "; ".join(sch.invariant)))
                finally:
                    self._in_inv = False
        elif isinstance(ty, T.List):
            st.assume(T.list_len(ty, sv.t) >= 0)
        elif isinstance(ty, T.Opt) and isinstance(ty.t, (T.Obj, T.List)):
            inner = SV(ty.t, T.opt_val(ty, sv.t))
            tmp = State(); tmp.heap = st.heap; tmp.alloc = st.alloc
            self.assume_wf(tmp, inner)
            for f in tmp.pc: st.assume(z3.Implies(z3.Not(T.opt_is_none(ty, sv.t)), f))
        elif ty == T.Card:
            st.assume(z3.Implies(T.card_is_int(sv.t), T.card_n(sv.t) >= 1)) if self.card_positive else None

    # ------------------------------------------------------------------ strings
    def str_index(self, st, s, i, node):
        n = z3.Length(s)
        self.oblige(st, z3.And(i >= -n, i < n), "index-in-range", node)
        return z3.SubString(s, z3.If(i < 0, i + n, i), 1)

    def norm_slice(self, n, lo, hi):
        lo2 = I(0) if lo is None else z3.If(lo < 0, z3.If(lo + n < 0, I(0), lo + n), z3.If(lo > n, n, lo))
        hi2 = n if hi is None else z3.If(hi < 0, z3.If(hi + n < 0, I(0), hi + n), z3.If(hi > n, n, hi))
        return lo2, z3.If(hi2 - lo2 < 0, I(0), hi2 - lo2)

    def rfind(self, st, s, sub):
        if not z3.is_string_value(sub) or len(sub.as_string()) == 0:
            raise VCError("rfind with non-constant or empty needle")
        r = fresh("rfind", T.Int); m = I(len(sub.as_string())); n = z3.Length(s)
        st.assume(z3.Or(z3.And(r == -1, z3.Not(z3.Contains(s, sub))),
                        z3.And(r >= 0, r + m <= n, z3.SubString(s, r, m) == sub,
                               z3.Not(z3.Contains(z3.SubString(s, r + 1, n - r - 1), sub)))))
        # the same fact as a decomposition  s = before ++ sub ++ after  (easier for the string solvers than substring arithmetic)
        before = fresh("rfind_pre", T.Str); after = fresh("rfind_post", T.Str)
        st.assume(z3.Implies(r >= 0, z3.And(s == z3.Concat(before, sub, after), z3.Length(before) == r,
                                            z3.Not(z3.Contains(z3.Concat(z3.SubString(sub, 1, m - 1), after), sub)),
                                            z3.SubString(s, r + m, n - r - m) == after)))
        return r

    def strip(self, st, s):
        r = fresh("strip", T.Str); a = fresh("stripL", T.Str); b = fresh("stripR", T.Str)
        ws1 = z3.Union(z3.Re(" "), z3.Re("\t"), z3.Re("\n"), z3.Re("\r"))
        st.assume(s == z3.Concat(a, r, b))
        st.assume(z3.InRe(a, z3.Star(ws1))); st.assume(z3.InRe(b, z3.Star(ws1)))
        st.assume(z3.Or(r == S(""), z3.And(z3.Not(z3.InRe(z3.SubString(r, 0, 1), ws1)),
                                            z3.Not(z3.InRe(z3.SubString(r, z3.Length(r) - 1, 1), ws1)))))
        st.assume((r == S("")) == z3.InRe(s, z3.Star(ws1)))      # consequence of the three facts above, stated for the solvers
        self.note_assumption("str.strip() strips only space, tab, CR, LF (other Unicode whitespace assumed absent)")
        return r

    LINE_BREAKS = ["\n", "\r", "\x0b", "\x0c", "\x1c", "\x1d", "\x1e", "\x85", "\u2028", "\u2029"]
    def py_split(self, st, s, sep):
        """s.split(sep) for a constant non-empty sep / s.splitlines(): an uninterpreted function of s per separator, with the facts
        'no piece contains a separator', 'a string without separator is its own single piece' (split), 'at least one piece' (split)."""
        lt = T.List(T.Str)
        tag = "lines" if sep is None else "_".join("%x" % ord(c) for c in sep)
        f = z3.Function("py_split_" + tag, z3.StringSort(), T.sort_of(lt))
        r = f(s); n = T.list_len(lt, r); arr = T.list_arr(lt, r)
        j = z3.Int("j!split")
        seps = self.LINE_BREAKS if sep is None else [sep]
        st.assume(n >= (0 if sep is None else 1))
        st.assume(z3.ForAll([j], z3.Implies(z3.And(j >= 0, j < n), z3.And([z3.Not(z3.Contains(arr[j], S(x))) for x in seps])), patterns=[arr[j]]))
        if sep is not None:
            st.assume(z3.Implies(z3.Not(z3.Contains(s, S(sep))), z3.And(n == 1, arr[0] == s)))
        return SV(lt, r)

    def str_method(self, st, recv, name, args, node):
        s = recv.t
        def a(i, ty=T.Str): return self.coerce(args[i], ty, st, node).t
        if name == "startswith": return SV(T.Bool, z3.PrefixOf(a(0), s))
        if name == "endswith": return SV(T.Bool, z3.SuffixOf(a(0), s))
        if name == "find":
            start = a(1, T.Int) if len(args) > 1 else I(0)
            return SV(T.Int, z3.IndexOf(s, a(0), start))
        if name == "rfind": return SV(T.Int, self.rfind(st, s, a(0)))
        if name == "replace": return SV(T.Str, _seq_replace_all(s, a(0), a(1)))
        if name == "strip" and not args: return SV(T.Str, self.strip(st, s))
        if name == "split" and len(args) == 1 and is_pystr(args[0]) and len(args[0].t.as_string()) > 0:
            return self.py_split(st, s, args[0].t.as_string())
        if name == "splitlines" and not args:
            return self.py_split(st, s, None)
        if name == "count" and is_pystr(recv): return SV(T.Int, I(recv.t.as_string().count(args[0].t.as_string())))
        if name == "isnumeric":
            f = z3.Function("py_isnumeric", z3.StringSort(), z3.BoolSort())
            st.assume(z3.Implies(z3.InRe(s, z3.Plus(z3.Range("0", "9"))), f(s)))
            st.assume(z3.Implies(z3.And(z3.Length(s) == 1, z3.StrToCode(s) < 128, z3.Not(z3.InRe(s, z3.Range("0", "9")))), z3.Not(f(s))))
            self.note_assumption("str.isnumeric: true on ASCII digit strings, false on other single ASCII characters, unspecified elsewhere")
            return SV(T.Bool, f(s))
        if name == "upper":
            f = z3.Function("py_upper", z3.StringSort(), z3.StringSort())
            return SV(T.Str, f(s))
        if name == "format":
            if not is_pystr(recv): raise VCError("format on non-constant string")
            parts = recv.t.as_string().split("{}")
            if len(parts) != len(args) + 1: raise VCError("format arity/unsupported spec: %r" % recv.t.as_string())
            out = [S(parts[0])]
            for p, x in zip(parts[1:], args):
                out.append(self.to_str(st, x).t); out.append(S(p))
            return SV(T.Str, z3.Concat(*out) if len(out) > 1 else out[0])
        if name == "join" and args and args[0].ty == T.List(T.Str) and is_pystr(recv) and recv.t.as_string() == "":
            return SV(T.Str, self.joined(args[0].t))
        if name == "join" and args and args[0].ty == Display:
            items = [self.coerce(x, T.Str).t for x in args[0].t]
            out = []
            for i, it in enumerate(items):
                if i: out.append(s)
                out.append(it)
            return SV(T.Str, z3.Concat(*out) if len(out) > 1 else (out[0] if out else S("")))
        raise VCError("str method %s unsupported" % name)

    def to_str(self, st, x):
        if x.ty == T.Str: return x
        if x.ty == T.Int:
            return SV(T.Str, z3.If(x.t >= 0, z3.IntToStr(x.t), z3.Concat(S("-"), z3.IntToStr(-x.t))))
        if x.ty == T.Card:
            r = z3.If(T.card_is_int(x.t), self.to_str(st, SV(T.Int, T.card_n(x.t))).t, S("?"))
            for s_ in T.Card.strs[::-1]:
                r = z3.If(T.card_is_str(x.t, s_), S(s_), r)
            return SV(T.Str, r)
        if x.ty == T.Real:
            f = z3.Function("py_str_float", z3.RealSort(), z3.StringSort())
            self.note_assumption("str(float) is an uninterpreted function of the (real-valued) number")
            return SV(T.Str, f(x.t))
        if x.ty == T.NoneT: return SV(T.Str, S("None"))
        if isinstance(x.ty, T.Obj):
            return self.call_method(st, x, "__str__", [], {}, None)
        raise VCError("str() of %s" % x.ty)
