"""Static types of the verified subset and their z3 sorts."""
import z3

class Ty:
    def __eq__(self, o): return type(self) is type(o) and self.key() == o.key()
    def __hash__(self): return hash((type(self).__name__, self.key()))
    def key(self): return ()
    def __repr__(self): return self.name()

class _Prim(Ty):
    def __init__(self, n): self._n = n
    def key(self): return self._n
    def name(self): return self._n

Int = _Prim("Int"); Bool = _Prim("Bool"); Real = _Prim("Real"); Str = _Prim("Str"); NoneT = _Prim("None")

class Atom(Ty):
    """Opaque string: only ==, !=, hashing and declared predicates; string constants map to distinct constants."""
    def __init__(self, n="Atom"): self._n = n
    def key(self): return self._n
    def name(self): return self._n

class Opt(Ty):
    def __init__(self, t): self.t = t
    def key(self): return self.t
    def name(self): return "Opt_%s" % self.t.name()

class Tup(Ty):
    def __init__(self, *ts): self.ts = tuple(ts)
    def key(self): return self.ts
    def name(self): return "Tup_" + "_".join(t.name() for t in self.ts)

class Rec(Tup):
    """Fixed-length heterogeneous *list* used as a mutable record ([a, b, c]; item assignment allowed)."""
    def name(self): return "Rec_" + "_".join(t.name() for t in self.ts)

class List(Ty):
    def __init__(self, t): self.t = t
    def key(self): return self.t
    def name(self): return "List_%s" % self.t.name()

class Dict(Ty):
    def __init__(self, k, v): self.k, self.v = k, v
    def key(self): return (self.k, self.v)
    def name(self): return "Dict_%s_%s" % (self.k.name(), self.v.name())

class Set(Ty):
    def __init__(self, k): self.k = k
    def key(self): return self.k
    def name(self): return "Set_%s" % self.k.name()

class Obj(Ty):
    """Reference to a heap object whose fields are described by schema `family`."""
    def __init__(self, family): self.family = family
    def key(self): return self.family
    def name(self): return "Ref_%s" % self.family

class IntOrStr(Ty):
    """Python value that is either an int or one of a few known one-character strings (sheXer cardinalities)."""
    def __init__(self, strs=("+", "*", "?")): self.strs = tuple(strs)
    def key(self): return self.strs
    def name(self): return "Card"

Card = IntOrStr()
Ref = z3.IntSort()          # references are integers below the allocation counter

_sort_cache = {}
_atom_consts = {}           # (atomname, python string) -> z3 const

def sort_of(t):
    if t in _sort_cache: return _sort_cache[t]
    s = _mk_sort(t)
    _sort_cache[t] = s
    return s

def _mk_sort(t):
    if t == Int: return z3.IntSort()
    if t == Bool: return z3.BoolSort()
    if t == Real: return z3.RealSort()
    if t == Str: return z3.StringSort()
    if t == NoneT: return z3.BoolSort()          # a unit-ish value; never inspected
    if isinstance(t, Atom): return z3.DeclareSort(t.name())
    if isinstance(t, Obj): return Ref
    if isinstance(t, Set): return z3.ArraySort(sort_of(t.k), z3.BoolSort())
    if isinstance(t, Opt):
        d = z3.Datatype(t.name()); d.declare("none_" + t.name()); d.declare("some_" + t.name(), ("val_" + t.name(), sort_of(t.t)))
        return d.create()
    if isinstance(t, Tup):
        d = z3.Datatype(t.name())
        d.declare("mk_" + t.name(), *[("f%d_%s" % (i, t.name()), sort_of(x)) for i, x in enumerate(t.ts)])
        return d.create()
    if isinstance(t, List):
        d = z3.Datatype(t.name())
        d.declare("mk_" + t.name(), ("len_" + t.name(), z3.IntSort()), ("arr_" + t.name(), z3.ArraySort(z3.IntSort(), sort_of(t.t))))
        return d.create()
    if isinstance(t, Dict):
        d = z3.Datatype(t.name())
        d.declare("mk_" + t.name(), ("dom_" + t.name(), z3.ArraySort(sort_of(t.k), z3.BoolSort())),
                  ("map_" + t.name(), z3.ArraySort(sort_of(t.k), sort_of(t.v))))
        return d.create()
    if isinstance(t, IntOrStr):
        d = z3.Datatype(t.name())
        d.declare("card_int", ("card_n", z3.IntSort()))
        for i, s in enumerate(t.strs):
            d.declare("card_s%d" % i)
        return d.create()
    raise TypeError("no sort for %r" % (t,))

def atom_const(t, pystr):
    k = (t.name(), pystr)
    if k not in _atom_consts:
        _atom_consts[k] = z3.Const("%s!%s" % (t.name(), _san(pystr)), sort_of(t))
    return _atom_consts[k]

def atom_consts_of(t):
    return [(s, c) for (n, s), c in _atom_consts.items() if n == t.name()]

def _san(s):
    return "".join(ch if ch.isalnum() else "_%02x" % ord(ch) for ch in s)[:40]

# ---- accessors -------------------------------------------------------------------------------
def opt_none(t): return sort_of(t).constructor(0)()
def opt_some(t, v): return sort_of(t).constructor(1)(v)
def opt_is_none(t, x): return sort_of(t).recognizer(0)(x)
def opt_val(t, x): return sort_of(t).accessor(1, 0)(x)

def tup_mk(t, *vs): return sort_of(t).constructor(0)(*vs)
def tup_get(t, x, i): return sort_of(t).accessor(0, i)(x)

def list_mk(t, n, arr): return sort_of(t).constructor(0)(n, arr)
def list_len(t, x): return sort_of(t).accessor(0, 0)(x)
def list_arr(t, x): return sort_of(t).accessor(0, 1)(x)

def dict_mk(t, dom, mp): return sort_of(t).constructor(0)(dom, mp)
def dict_dom(t, x): return sort_of(t).accessor(0, 0)(x)
def dict_map(t, x): return sort_of(t).accessor(0, 1)(x)

def card_int(n): return sort_of(Card).constructor(0)(n)
def card_is_int(x): return sort_of(Card).recognizer(0)(x)
def card_n(x): return sort_of(Card).accessor(0, 0)(x)
def card_str(s):
    return sort_of(Card).constructor(1 + Card.strs.index(s))()
def card_is_str(x, s): return sort_of(Card).recognizer(1 + Card.strs.index(s))(x)
