"""Back ends: every obligation becomes a self-contained SMT-LIB file sent to z3 / cvc5 command-line solvers."""
import os, re, subprocess, tempfile, time, hashlib, json, shutil
from concurrent.futures import ThreadPoolExecutor
import z3

Z3_NEW = shutil.which("z3-new") or "/usr/local/bin/z3-new"
Z3_OLD = "/usr/bin/z3"
CVC5 = "/usr/bin/cvc5"

def smt_text(ob):
    s = z3.Solver()
    for a in ob.assumptions: s.add(a)
    from . import types as _T
    by = {}
    for (n, py), c in _T._atom_consts.items(): by.setdefault(n, []).append(c)
    for n, cs in by.items():
        if len(cs) > 1: s.add(z3.Distinct(*cs))      # different Python strings are different atoms
    s.add(z3.Not(ob.goal))
    txt = s.to_smt2()
    txt = txt.replace("(check-sat)", "")
    names = []
    for n, sv in sorted(ob.inputs.items()):
        t = sv.t
        if isinstance(t, list): continue
        try:
            names.append((n, t.sexpr()))
        except Exception:
            pass
    gv = ""
    if names:
        gv = "(get-value (%s))\n" % " ".join(x for _, x in names)
    return "(set-logic ALL)\n(set-option :produce-models true)\n" + txt + "(check-sat)\n" + gv, names

def uses_strings(txt):
    return " String" in txt or "(str." in txt or "(re." in txt

def _run(cmd, path, timeout):
    t0 = time.time()
    try:
        p = subprocess.run(cmd + [path], capture_output=True, text=True, timeout=timeout + 5)
        out = p.stdout.strip()
    except subprocess.TimeoutExpired:
        return "timeout", "", time.time() - t0
    first = out.split("\n", 1)[0].strip() if out else ""
    if first == "timeout": return "timeout", out[:200], time.time() - t0
    if first not in ("sat", "unsat", "unknown") and ("timeout" in out.lower() or "interrupted" in (out + p.stderr).lower()):
        return "timeout", (out + p.stderr)[:200], time.time() - t0
    if first not in ("sat", "unsat", "unknown"):
        if "unsat" == first: pass
        return "error", (out + "\n" + p.stderr)[:2000], time.time() - t0
    return first, out, time.time() - t0

def solver_cmds(txt, timeout):
    """Portfolio for one obligation; `timeout` is the TOTAL budget, split among the configurations."""
    def z3c(name, exe, secs, *opts): return (name, [exe, "-T:%d" % max(2, int(secs))] + list(opts) + ["-smt2"], secs)
    def cvc(name, secs, *opts): return (name, [CVC5, "--lang=smt2", "--tlimit=%d" % int(max(2, secs) * 1000), "--produce-models"] + list(opts), secs)
    zv = _z3_version()
    if uses_strings(txt) and ("forall" in txt or "exists" in txt):
        return [cvc("cvc5-1.0.3", timeout * 0.2, "--strings-exp"), z3c("z3-%s(e-matching)" % zv, Z3_NEW, timeout * 0.1, "smt.mbqi=false"),
                cvc("cvc5-1.0.3(enum-inst)", timeout * 0.4, "--strings-exp", "--enum-inst"), z3c("z3-%s" % zv, Z3_NEW, timeout * 0.3)]
    if uses_strings(txt):
        return [cvc("cvc5-1.0.3", timeout * 0.5, "--strings-exp"), z3c("z3-%s(e-matching)" % zv, Z3_NEW, timeout * 0.15, "smt.mbqi=false"),
                z3c("z3-%s" % zv, Z3_NEW, timeout * 0.35)]
    if "forall" in txt or "exists" in txt:
        # pure E-matching first (stable for unsat proofs with quantifiers), then enumerative instantiation, then complete configurations
        return [z3c("z3-%s(e-matching)" % zv, Z3_NEW, timeout * 0.15, "smt.mbqi=false"), cvc("cvc5-1.0.3(enum-inst)", timeout * 0.25, "--enum-inst"),
                z3c("z3-%s" % zv, Z3_NEW, timeout * 0.4), z3c("z3-4.8.12", Z3_OLD, timeout * 0.2)]
    return [z3c("z3-%s" % zv, Z3_NEW, timeout * 0.5), cvc("cvc5-1.0.3", timeout * 0.3), z3c("z3-4.8.12", Z3_OLD, timeout * 0.2)]

_zv = None
def _z3_version():
    global _zv
    if _zv is None:
        try: _zv = subprocess.run([Z3_NEW, "--version"], capture_output=True, text=True).stdout.split()[2]
        except Exception: _zv = "new"
    return _zv

class Result:
    def __init__(self, ob, status, solver, secs, model=None, raw="", smt_path=None, attempts=None):
        self.ob, self.status, self.solver, self.secs, self.model, self.raw = ob, status, solver, secs, model, raw
        self.smt_path = smt_path
        self.attempts = attempts or []

def parse_values(out, names):
    """Parse '(get-value ...)' output for scalar inputs: ((term value) ...)."""
    body = out.split("\n", 1)[1] if "\n" in out else ""
    vals = {}
    toks = _sexp(body)
    if not toks: return vals
    try:
        pairs = toks[0]
        for (n, _), pair in zip(names, pairs):
            vals[n] = _pyval(pair[1])
    except Exception:
        pass
    return vals

def _sexp(s):
    tokens = re.findall(r'"(?:[^"]|"")*"|\(|\)|[^\s()]+', s)
    def parse(i):
        out = []
        while i < len(tokens):
            t = tokens[i]
            if t == "(":
                sub, i = parse(i + 1); out.append(sub)
            elif t == ")":
                return out, i + 1
            else:
                out.append(t); i += 1
        return out, i
    return parse(0)[0]

def _unescape(s):
    s = s[1:-1].replace('""', '"')
    def rep(m):
        return chr(int(m.group(1) or m.group(2), 16))
    return re.sub(r"\\u\{([0-9a-fA-F]+)\}|\\u([0-9a-fA-F]{4})", rep, s)

def _pyval(v):
    if isinstance(v, str):
        if v.startswith('"'): return _unescape(v)
        if v == "true": return True
        if v == "false": return False
        if re.fullmatch(r"-?\d+", v): return int(v)
        if re.fullmatch(r"-?\d+\.\d+", v): return float(v)
        return v
    if isinstance(v, list):
        if len(v) == 2 and v[0] == "-":
            x = _pyval(v[1]); return -x if isinstance(x, (int, float)) else ["-", x]
        if len(v) == 3 and v[0] == "/":
            a, b = _pyval(v[1]), _pyval(v[2])
            try: return a / b
            except Exception: return v
        return [_pyval(x) for x in v]
    return v

def solve_one(job, timeout, workdir):
    ob, txt, names = job
    h = hashlib.sha256(txt.encode()).hexdigest()[:16]
    path = os.path.join(workdir, "%s.smt2" % h)
    if os.environ.get("PYVC_KEEP"):
        with open(os.path.join(workdir, "index.txt"), "a") as f: f.write("%s %s\n" % (h, ob.name))
    with open(path, "w") as f: f.write(txt)
    attempts = []
    want = ob.expect
    t_all = 0.0
    cmds = solver_cmds(txt, timeout)
    if want == "sat":      # cover / vacuity query: only 'unsat' matters, keep it cheap
        timeout = min(timeout, 16); cmds = [c for c in solver_cmds(txt, timeout) if "e-matching" not in c[0]][:2]
    for sname, cmd, budget in cmds:
        status, out, secs = _run(cmd, path, budget)
        t_all += secs
        attempts.append((sname, status, round(secs, 3)))
        if status == "unsat":
            return Result(ob, "unsat", sname, t_all, raw=out, smt_path=path, attempts=attempts)
        if status == "sat" and "e-matching" in sname:
            continue      # without model-based instantiation a 'sat' is not trusted; ask the complete configuration
        if status == "sat":
            return Result(ob, "sat", sname, t_all, model=parse_values(out, names), raw=out[:4000], smt_path=path, attempts=attempts)
    gaveup = any(st_ == "unknown" for _, st_, secs in attempts)
    return Result(ob, "gaveup" if gaveup else "timeout", "/".join(a[0] for a in attempts), t_all, raw=str(attempts), smt_path=path, attempts=attempts)

def solve_all(obs, timeout=60, jobs=None, workdir=None):
    jobs = jobs or max(2, (os.cpu_count() or 4) - 2)
    if workdir is None and os.environ.get("PYVC_KEEP"):
        workdir = os.environ["PYVC_KEEP"]; os.makedirs(workdir, exist_ok=True)
    own = workdir is None
    workdir = workdir or tempfile.mkdtemp(prefix="pyvc_smt_")
    try:
        prepared = [(ob,) + smt_text(ob) for ob in obs]     # z3py is not thread-safe: text is produced serially
        with ThreadPoolExecutor(max_workers=jobs) as ex:
            results = list(ex.map(lambda job: solve_one(job, timeout, workdir), prepared))
        for r in results:
            # keep the text of anything that is not discharged as expected
            r.smt_text = None
            if (r.ob.expect == "unsat" and r.status != "unsat") or (r.ob.expect == "sat" and r.status != "sat"):
                try:
                    with open(r.smt_path) as f: r.smt_text = f.read()
                except Exception: pass
        return results
    finally:
        if own: shutil.rmtree(workdir, ignore_errors=True)
