#!/bin/sh
# Runs every claimed check once (quick tier) and prints exit code and wall time per property.
cd "$(dirname "$0")"
for p in $(./.venv/bin/python -c "import props; print(' '.join(sorted(props.PROPS)))"); do
  s=$(date +%s); ./check $p --tier quick > /tmp/run_all_$p.log 2>&1; c=$?; e=$(date +%s)
  echo "$p exit=$c $((e-s))s $(tail -1 /tmp/run_all_$p.log | cut -c1-150)"
done
