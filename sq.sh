#!/bin/sh
# quick seeded-change probe: sq.sh <change-dir> <pid> [extra ./check args]   (no test run, no demo)
d=$1; pid=$2; shift 2
wt=/tmp/sq_$$
git -C /repo worktree add -q $wt HEAD || exit 9
git -C $wt apply $d/patch.diff || { git -C /repo worktree remove --force $wt; exit 9; }
cd /verif && VERIF_REPO=$wt ./check $pid --tier quick "$@" | grep -v "^ok" | cut -c1-400 | tail -25
echo "exit=$?"
git -C /repo worktree remove --force $wt
