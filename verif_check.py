#!/usr/bin/env python
"""./check <ID> [--tier quick|thorough] [--replay file]

Decides one property of /verif/properties.jsonl for the tree at $VERIF_REPO (default /repo):
  1. deductive obligations generated from the real source against the sidecar contracts (pyvc), discharged by z3/cvc5;
  2. must-fail canaries and cover (vacuity) queries;
  3. bounded stand-ins / run-time contract monitors registered for the property (labelled bounded, never counted as proved);
  4. known-findings filtering; evidence; exit code.
Exit: 0 held / only known findings; 1 violation (VIOLATION line); 2 undecided; 3 checker error."""
import sys, os, json, time, importlib, argparse, traceback, hashlib, re

HERE = os.path.dirname(os.path.abspath(__file__))
sys.path.insert(0, HERE)
REPO = os.environ.get("VERIF_REPO", "/repo")
sys.path.insert(0, REPO)

from pyvc.engine import Executor
from pyvc import registry as R, solve, replay as RP, extract as X, objreplay as OR
from pyvc.state import VCError, Obligation
import z3
import props as PROPS

def load_known():
    p = os.path.join(HERE, "known_findings.json")
    if not os.path.exists(p): return []
    with open(p) as f: return json.load(f)["findings"]

def main():
    ap = argparse.ArgumentParser()
    ap.add_argument("prop")
    ap.add_argument("--tier", default=os.environ.get("VERIF_TIER", "quick"))
    ap.add_argument("--replay")
    ap.add_argument("--only", help="substring filter on function names (debugging)")
    ap.add_argument("--no-bounded", action="store_true")
    ap.add_argument("--write-baseline", action="store_true", help="record which obligation keys are discharged on this (unchanged) tree")
    a = ap.parse_args()
    seed = int(os.environ.get("VERIF_SEED", "0") or 0)
    pid = a.prop
    if pid not in PROPS.PROPS:
        print("unknown or unclaimed property %s" % pid); return 3
    if a.replay:
        return do_replay(pid, a.replay)
    cfg = PROPS.PROPS[pid]
    t0 = time.time()
    known = [k for k in load_known() if k["property"] == pid]
    open_known = [k for k in known if k.get("status") == "open"]
    out = Run(pid, cfg, a.tier, seed, open_known, a.only)
    out.write_baseline = a.write_baseline
    out.partial = bool(a.no_bounded or a.only)
    try:
        out.deductive()
        if not a.no_bounded: out.bounded()
        if not a.only and (a.tier == "thorough" or cfg.get("crosscheck")): out.crosscheck()
    except Exception:
        traceback.print_exc()
        out.fatal.append("checker crash: " + traceback.format_exc()[-1500:])
    code = out.finish(time.time() - t0)
    return code

class Run:
    def __init__(self, pid, cfg, tier, seed, open_known, only=None):
        self.pid, self.cfg, self.tier, self.seed, self.open_known, self.only = pid, cfg, tier, seed, open_known, only
        self.violations = []      # dict(kind, what, replay)
        self.known_hits = []      # (finding, what)
        self.undecided = []
        self.fatal = []
        self.ev = {"functions": [], "obligations": 0, "discharged": 0, "by_solver": {}, "solver_s": 0.0, "samples": [],
                   "covers": 0, "covers_sat": 0, "canaries": 0, "canaries_refuted": 0, "assumed_contracts": [],
                   "assumptions": set(), "bounded": [], "inlined": [], "lemmas": 0}
        self.replay_dir = os.path.join(HERE, "replays", pid)
        self.canary_failed = []

    # ---------------------------------------------------------------- deductive part
    def deductive(self):
        R.reset()
        for m in self.cfg.get("contracts", []):
            mod = importlib.import_module("contracts." + m)
        ex = Executor(spec_types=getattr(PROPS, "SPEC_TYPES", {}))
        self.ex = ex
        timeout = self.cfg.get("timeout", {}).get(self.tier, 60 if self.tier == "quick" else 240)
        obs = []; canary_obs = {}
        sel = [c for c in R.CONTRACTS.values() if self.pid in c.props]
        if not sel and self.cfg.get("contracts"):
            self.fatal.append("no contract carries property %s" % self.pid)
        for c in sel:
            if c.assume_only or not c.verify:
                if c.assume_only: self.ev["assumed_contracts"].append("%s: %s" % (c.qual, c.note or "assumed"))
                continue
            if self.only and self.only not in c.qual: continue
            try:
                t1 = time.time()
                fobs = ex.verify_function(c.qual)
            except (VCError, X.ExtractionError) as e:
                if c.canary: continue
                self.undecided.append("extraction of %s failed: %s" % (c.qual, e))
                continue
            if c.canary:
                canary_obs[c.qual] = fobs
            else:
                obs.extend(fobs)
                self.ev["functions"].append({"function": c.qual, "source_sha256_16": X.source_hash(c.qual),
                                             "obligations": len([o for o in fobs if o.expect == "unsat"]), "note": c.note})
        # lemmas
        lemma_canaries = []
        for l in R.LEMMAS:
            if self.pid in l.props:
                lo = lemma_obligations(ex, l)
                if l.canary: lemma_canaries.append((l, lo[0]))
                else: obs.extend(lo); self.ev["lemmas"] += 1
        for cq in R.CONTRACTS:
            c = R.CONTRACTS[cq]
            if c.assume_only and c.qual in ex.called and self.pid not in c.props:
                self.ev["assumed_contracts"].append("%s: %s" % (c.qual, c.note or "assumed"))
        allobs = obs + [o for v in canary_obs.values() for o in v] + [o for _, o in lemma_canaries]
        results = solve.solve_all(allobs, timeout=timeout)
        bymap = {id(r.ob): r for r in results}
        if os.environ.get("PYVC_TIMES"):
            for r in sorted(results, key=lambda r: -r.secs)[:int(os.environ["PYVC_TIMES"])]:
                print("  %6.1fs %-8s %s %s" % (r.secs, r.status, r.ob.name[:150], r.attempts))
        # canaries
        for cq, fobs in canary_obs.items():
            self.ev["canaries"] += 1
            if any(bymap[id(o)].status == "sat" and o.expect == "unsat" for o in fobs): self.ev["canaries_refuted"] += 1
            else: self.canary_failed.append(cq)
        for l, o in lemma_canaries:
            self.ev["canaries"] += 1
            if bymap[id(o)].status == "unsat": self.fatal.append("canary lemma %s was PROVED: its hypotheses are contradictory (vacuous lemma)" % l.name)
            else: self.ev["canaries_refuted"] += 1
        # second chance for anything undecided: re-solve with little parallelism and a larger budget, so that machine load
        # cannot turn a provable obligation into an alarm
        retry = [o for o in obs if o.expect == "unsat" and bymap[id(o)].status in ("gaveup", "timeout")]
        if retry and len(retry) <= 60:
            for r2 in solve.solve_all(retry, timeout=timeout * 1.5, jobs=6):
                if r2.status in ("unsat", "sat") or bymap[id(r2.ob)].status == "timeout":
                    r2.secs += bymap[id(r2.ob)].secs; bymap[id(r2.ob)] = r2
        refuted = []
        base_path = os.path.join(HERE, "baseline", "%s.json" % self.pid)
        baseline = json.load(open(base_path))["discharged_keys"] if os.path.exists(base_path) else {}
        keyres = {}
        for o in obs:
            if o.expect == "unsat": keyres.setdefault(stable_key(o), []).append(bymap[id(o)].status)
        if getattr(self, "write_baseline", False):
            os.makedirs(os.path.join(HERE, "baseline"), exist_ok=True)
            with open(base_path, "w") as f:
                json.dump({"property": self.pid, "comment": "obligation keys fully discharged on the unchanged tree; a key listed here that a solver later gives up on is reported as a regression",
                           "discharged_keys": {k: len(v) for k, v in sorted(keyres.items()) if all(x == "unsat" for x in v)}}, f, indent=1)
        regress = {}
        for o in obs:
            r = bymap[id(o)]
            self.ev["solver_s"] += r.secs
            if o.expect == "sat":
                self.ev["covers"] += 1
                if r.status == "sat": self.ev["covers_sat"] += 1
                elif r.status == "unsat": self.fatal.append("vacuous precondition: %s" % o.name)
                continue
            self.ev["obligations"] += 1
            if r.status == "unsat":
                self.ev["discharged"] += 1
                self.ev["by_solver"][r.solver] = self.ev["by_solver"].get(r.solver, 0) + 1
                if len(self.ev["samples"]) < 6 and (self.ev["obligations"] % 7 == 1 or len(obs) < 20):
                    self.ev["samples"].append({"obligation": o.name, "result": "unsat", "solver": r.solver, "seconds": round(r.secs, 3)})
            elif r.status == "sat": refuted.append(r)
            elif r.status in ("gaveup", "timeout") and stable_key(o) in baseline:
                regress.setdefault(stable_key(o), []).append(r)
            else: self.undecided.append("obligation %s: %s %s" % (o.name, r.status, r.raw[:200]))
        for k, rs in regress.items():
            r = rs[0]
            info = {"verdict": "no-native-replay", "detail": "no solver proves it (answers: %s), twice, although the same obligation is discharged on the unchanged tree; no model was produced" % r.attempts,
                    "inputs": None, "native": None}
            path = self.write_replay(r, info)
            self.violations.append({"what": "%s: obligation %s was discharged on the unchanged tree and is not provable any more (%d path%s; solvers give up)"
                                    % (r.ob.func, r.ob.kind, len(rs), "s" if len(rs) > 1 else ""), "replay": path, "failing_input_found": False, "detail": ""})
        self.ev["assumptions"] |= ex.assumptions
        self.ev["inlined"] = sorted(ex.inlined)
        self.handle_refuted(ex, refuted, timeout)

    def handle_refuted(self, ex, refuted, timeout):
        # group by (function, kind/line) so that one defect is reported once
        groups = {}
        for r in refuted:
            key = (r.ob.func, r.ob.kind.split(":")[0], r.ob.line, r.ob.kind)
            groups.setdefault(key, []).append(r)
        for key, rs in groups.items():
            func = key[0]
            c = R.CONTRACTS[func]
            # known findings: re-solve under the negated carve-out
            matched = None
            for k in self.open_known:
                if k.get("function") == func and re.search(k.get("obligation", ""), rs[0].ob.kind):
                    matched = k; break
            remaining = rs
            if matched is not None and matched.get("carve_out"):
                remaining = []
                again = []
                for r in rs:
                    ob = r.ob
                    st = RP.State(); st.ctx = (func.split(":")[0], None, func)
                    st.env = dict(ob.inputs)
                    try:
                        carve = ex.spec_eval(matched["carve_out"], st, None)
                    except VCError as e:
                        self.fatal.append("carve-out of %s not evaluable: %s" % (matched["id"], e)); carve = z3.BoolVal(False)
                    ob2 = Obligation(ob.name + "#outside-known-finding", ob.func, ob.kind, ob.line, ob.assumptions + st.pc + [z3.Not(carve)], ob.goal, ob.props)
                    ob2.inputs = ob.inputs
                    again.append(ob2)
                for r2 in solve.solve_all(again, timeout=timeout):
                    if r2.status == "unsat": continue
                    if r2.status == "sat": remaining.append(r2)
                    else: self.undecided.append("obligation %s: undecided outside known finding" % r2.ob.name)
                self.known_hits.append((matched, "%s fails %s" % (func, rs[0].ob.kind)))
            elif matched is not None:
                self.known_hits.append((matched, "%s fails %s" % (func, rs[0].ob.kind))); remaining = []
            if not remaining: continue
            # replay the first few models against the real code
            best = None
            for r in remaining[:4]:
                try:
                    info = RP.replay_model(ex, c, r.model or {})
                except Exception as e:
                    info = {"verdict": "no-native-replay", "detail": "replay error: %s" % e, "inputs": None, "native": None}
                if info["verdict"] == "no-native-replay":
                    # inputs are objects: rebuild them from the pre-state heap of the model and call the real method on them
                    try:
                        info2 = OR.replay_objects(ex, c, r, solve.solve_all)
                        if info2["verdict"] != "no-native-replay" or not info.get("detail"): info = info2
                        else: info["detail"] += " | " + info2.get("detail", "")
                    except Exception as e:
                        info["detail"] += " | object replay error: %s: %s" % (type(e).__name__, str(e)[:200])
                info = RP.align(r.ob.kind, info)
                if best is None or (info["verdict"] == "violates" and best[1]["verdict"] != "violates"): best = (r, info)
                if info["verdict"] == "violates": break
            r, info = best
            path = self.write_replay(r, info)
            found = info["verdict"] == "violates"
            self.violations.append({"what": "%s: obligation %s refuted (%d path%s)" % (func, r.ob.kind, len(remaining), "s" if len(remaining) > 1 else ""),
                                    "replay": path, "failing_input_found": found, "detail": info.get("detail", "")})

    def write_replay(self, r, info):
        os.makedirs(self.replay_dir, exist_ok=True)
        h = hashlib.sha256(r.ob.name.encode()).hexdigest()[:10]
        path = os.path.join(self.replay_dir, "%s.json" % h)
        doc = {"property": self.pid, "kind": "obligation", "function": r.ob.func, "obligation": r.ob.name, "solver": r.solver,
               "solver_output": r.raw[:3000], "model_inputs": {k: repr(v) for k, v in (r.model or {}).items()},
               "native_replay": {k: v for k, v in info.items() if k != "pyargs"},
               "pyargs": _jsonable(info.get("pyargs")),
               "smt2": getattr(r, "smt_text", None)}
        with open(path, "w") as f: json.dump(doc, f, indent=1, default=str)
        return path

    # ---------------------------------------------------------------- bounded stand-ins / monitors
    def bounded(self):
        for modname in self.cfg.get("bounded", []):
            mod = importlib.import_module(modname if "." in modname else "bounded." + modname)
            res = mod.run(self.pid, self.tier, self.seed)
            self.ev["bounded"].append({k: v for k, v in res.items() if k != "findings"})
            for f in res.get("findings", []):
                matched = None
                for k in self.open_known:
                    if k.get("bounded_key") and re.search(k["bounded_key"], f["key"]): matched = k; break
                if matched is not None:
                    self.known_hits.append((matched, f["what"])); continue
                os.makedirs(self.replay_dir, exist_ok=True)
                path = os.path.join(self.replay_dir, "b_%s.json" % hashlib.sha256(f["key"].encode()).hexdigest()[:10])
                with open(path, "w") as fh:
                    json.dump({"property": self.pid, "kind": "bounded", "module": modname, "key": f["key"], "what": f["what"], "input": f.get("input")}, fh, indent=1, default=str)
                self.violations.append({"what": f["what"], "replay": path, "failing_input_found": True, "detail": f["key"]})
            for u in res.get("undecided", []): self.undecided.append(u)

    def crosscheck(self):
        """CPython cross-check of the encoding itself (selftest/semantics.py): a disagreement makes every verdict of this run untrustworthy"""
        import subprocess
        env = dict(os.environ); env.pop("VERIF_REPO", None)
        r = subprocess.run([sys.executable, "-W", "ignore", os.path.join(HERE, "selftest", "semantics.py")], capture_output=True, text=True, env=env, timeout=900)
        try: doc = json.loads(r.stdout)
        except Exception:
            self.fatal.append("engine cross-check did not run: " + (r.stderr or r.stdout)[-300:]); return
        self.ev["crosscheck"] = {k: doc[k] for k in ("snippets", "point_contracts", "obligations", "discharged", "agree", "agree_implicit_exception_flagged",
                                                     "conservative", "mismatches", "vacuous", "undecided", "unsupported_snippets")}
        if doc["mismatches"] or doc["vacuous"]:
            self.fatal.append("the pyvc encoding disagrees with CPython on %d concrete run(s), e.g. %s" % (len(doc["mismatches"]) + len(doc["vacuous"]), (doc["mismatches"] or doc["vacuous"])[0]))
        elif doc["agree"] + doc["agree_implicit_exception_flagged"] < 250:
            self.fatal.append("engine cross-check shrank to %d agreeing runs" % (doc["agree"] + doc["agree_implicit_exception_flagged"]))

    # ---------------------------------------------------------------- report
    def finish(self, wall):
        ev = self.ev
        seen = set()
        for k, what in self.known_hits:
            if k["id"] in seen: continue
            seen.add(k["id"])
            print("KNOWN-FINDING: property=%s %s [%s]" % (self.pid, k["what_fails"], k["id"]))
        # reported once per finding; reproducers of open findings are replayed natively to see whether they are stale
        for v in self.violations:
            print("VIOLATION property=%s replay=%s%s" % (self.pid, v["replay"], "" if v["failing_input_found"] else " no-failing-input-found"))
            print("  " + v["what"] + ((" -- " + v["detail"]) if v["detail"] else ""))
        if self.canary_failed and not self.violations:
            # a canary is a deliberately wrong contract; if the real contract of the same code is violated the canary may hold
            for cq in self.canary_failed: self.fatal.append("canary %s was NOT refuted: the verifier may be vacuous" % cq)
        for u in self.undecided: print("UNDECIDED: " + u)
        for f in self.fatal: print("CHECKER-ERROR: " + f)
        all_discharged = ev["obligations"] > 0 and ev["obligations"] == ev["discharged"] + 0
        level = self.cfg.get("level", "other")
        if level == "proof" and (ev["bounded"] and self.cfg.get("bounded_decides")): level = "other"
        expl = self.cfg.get("explanation", "")
        bounded_evals = sum(b.get("evaluations", 0) for b in ev["bounded"])
        coverage = {
            "obligations": ev["obligations"], "discharged": ev["discharged"],
            "checker_cmd": "./check %s --tier %s  (pyvc: ast -> symbolic execution against sidecar contracts -> SMT-LIB -> %s)" % (self.pid, self.tier, ", ".join(sorted(ev["by_solver"])) or "z3/cvc5"),
            "trusted_base": sorted(set(ev["assumed_contracts"])) + sorted(ev["assumptions"]) + PROPS.ENCODING_ASSUMPTIONS,
            "explanation": expl,
            "functions_under_contract": ev["functions"],
            "discharged_by_solver": ev["by_solver"], "solver_seconds": round(ev["solver_s"], 2),
            "cover_queries": ev["covers"], "cover_queries_sat": ev["covers_sat"],
            "canaries": ev["canaries"], "canaries_refuted": ev["canaries_refuted"],
            "lemmas": ev["lemmas"],
            "inlined_from_real_source": ev["inlined"],
            "samples": ev["samples"] + [s for b in ev["bounded"] for s in b.get("samples", [])][:6],
            "bounded_standins": ev["bounded"],
            "engine_crosscheck_vs_cpython": ev.get("crosscheck", "not run in this tier (runs in the thorough tier and in the quick tier of C17/C20)"),
            "evaluations": ev["obligations"] + bounded_evals,
            "distinct_nontrivial": ev["obligations"] + sum(b.get("distinct_nontrivial", 0) for b in ev["bounded"]),
            "rule": "one evaluation = one proof obligation (distinct by function, program point and path) or one bounded case as described per stand-in",
            "known_findings_confirmed": sorted(seen), "undecided": self.undecided,
        }
        doc = {"property_id": self.pid, "tier": self.tier if self.tier in ("quick", "thorough") else "quick", "seed": self.seed,
               "level": level, "coverage": coverage,
               "assumptions": sorted(ev["assumptions"]) + PROPS.ENCODING_ASSUMPTIONS + sorted(set(ev["assumed_contracts"])),
               "wall_s": round(wall, 2), "violations": len(self.violations)}
        # evidence/ describes /repo itself; a run against another tree (VERIF_REPO=<scratch worktree>: seeded changes, mutation runs) or a
        # partial run (--only / --no-bounded) writes to .scratch/evidence instead, so it can never replace the committed evidence
        evdir = os.path.join(HERE, "evidence") if os.path.realpath(REPO) == "/repo" and not getattr(self, "partial", False) else os.path.join(HERE, ".scratch", "evidence")
        os.makedirs(evdir, exist_ok=True)
        with open(os.path.join(evdir, "%s.json" % self.pid), "w") as f:
            json.dump(doc, f, indent=1, default=str)
        print("%s: %d/%d obligations discharged (%s), %d cover ok, %d/%d canaries refuted, %d bounded cases, %d known finding(s), %.1fs"
              % (self.pid, ev["discharged"], ev["obligations"], ev["by_solver"], ev["covers_sat"], ev["canaries_refuted"], ev["canaries"],
                 bounded_evals, len(seen), wall))
        if self.fatal: return 3
        if self.violations: return 1
        if self.undecided: return 2
        if ev["obligations"] == 0 and self.cfg.get("contracts") and not self.only:
            print("CHECKER-ERROR: zero obligations"); return 3
        floor = self.cfg.get("min_obligations", 1 if self.cfg.get("contracts") else 0)
        if ev["obligations"] < floor and not self.only:
            print("CHECKER-ERROR: only %d obligations generated, floor is %d" % (ev["obligations"], floor)); return 3
        return 0

def stable_key(o):
    """obligation identity that survives harmless edits: function + kind + clause text (no line numbers, no counters)"""
    return "%s#%s" % (o.func, o.kind)

def lemma_obligations(ex, l):
    st = RP.State(); st.ctx = ("shexer", None, "lemma:" + l.name)
    from pyvc.state import SV, fresh
    from pyvc import types as T_
    st.alloc = fresh("alloc0", T_.Int); st.assume(st.alloc >= 1)
    for n, ty in l.vars.items():
        st.env[n] = SV(ty, fresh(n, ty))
    ex.current_inputs = dict(st.env)
    for h in l.hyps: st.assume(ex.spec_eval(h, st, None))
    g = ex.spec_eval(l.goal, st, None)
    ob = Obligation("lemma:%s" % l.name, "lemma:" + l.name, "lemma", 0, st.pc, g, props=l.props)
    ob.inputs = {}
    cover = Obligation("lemma:%s#cover-hypotheses" % l.name, "lemma:" + l.name, "cover", 0, st.pc, z3.BoolVal(False), props=l.props)
    cover.expect = "sat"
    return [ob, cover]

def _jsonable(x):
    try:
        json.dumps(x); return x
    except Exception:
        return repr(x)

def do_replay(pid, path):
    with open(path) as f: doc = json.load(f)
    if doc.get("kind") == "bounded":
        mod = importlib.import_module(doc["module"] if "." in doc["module"] else "bounded." + doc["module"])
        ok, msg = mod.replay(doc)
        print(msg)
        if not ok: print("VIOLATION property=%s replay=%s" % (pid, path)); return 1
        return 0
    R.reset()
    for m in PROPS.PROPS[pid].get("contracts", []): importlib.import_module("contracts." + m)
    ex = Executor()
    c = R.CONTRACTS[doc["function"]]
    if doc.get("pyargs") and isinstance(doc["pyargs"], dict):
        info = RP.replay_pyargs(ex, c, doc["pyargs"])
        print("native replay of %s on %r -> %s : %s %s" % (c.qual, doc["pyargs"], info["native"], info["verdict"], info["detail"]))
        if info["verdict"] == "violates":
            print("VIOLATION property=%s replay=%s" % (pid, path)); return 1
        if info["verdict"] in ("ok", "outside-precondition"): return 0
    # no native input: re-solve the recorded obligation on the current tree
    obs = ex.verify_function(c.qual)
    target = [o for o in obs if o.kind == doc["obligation"].split("#")[1]]
    res = solve.solve_all(target, timeout=60)
    bad = [r for r in res if r.status == "sat"]
    print("re-solved %d obligation(s) of kind %s: %d refuted" % (len(target), doc["obligation"].split("#")[1], len(bad)))
    if bad:
        for r in bad[:3]:
            try:
                info = RP.replay_model(ex, c, r.model or {})
                if info["verdict"] == "no-native-replay": info = OR.replay_objects(ex, c, r, solve.solve_all)
                info = RP.align(r.ob.kind, info)
            except Exception as e:
                info = {"verdict": "no-native-replay", "detail": str(e)}
            if info["verdict"] == "violates":
                print("native replay on %s -> %s: %s" % (info.get("inputs"), info.get("native"), info.get("detail", "")[:300]))
                print("VIOLATION property=%s replay=%s" % (pid, path)); return 1
        print("VIOLATION property=%s replay=%s no-failing-input-found" % (pid, path)); return 1
    return 0

if __name__ == "__main__":
    sys.exit(main())
