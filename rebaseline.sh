#!/bin/sh
# Regenerates baseline/<id>.json (which obligation keys are discharged on the unchanged tree). Run on the unchanged tree only.
cd "$(dirname "$0")"
for p in $(./.venv/bin/python -c "import props; print(' '.join(k for k,v in sorted(props.PROPS.items()) if v.get('contracts')))"); do
  ./check $p --no-bounded --write-baseline | grep -v "^ok\|^KNOWN\|^  " | cut -c1-220
done
