#!/usr/bin/env python
"""Confirms a seeded change (tests still green, demo passes on clean / fails on changed tree) and runs the checks against it.
usage: seed_eval.py <change-dir> <property-id> [more property ids...]    (change-dir holds patch.diff and demo.py)"""
import sys, os, subprocess, json, tempfile, shutil, time, xml.etree.ElementTree as ET
chg = os.path.abspath(sys.argv[1]); pids = sys.argv[2:]
base = json.load(open("/root/.vp/BASELINE.json"))
wt = tempfile.mkdtemp(prefix="/tmp/ev_"); os.rmdir(wt)
def sh(cmd, **kw): return subprocess.run(cmd, shell=True, capture_output=True, text=True, **kw)
res = {"change": chg, "property": pids}
try:
    r = sh("git -C /repo worktree add -q %s HEAD" % wt); assert r.returncode == 0, r.stderr
    d0 = sh("cd %s && timeout 120 /venv/bin/python %s/demo.py" % (wt, chg)); res["demo_clean_exit"] = d0.returncode
    r = sh("git -C %s apply %s/patch.diff" % (wt, chg)); res["patch_applies"] = r.returncode == 0
    if r.returncode != 0: res["apply_error"] = r.stderr[:300]
    d1 = sh("cd %s && timeout 120 /venv/bin/python %s/demo.py" % (wt, chg)); res["demo_changed_exit"] = d1.returncode
    res["demo_changed_tail"] = (d1.stdout + d1.stderr)[-300:]
    out = tempfile.mktemp(suffix=".xml")
    sh("cd %s && /venv/bin/python -m pytest -q -p no:cacheprovider --timeout=900 --continue-on-collection-errors --junitxml=%s" % (wt, out))
    passed = set()
    for tc in ET.parse(out).getroot().iter("testcase"):
        if not list(tc): passed.add("%s::%s" % (tc.get("classname"), tc.get("name")))
    os.remove(out)
    res["baseline_missing"] = [t for t in base["stable_pass"] if t not in passed]
    res["confirmed"] = bool(res["patch_applies"] and res["demo_clean_exit"] == 0 and res["demo_changed_exit"] != 0 and not res["baseline_missing"])
    res["checks"] = {}
    for pid in pids:
        t0 = time.time()
        c = sh("cd /verif && VERIF_REPO=%s ./check %s --tier quick" % (wt, pid))
        lines = [l for l in c.stdout.splitlines() if l.startswith(("VIOLATION", "UNDECIDED", "CHECKER-ERROR", "KNOWN"))]
        detail = [l.strip()[:260] for l in c.stdout.splitlines() if l.startswith("  ")][:4]
        res["checks"][pid] = {"exit": c.returncode, "seconds": round(time.time() - t0), "lines": [l[:200] for l in lines[:6]], "detail": detail,
                              "summary": c.stdout.strip().splitlines()[-1][:200] if c.stdout.strip() else c.stderr[-200:]}
finally:
    sh("git -C /repo worktree remove --force %s" % wt); shutil.rmtree(wt, ignore_errors=True)
print(json.dumps(res, indent=1))
