"""Helpers of bounded/schemas.py (C03, C04, C05, C11, C15, C17): guarded sheXer runs for every input
format and both output formats, Turtle writers, a SHACL reader, an independent ShEx conformance
validator (greatest fixpoint), the IRI-stem oracle and an in-process SPARQL endpoint substitute.
Bounded testing machinery only; nothing here is proved."""
import collections
import contextlib
import hashlib
import json
import os
import re
import signal
import sys
import traceback

try:
    from . import _pipeline_util as U
except ImportError:                                    # executed as a plain script
    sys.path.insert(0, os.path.dirname(os.path.abspath(__file__)))
    import _pipeline_util as U

import logging
logging.getLogger("rdflib").setLevel(logging.CRITICAL)
logging.getLogger("rdflib.term").setLevel(logging.CRITICAL)

SHEXC, SHACL = "ShEx", "Shacl"
SH = "http://www.w3.org/ns/shacl#"
RDF_NS = "http://www.w3.org/1999/02/22-rdf-syntax-ns#"
XSD_NS = "http://www.w3.org/2001/XMLSchema#"
FAKE_ENDPOINT = "http://fake/sparql"


# ------------------------------------------------------------------------------------------------
# guarded runs
# ------------------------------------------------------------------------------------------------
def guarded(fn, timeout=None):
    """fn() under a wall-clock guard; raises U.WallClockTimeout (a BaseException) on expiry."""
    old = signal.signal(signal.SIGALRM, U._on_alarm)
    signal.alarm(timeout or U.TIMEOUT)
    try:
        return fn()
    finally:
        signal.alarm(0)
        signal.signal(signal.SIGALRM, old)


def shaper_kwargs(cfg):
    e = U.env()
    kw = dict(cfg)
    ns = kw.pop("namespaces_dict", None)
    kw["namespaces_dict"] = dict(ns) if ns is not None else dict(e.G.NAMESPACES)
    kw.setdefault("instances_report_mode", "mixed")
    kw.setdefault("disable_comments", False)
    for k in ("target_classes", "namespaces_to_ignore"):
        if kw.get(k) is not None:
            kw[k] = list(kw[k])
    return kw


def new_shaper(inp, cfg):
    """inp: {"format": nt|turtle|turtle_iter, "text": str}  or  {"endpoint": url}."""
    Shaper = sys.modules["shexer.shaper"].Shaper
    kw = shaper_kwargs(cfg)
    if "endpoint" in inp:
        return Shaper(url_endpoint=inp["endpoint"], **kw)
    if "file" in inp:
        return Shaper(graph_file_input=inp["file"], input_format=inp["format"], **kw)
    return Shaper(raw_graph=inp["text"], input_format=inp["format"], **kw)


@contextlib.contextmanager
def input_file(inp):
    """inp with "as_file": the text is written to a temporary file for the duration of the block ({"format", "file"}); otherwise inp itself."""
    if not inp.get("as_file"):
        yield inp
        return
    import tempfile
    fd, path = tempfile.mkstemp(prefix="verif_schemas_", suffix="." + inp["format"])
    try:
        with os.fdopen(fd, "w") as fh:
            fh.write(inp["text"])
        yield {"format": inp["format"], "file": path, "text": inp["text"]}
    finally:
        try:
            os.remove(path)
        except OSError:
            pass


def _shex(shaper, fmt=SHEXC, t=0):
    return shaper.shex_graph(string_output=True, output_format=fmt, acceptance_threshold=t)


HISTORY_KINDS = ("repeat", "threshold", "format", "profile")


class History(object):
    """Call-history sub-family: the checked call is embedded in a history on the SAME Shaper; the caller's oracle is
    applied to the LAST result; results that must be equal are compared here (problems: [(what, text)])."""

    def __init__(self, kind):
        self.kind = kind
        self.problems = []
        self.calls = 0

    @staticmethod
    def canon(fmt, text):
        if fmt != SHACL or not isinstance(text, str):
            return text
        try:
            shapes, dangling, problems = parse_shacl(text)
        except ShaclError:
            return text
        return sorted((lab, d["target"], d["pattern"],
                       sorted(((p["dir"], p["p"], p["restr"], p["min"], p["max"]) for p in d["props"]), key=repr))
                      for lab, d in shapes.items())

    def same(self, what, fmt, a, b):
        if self.canon(fmt, a) != self.canon(fmt, b):
            self.problems.append((what, "%s: the two results differ (%s)\n--- first\n%s\n--- later\n%s"
                                  % (what, fmt, str(a)[:900], str(b)[:900])))

    def run(self, shaper, fmt, t):
        self.calls += 1
        other_fmt = SHACL if fmt == SHEXC else SHEXC
        t2 = 1 if t != 1 else 0.5
        if self.kind == "repeat":
            a = _shex(shaper, fmt, t)
            b = _shex(shaper, fmt, t)
            self.same("repeated-call-differs", fmt, a, b)
            return b
        if self.kind == "threshold":
            a = _shex(shaper, fmt, t)
            _shex(shaper, fmt, t2)
            c = _shex(shaper, fmt, t)
            self.same("threshold-roundtrip-differs", fmt, a, c)
            return c
        if self.kind == "format":
            a = _shex(shaper, fmt, t)
            _shex(shaper, other_fmt, t)
            c = _shex(shaper, fmt, t)
            self.same("format-roundtrip-differs", fmt, a, c)
            return c
        if self.kind == "profile":
            p1 = shaper.profile_graph(string_output=True)
            a = _shex(shaper, fmt, t)
            p2 = shaper.profile_graph(string_output=True)
            self.same("profile-changes-after-shex-graph", "profile", p1, p2)
            c = _shex(shaper, fmt, t)
            self.same("repeated-call-after-profile-differs", fmt, a, c)
            return c
        raise ValueError(self.kind)


HISTORY = None          # set per case by schemas._run_case (one case at a time per process)


def shex(shaper, fmt=SHEXC, t=0):
    if HISTORY is None:
        return _shex(shaper, fmt, t)
    return HISTORY.run(shaper, fmt, t)


def crash_where(exc):
    """(exception type name, innermost shexer file, function) -- validate_oracle.crash_signature style."""
    frames = traceback.extract_tb(exc.__traceback__)
    inner = [f for f in frames if "/shexer/" in f.filename.replace("\\", "/")]
    if inner:
        func = inner[-1].name
        if "/shexer/model/" in inner[-1].filename.replace("\\", "/") and len(inner) > 1:
            # a trivial accessor of the model: the caller names the root cause
            func = "%s:from:%s:%s" % (func, os.path.basename(inner[-2].filename), inner[-2].name)
        return type(exc).__name__, os.path.basename(inner[-1].filename), func
    return type(exc).__name__, "?", "?"


def crash_sig(exc):
    return "%s @ %s:%s" % crash_where(exc)


class Book(object):
    """Book-keeping of one case (the counterpart of U.Runner for arbitrary calls)."""

    def __init__(self):
        self.evaluations = 0
        self.crashes = collections.Counter()
        self.nontrivial = set()
        self.findings = []
        self.notes = collections.Counter()

    def call(self, fn):
        """fn() guarded; raises U.Skipped on crash / timeout (counted)."""
        self.evaluations += 1
        try:
            return guarded(fn)
        except U.WallClockTimeout as exc:
            sig = "timeout @ %s:%s" % crash_where(exc)[1:]
            self.crashes[sig] += 1
            raise U.Skipped(sig)
        except Exception as exc:
            sig = crash_sig(exc)
            self.crashes[sig] += 1
            raise U.Skipped(sig)

    def parse(self, text):
        e = U.env()
        try:
            return e.P.parse_shexc(text)
        except e.P.ShexcParseError as exc:
            sig = "unparsable-output: %s" % exc.msg
            self.crashes[sig] += 1
            raise U.Skipped(sig)

    def mark(self, *parts):
        h = hashlib.blake2b(digest_size=8)
        for p in parts:
            h.update((p if isinstance(p, str) else json.dumps(p, sort_keys=True, default=str)).encode("utf-8"))
        self.nontrivial.add(h.hexdigest())

    def emit(self, key, what, case, **detail):
        inp = {"case": case}
        inp.update(detail)
        self.findings.append({"key": key, "what": what, "input": inp})

    def result(self):
        return {"evaluations": self.evaluations, "crashes": dict(self.crashes), "nontrivial": sorted(self.nontrivial),
                "findings": self.findings, "notes": dict(self.notes)}


# ------------------------------------------------------------------------------------------------
# writers
# ------------------------------------------------------------------------------------------------
_LOCAL_OK = re.compile(r"^[A-Za-z0-9_](?:[A-Za-z0-9_.\-]*[A-Za-z0-9_\-])?$")


def _pname(iri, namespaces):
    for ns, pre in namespaces.items():
        if iri.startswith(ns) and _LOCAL_OK.match(iri[len(ns):]):
            return "%s:%s" % (pre, iri[len(ns):])
    return None


def to_turtle(T, namespaces=None, prefixed=True, use_a=True, bare_numbers=False):
    """Turtle in sheXer's house style: @prefix lines, then ONE statement per line, tokens separated
    by single blanks, ' .' at the end.  Valid Turtle for rdflib as well."""
    M, S, G = U.lib()
    namespaces = dict(namespaces if namespaces is not None else G.NAMESPACES)
    out = ["@prefix %s: <%s> ." % (pre, ns) for ns, pre in namespaces.items()]

    def iri(x):
        pn = _pname(x, namespaces) if prefixed else None
        return pn if pn is not None else "<%s>" % x

    def node(n):
        if isinstance(n, M.IRI):
            return iri(n.iri)
        if isinstance(n, M.BNode):
            return "_:" + n.label
        if bare_numbers and n.dt == M.XSD_INTEGER and re.match(r"^[0-9]+$", n.lex):
            return n.lex
        s = '"' + M.escape_lex(n.lex) + '"'
        if n.lang is not None:
            return s + "@" + n.lang
        if n.dt is not None:
            return s + "^^" + iri(n.dt)
        return s

    for (s, p, o) in T:
        pred = "a" if (use_a and p == M.RDF_TYPE) else iri(p)
        out.append("%s %s %s ." % (node(s), pred, node(o)))
    return "\n".join(out) + "\n"


def render_input(T, fmt, variant=0):
    """{"format", "text"} for a triple list; variant picks the Turtle spelling."""
    if fmt == "nt":
        return {"format": "nt", "text": U.to_nt(T)}
    return {"format": fmt, "text": to_turtle(T, prefixed=variant % 2 == 0, use_a=variant % 4 < 2,
                                              bare_numbers=variant % 8 >= 4)}


# ------------------------------------------------------------------------------------------------
# SHACL reader
# ------------------------------------------------------------------------------------------------
class ShaclError(Exception):
    pass


def parse_shacl(text):
    """-> (shapes, node_refs, problems).  shapes: {iri: {"target": [iri], "pattern": [str], "props": [prop]}} with
    prop = {"dir", "p", "restr": tuple, "min", "max", "n_direct", "n_inverse"};  node_refs: [(shape iri, sh:node object)]."""
    import rdflib
    g = rdflib.Graph()
    try:
        g.parse(data=text, format="turtle")
    except Exception as exc:
        raise ShaclError("%s: %s" % (type(exc).__name__, str(exc)[:300]))
    R = rdflib.URIRef
    a = rdflib.RDF.type
    shapes, refs, problems = {}, [], []
    node_shapes = set(g.subjects(a, R(SH + "NodeShape")))
    seen_ps = set()
    for s in sorted(node_shapes, key=str):
        d = {"target": sorted(str(o) for o in g.objects(s, R(SH + "targetClass"))),
             "pattern": sorted(str(o) for o in g.objects(s, R(SH + "pattern"))), "props": []}
        for ps in g.objects(s, R(SH + "property")):
            seen_ps.add(ps)
            direct = [str(o) for o in g.objects(ps, R(SH + "path"))]
            inverse = []
            for nested in g.objects(ps, R(SH + "property")):
                inverse += [str(o) for o in g.objects(nested, R(SH + "inversePath"))]
            restr = []
            for dt_prop in ("dataType", "datatype"):
                restr += [("datatype", str(o)) for o in g.objects(ps, R(SH + dt_prop))]
            restr += [("nodeKind", str(o)[len(SH):] if str(o).startswith(SH) else str(o)) for o in g.objects(ps, R(SH + "nodeKind"))]
            for o in g.objects(ps, R(SH + "node")):
                restr.append(("node", str(o)))
                refs.append((str(s), o))
            for o in g.objects(ps, R(SH + "in")):
                items, cur, guard = [], o, 0
                while cur != rdflib.RDF.nil and guard < 50:
                    guard += 1
                    first = list(g.objects(cur, rdflib.RDF.first))
                    rest = list(g.objects(cur, rdflib.RDF.rest))
                    if len(first) != 1 or len(rest) != 1:
                        problems.append("malformed sh:in list in shape %s" % s)
                        break
                    items.append(str(first[0]))
                    cur = rest[0]
                restr.append(("in", tuple(items)))

            def one_int(prop):
                vals = list(g.objects(ps, R(SH + prop)))
                if not vals:
                    return None
                if len(vals) > 1:
                    problems.append("property shape of %s has %d sh:%s values" % (s, len(vals), prop))
                try:
                    return int(vals[0])
                except Exception:
                    problems.append("sh:%s %r of %s is not an integer" % (prop, str(vals[0]), s))
                    return str(vals[0])
            d["props"].append({"dir": "inverse" if (inverse and not direct) else "direct",
                               "p": (inverse or direct or [None])[0], "restr": tuple(sorted(restr, key=repr)),
                               "min": one_int("minCount"), "max": one_int("maxCount"),
                               "n_direct": len(direct), "n_inverse": len(inverse),
                               "typed": (ps, a, R(SH + "PropertyShape")) in g})
        shapes[str(s)] = d
    for ps in g.subjects(a, R(SH + "PropertyShape")):
        if ps not in seen_ps:
            problems.append("a sh:PropertyShape is attached to no node shape")
    typed_node = set(str(x) for x in node_shapes)
    dangling = [(s, str(o)) for (s, o) in refs if str(o) not in typed_node]
    return shapes, dangling, problems


# ------------------------------------------------------------------------------------------------
# ShExC (parsed) -> SHACL vocabulary of C11
# ------------------------------------------------------------------------------------------------
def expected_restriction(value):
    tag = value[0]
    if tag == "datatype":
        return (("datatype", value[1]),)
    if tag == "IRI":
        return (("nodeKind", "IRI"),)
    if tag == "BNode":
        return (("nodeKind", "BlankNode"),)
    if tag == "NONLITERAL":
        return (("nodeKind", "BlankNodeOrIRI"),)
    if tag == "LITERAL":
        return (("nodeKind", "Literal"),)
    if tag == "any":
        return ()
    if tag == "shape":
        return (("node", value[1]),)
    if tag == "valueset":
        return (("in", (value[1],)),)
    return (("unsupported", repr(value)),)


def expected_counts(card):
    if card == "+":
        return 1, None
    if card == "*":
        return None, None
    if card == "?":
        return None, 1
    return card, card


# ------------------------------------------------------------------------------------------------
# independent conformance validator (C03)
# ------------------------------------------------------------------------------------------------
def card_ok(card, n):
    if card == "+":
        return n >= 1
    if card == "*":
        return True
    if card == "?":
        return n <= 1
    return n == card


class Validator(object):
    """ShEx conformance, closed per mentioned (direction, predicate): every value of a mentioned predicate matches at
    least one constraint of that predicate, and for every constraint the number of matching values satisfies its
    cardinality.  Shape references are evaluated in the greatest fixpoint (coinductive: assume-true on cycles)."""

    def __init__(self, T, nd):
        M = U.lib()[0]
        self.M = M
        self.out, self.inc = {}, {}
        self.nodes = set()
        for (s, p, o) in T:
            self.out.setdefault(s, {}).setdefault(p, []).append(o)
            self.nodes.add(s)
            if not M.is_literal(o):
                self.inc.setdefault(o, {}).setdefault(p, []).append(s)
                self.nodes.add(o)
        self.shapes = {}
        for sh in nd:
            self.shapes.setdefault(sh["label"], sh)
        self.R = None
        self.reason = {}

    def values(self, x, inv, p):
        return (self.inc if inv else self.out).get(x, {}).get(p, [])

    def match(self, v, value, R):
        M, tag = self.M, value[0]
        if tag == "or":
            return any(self.match(v, alt, R) for alt in value[1])
        if tag == "datatype":
            return M.is_literal(v) and v.datatype == value[1]
        if tag == "IRI":
            return isinstance(v, M.IRI)
        if tag == "BNode":
            return isinstance(v, M.BNode)
        if tag == "NONLITERAL":
            return not M.is_literal(v)
        if tag == "LITERAL":
            return M.is_literal(v)
        if tag == "any":
            return True
        if tag == "valueset":
            return (not M.is_literal(v)) and (M.node_id(v) == value[1] or "<%s>" % M.node_id(v) == value[1])
        if tag == "shape":
            return (not M.is_literal(v)) and (v, value[1]) in R
        return False

    def check(self, x, label, R):
        """None if x conforms to label given R, else (category, detail dict)."""
        sh = self.shapes.get(label)
        if sh is None:
            return ("undefined-shape", {"shape": label})
        groups = collections.OrderedDict()
        for c in sh["cons"]:
            groups.setdefault((c["inv"], c["p"]), []).append(c)
        for (inv, p), cons in groups.items():
            vals = self.values(x, inv, p)
            for v in vals:
                if not any(self.match(v, c["value"], R) for c in cons):
                    refs = [c["value"][1] for c in cons if c["value"][0] == "shape"]
                    cascade = (not self.M.is_literal(v)) and any((v, r) not in R for r in refs)
                    return ("ref-to-nonconforming-node" if cascade else "unmatched-value:%s" % self.vclass(v),
                            {"direction": "inverse" if inv else "direct", "predicate": p, "value": self.M.node_to_nt(v),
                             "constraints": [c["raw"] for c in cons]})
            for c in cons:
                n = sum(1 for v in vals if self.match(v, c["value"], R))
                if not card_ok(c["card"], n):
                    return ("cardinality:%s:%s" % (U.cclass(c["card"]), c["value"][0]),
                            {"direction": "inverse" if inv else "direct", "predicate": p, "constraint": c["raw"],
                             "matching_values": n, "values": [self.M.node_to_nt(v) for v in vals]})
        return None

    def vclass(self, v):
        M = self.M
        if M.is_literal(v):
            return "literal"
        return v.kind

    def solve(self):
        R = set((x, lab) for x in self.nodes for lab in self.shapes)
        changed = True
        rounds = 0
        while changed:
            changed = False
            rounds += 1
            for (x, lab) in sorted(R, key=repr):
                why = self.check(x, lab, R)
                if why is not None:
                    R.discard((x, lab))
                    self.reason[(x, lab)] = (rounds, why)
                    changed = True
        self.R = R
        return R


# ------------------------------------------------------------------------------------------------
# IRI stems (C17)
# ------------------------------------------------------------------------------------------------
_BARE_SCHEME = re.compile(r"^([A-Za-z][A-Za-z0-9+.\-]*):/*$")
SEPARATORS = ":/#"


def common_prefix(strings):
    strings = list(strings)
    if not strings:
        return ""
    lo, hi = min(strings), max(strings)
    i = 0
    while i < len(lo) and i < len(hi) and lo[i] == hi[i]:
        i += 1
    return lo[:i]


def longest_stem(iris):
    """Longest prefix common to all IRIs that ends at ':', '/' or '#' ('' if none)."""
    cp = common_prefix(iris)
    cut = max(cp.rfind(ch) for ch in SEPARATORS)
    return cp[:cut + 1] if cut >= 0 else ""


def bare_scheme(stem):
    m = _BARE_SCHEME.match(stem)
    return m.group(1) if m else None


def expected_stem(iris):
    """The stem the statement of C17 asks for, or None when nothing is to be printed."""
    st = longest_stem(iris)
    if len(st) < 3 or bare_scheme(st) is not None:
        return None
    return st


# ------------------------------------------------------------------------------------------------
# in-process SPARQL endpoint (C15)
# ------------------------------------------------------------------------------------------------
class FakeEndpoint(object):
    """Evaluates the query text sheXer would send over HTTP on an rdflib graph; logs every query."""

    def __init__(self, nt):
        import rdflib
        self.rdflib = rdflib
        self.g = rdflib.Graph()
        self.g.parse(data=nt, format="nt")
        self.log = []

    def __call__(self, endpoint_url, str_query, max_retries=5, sleep_time=2, fake_user_agent=True):
        rdflib = self.rdflib
        self.log.append(str_query)
        res = self.g.query(str_query)
        rows = []
        for row in res.bindings:
            d = {}
            for var, val in row.items():
                if isinstance(val, rdflib.URIRef):
                    d[str(var)] = {"type": "uri", "value": str(val)}
                elif isinstance(val, rdflib.BNode):
                    d[str(var)] = {"type": "bnode", "value": str(val)}
                else:
                    x = {"type": "literal", "value": str(val)}
                    if val.language:
                        x["xml:lang"] = val.language
                    elif val.datatype is not None:
                        x["datatype"] = str(val.datatype)
                    d[str(var)] = x
            rows.append(d)
        return {"head": {"vars": [str(v) for v in (res.vars or [])]}, "results": {"bindings": rows}}


@contextlib.contextmanager
def fake_endpoint(nt):
    """Substitutes the single choke point of sheXer's HTTP traffic (io/sparql/query._query_endpoint_json_result)
    in THIS process for the duration of the block."""
    U.env()
    import shexer.io.sparql.query as Q
    ep = FakeEndpoint(nt)
    old = Q._query_endpoint_json_result
    Q._query_endpoint_json_result = ep
    try:
        yield ep
    finally:
        Q._query_endpoint_json_result = old


# ------------------------------------------------------------------------------------------------
# misc
# ------------------------------------------------------------------------------------------------
def structure(nd):
    """{label: Counter((inv, p, value, card))} -- the constraint structure of a normalised document."""
    out = {}
    for sh in nd:
        cnt = collections.Counter()
        for c in sh["cons"]:
            cnt[(c["inv"], c["p"], c["value"], c["card"])] += 1
        out[sh["label"]] = cnt
    return out


def structure_diff(a, b):
    return [(lab, sorted((a.get(lab, collections.Counter()) - b.get(lab, collections.Counter())).items(), key=repr),
             sorted((b.get(lab, collections.Counter()) - a.get(lab, collections.Counter())).items(), key=repr))
            for lab in sorted(set(a) | set(b)) if a.get(lab) != b.get(lab)]


def slug(s, n=60):
    return re.sub(r"[^A-Za-z0-9]+", "-", s).strip("-").lower()[:n]
