"""Bounded monitor for C18: "results depend only on the arguments, not on output channel or call history".

Runs the REAL sheXer (from $VERIF_REPO) and compares it with itself:

  (a) sink      fresh Shaper writing to a file  ==  fresh Shaper returning a string (ShExC and profile: byte equality,
                SHACL: rdflib-isomorphic), on small graphs and on generated graphs whose ShExC text is longer than two buffer
                flushes of the serializer (> 10 500 lines, plus texts of exactly 4999/5000/5001/10000 lines in the thorough
                tier).  For the long texts the string itself is also checked against an independent reference: the graph is
                made of unrelated classes, so its text must be the header followed by the shape blocks printed for slices of
                the graph (each slice far below the flush size).
  (b) seq       every call of a sequence of <= 3 calls over {shex_graph(ShEx|Shacl, string|file, t in {0,.5,1}),
                profile_graph(string|file)} on ONE Shaper returns what the same call returns on a FRESH Shaper with the same
                constructor arguments.
  (c) pair      two Shapers built from the SAME namespaces_dict / target_classes objects: each one's output equals the output
                of a fresh control built from private copies, and the caller's objects are left unchanged.
  (d)           (a)-(c) repeated with examples_mode in {None, "all"} and detect_minimal_iri in {False, True}.
  (b')          ShExC-only sequences with disable_or_statements=False x allow_redundant_or in {True, False} (SHACL rejects choice
                statements) and sequences low/high/low threshold on shape maps with detect_minimal_iri=True, remove_empty_shapes=False
                whose label is empty at threshold 1 and whose instance IRIs share a prefix ending inside a token; classes whose
                instances share only the scheme and part of the host (no stem) under changing thresholds; the prefix 'sh' bound
                to a non-SHACL namespace (control 'shop'): SHACL call followed by ShExC calls, PREFIX lines == those of the arguments.

Finding keys
    C18:file-vs-string:<ShEx|Shacl|profile>          file text differs from the returned string (fresh Shapers)
    C18:file-vs-string:ShEx:long-output              long text (either sink) is not header + the shape blocks of the slices
    C18:repeat-call:examples-duplicated              only difference: `// rdfs:comment` example lines printed more than once
    C18:repeat-call:<shexc-text|shacl-graph|profile> a call differs from the fresh control for a reason not explained below
    C18:repeat-call:minimal-iri                      only the [<stem>~] / sh:pattern of a shape differs from the fresh control
    C18:repeat-call:crash:<function>                 a call raises on the used Shaper although it returns on a fresh one
    C18:[repeat-call:]prefix-lines                   PREFIX lines of a ShExC text are not those determined by the arguments
    C18:stale-threshold                              ... and agrees once the earlier calls use this call's threshold
    C18:stale-format                                 ... and agrees once the earlier calls use this call's output format
    C18:shaper-interference:<A|B>-output-differs     a Shaper sharing argument objects with another one differs from its control
    C18:shaper-interference:target-classes-mutated   the caller's target_classes list was changed
    C18:caller-dict-mutated                          the caller's namespaces dictionary was changed

    run(pid, tier, seed) -> dict      replay(doc) -> (ok, message)
    python -m bounded.history run C18 [quick|thorough] [seed]
    python -m bounded.history selftest
Label: bounded -- evidence by testing, never a proof.
"""
import collections
import copy
import hashlib
import json
import multiprocessing
import os
import random
import shutil
import signal
import sys
import tempfile
import time

try:
    from . import _pipeline_util as U
except ImportError:                                    # executed as a plain script
    sys.path.insert(0, os.path.dirname(os.path.abspath(__file__)))
    import _pipeline_util as U

PID = "C18"
PIDS = (PID,)
WORKERS = 12
MAX_FINDINGS = 10
SHEX, SHACL = "ShEx", "Shacl"
THRESHOLDS = (0, 0.5, 1)
FLUSH = 5000                                           # ShexSerializer flushes its line buffer every 5000 lines
LONG_LINES = 10500

ALPHABET = [{"op": "shex", "fmt": f, "sink": s, "t": t} for f in (SHEX, SHACL) for s in ("string", "file") for t in THRESHOLDS] + \
           [{"op": "profile", "sink": s} for s in ("string", "file")]

VARIANTS = [{}, {"examples_mode": "all"}, {"detect_minimal_iri": True}, {"examples_mode": "all", "detect_minimal_iri": True}]


# ------------------------------------------------------------------------------------------------
# graphs
# ------------------------------------------------------------------------------------------------
def _gen_many_classes(spec, lo=None, hi=None):
    """`n` unrelated classes C0..C(n-1) with one instance each carrying ex:p "x"; the last class carries `extra` more
    properties.  Its ShExC text has 6 + 7 n + extra lines (4 user prefixes).  lo/hi: slice of the classes."""
    M, S, G = U.lib()
    n, extra = spec["n"], spec.get("extra", 0)
    lo, hi = (0 if lo is None else lo), (n if hi is None else hi)
    T = []
    for c in range(lo, hi):
        x = M.IRI(G.EX + "s%d" % c)
        T.append(M.Triple(x, M.RDF_TYPE, M.IRI(G.EX + "C%d" % c)))
        T.append(M.Triple(x, G.EX + "p", M.Lit("x")))
        if c == n - 1:
            for k in range(extra):
                T.append(M.Triple(x, G.EX + "e%d" % k, M.Lit("1", dt=M.XSD_INTEGER)))
    return T


def _gen_many_props(spec):
    """one class, two instances, `n` distinct properties (examples_mode='all' prints two lines per property)."""
    M, S, G = U.lib()
    a, b = M.IRI(G.EX + "s1"), M.IRI(G.EX + "s2")
    T = [M.Triple(a, M.RDF_TYPE, M.IRI(G.CLASS_A)), M.Triple(b, M.RDF_TYPE, M.IRI(G.CLASS_A))]
    for i in range(spec["n"]):
        T.append(M.Triple(a, G.EX + "p%d" % i, M.Lit("x")))
        if i % 2 == 0:
            T.append(M.Triple(b, G.EX + "p%d" % i, M.Lit("2", dt=M.XSD_INTEGER)))
    return T


def graph_nt(graph, lo=None, hi=None):
    if "nt" in graph:
        return graph["nt"]
    spec = graph["gen"]
    if spec["kind"] == "many-classes":
        return U.to_nt(_gen_many_classes(spec, lo, hi))
    if spec["kind"] == "many-props":
        return U.to_nt(_gen_many_props(spec))
    raise ValueError("unknown generator %r" % (spec,))


# ------------------------------------------------------------------------------------------------
# guarded sheXer calls
# ------------------------------------------------------------------------------------------------
class _Book(object):
    """Book-keeping of one case."""

    def __init__(self):
        self.evaluations = 0
        self.crashes = collections.Counter()
        self.nontrivial = set()
        self.findings = []
        self.stats = collections.Counter()
        self.max_lines = 0

    def emit(self, key, what, case, **detail):
        inp = {"case": case}
        inp.update(detail)
        self.findings.append({"key": key, "what": what, "input": inp})


def _guard(R, fn, *args, **kw):
    """fn(*args) under the wall-clock guard; raises U.Skipped on crash / timeout."""
    e = U.env()
    old = signal.signal(signal.SIGALRM, U._on_alarm)
    signal.alarm(kw.pop("_timeout", U.TIMEOUT))
    try:
        return fn(*args, **kw)
    except U.WallClockTimeout:
        R.crashes["timeout"] += 1
        raise U.Skipped("timeout")
    except Exception as exc:
        sig = e.V.crash_signature(exc)
        R.crashes[sig] += 1
        raise U.Skipped(sig)
    finally:
        signal.alarm(0)
        signal.signal(signal.SIGALRM, old)


def _ctor_kwargs(cfg):
    kw = dict(cfg)
    kw.pop("namespaces_dict", None)
    kw.pop("target_classes", None)
    kw.setdefault("instances_report_mode", "mixed")
    kw.setdefault("disable_comments", False)
    if not kw.get("all_classes_mode") and cfg.get("target_classes") is None and not kw.get("shape_map_raw"):
        kw["all_classes_mode"] = True
    return kw


def _default_ns(cfg):
    G = U.lib()[2]
    ns = cfg.get("namespaces_dict")
    return dict(ns) if ns is not None else dict(G.NAMESPACES)


def make_shaper(R, nt, cfg, ns=None, tc=None):
    """Fresh Shaper on N-Triples text; ns / tc: the very objects to hand over (default: private copies of cfg's)."""
    U.env()
    Shaper = sys.modules["shexer.shaper"].Shaper
    if ns is None:
        ns = _default_ns(cfg)
    if tc is None and cfg.get("target_classes") is not None:
        tc = list(cfg["target_classes"])
    kw = _ctor_kwargs(cfg)
    if tc is not None:
        kw["target_classes"] = tc
    return _guard(R, lambda: Shaper(raw_graph=nt, input_format="nt", namespaces_dict=ns, **kw))


def do_call(R, shaper, call, tmpdir, timeout=None):
    """-> text of the result (file sinks: the decoded bytes of the file)."""
    R.evaluations += 1
    path = None
    if call["sink"] == "file":
        fd, path = tempfile.mkstemp(dir=tmpdir, suffix=".out")
        os.close(fd)
        with open(path, "w") as fh:                     # stale content must not survive the call
            fh.write("STALE CONTENT OF AN EARLIER RUN\n" * 3)
    kw = {"_timeout": timeout} if timeout else {}
    if call["op"] == "profile":
        if path is None:
            return _guard(R, lambda: shaper.profile_graph(string_output=True), **kw)
        _guard(R, lambda: shaper.profile_graph(output_file=path), **kw)
    else:
        if path is None:
            return _guard(R, lambda: shaper.shex_graph(string_output=True, output_format=call["fmt"],
                                                       acceptance_threshold=call["t"]), **kw)
        _guard(R, lambda: shaper.shex_graph(output_file=path, output_format=call["fmt"], acceptance_threshold=call["t"]), **kw)
    with open(path, "rb") as fh:
        raw = fh.read()
    os.remove(path)
    try:
        return raw.decode("utf-8")
    except UnicodeDecodeError:
        return raw.decode("latin-1")


_ISO_CACHE = {}


def shacl_digest(text):
    """Canonical (blank-node independent) digest of a SHACL Turtle document; ('unparsable', text) if rdflib rejects it."""
    h = hashlib.blake2b(text.encode("utf-8"), digest_size=12).hexdigest()
    if h not in _ISO_CACHE:
        import rdflib
        import rdflib.compare
        try:
            g = rdflib.Graph().parse(data=text, format="turtle")
            val = (len(g), rdflib.compare.to_isomorphic(g).internal_hash())
        except Exception as exc:
            val = ("unparsable", h, type(exc).__name__)
        if len(_ISO_CACHE) > 4000:
            _ISO_CACHE.clear()
        _ISO_CACHE[h] = val
    return _ISO_CACHE[h]


def fmt_of(call):
    return "profile" if call["op"] == "profile" else call["fmt"]


def same(fmt, a, b):
    if a is None or b is None:
        return a is b
    if fmt == SHACL:
        return a == b or shacl_digest(a) == shacl_digest(b)
    return a == b


def call_text(call):
    if call["op"] == "profile":
        return "profile_graph(%s)" % ("string_output=True" if call["sink"] == "string" else "output_file=F")
    return "shex_graph(%s, output_format=%r, acceptance_threshold=%r)" % (
        "string_output=True" if call["sink"] == "string" else "output_file=F", call["fmt"], call["t"])


def _is_nontrivial(fmt, text):
    if text is None:
        return False
    if fmt == SHEX:
        return "{\n   " in text
    if fmt == SHACL:
        return "property" in text
    return len(text) > 4


def first_diff(a, b):
    la, lb = a.split("\n"), b.split("\n")
    for i in range(max(len(la), len(lb))):
        x = la[i] if i < len(la) else "<end of text>"
        y = lb[i] if i < len(lb) else "<end of text>"
        if x != y:
            return "line %d: %r vs %r (%d vs %d lines)" % (i + 1, x[:160], y[:160], len(la), len(lb))
    return "identical"


def collapse_examples(text):
    """ShExC text with consecutive identical `// rdfs:comment` lines collapsed into one."""
    out = []
    for line in text.split("\n"):
        if out and line == out[-1] and line.strip().startswith("// rdfs:comment"):
            continue
        out.append(line)
    return "\n".join(out)


# ================================================================================================
# checks
# ================================================================================================
def _blocks(text):
    """(header, [shape blocks]) of a ShExC text: header = lines up to and including the first empty line."""
    lines = text.split("\n")
    try:
        k = lines.index("")
    except ValueError:
        return text, []
    header = "\n".join(lines[:k + 1])
    blocks, cur = [], []
    for line in lines[k + 1:]:
        cur.append(line)
        if line.startswith("}"):
            blocks.append("\n".join(cur).strip("\n"))
            cur = []
    rest = "\n".join(cur).strip("\n")
    if rest:
        blocks.append("TRAILING:" + rest)
    return header, blocks


def check_sink(case, R):
    """(a): file vs string on fresh Shapers; long-output reference by slices."""
    graph, cfg = case["graph"], case["cfg"]
    nt = graph_nt(graph)
    tmo = case.get("timeout")
    tmp = tempfile.mkdtemp(prefix="c18_")
    try:
        for call in case["calls"]:
            fmt = fmt_of(call)
            one = dict(case, calls=[call])
            try:
                s_text = do_call(R, make_shaper(R, nt, cfg), dict(call, sink="string"), tmp, tmo)
                f_text = do_call(R, make_shaper(R, nt, cfg), dict(call, sink="file"), tmp, tmo)
            except U.Skipped:
                continue
            if _is_nontrivial(fmt, s_text):
                R.nontrivial.add(U.digest(nt, cfg, json.dumps(call, sort_keys=True)))
            if fmt == SHEX:
                R.max_lines = max(R.max_lines, s_text.count("\n"))
            if not same(fmt, s_text, f_text):
                R.emit("C18:file-vs-string:%s" % fmt,
                       "%s: the file written by a fresh Shaper differs from the string returned by a fresh Shaper (%d vs %d "
                       "characters); %s" % (call_text(call), len(f_text), len(s_text),
                                            first_diff(f_text, s_text) if fmt != SHACL else "graphs are not isomorphic"),
                       one, observed=f_text[:400], expected=s_text[:400])
            if fmt == SHEX and case.get("slices"):
                spec = graph["gen"]
                k = case["slices"]
                bounds = [(i * spec["n"]) // k for i in range(k + 1)]
                ref_blocks, header = [], None
                try:
                    for lo, hi in zip(bounds, bounds[1:]):
                        part = do_call(R, make_shaper(R, graph_nt(graph, lo, hi), cfg), dict(call, sink="string"), tmp, tmo)
                        h, b = _blocks(part)
                        header = h if header is None else header
                        ref_blocks += b
                except U.Skipped:
                    continue
                for sink, text in (("string", s_text), ("file", f_text)):
                    h, b = _blocks(text)
                    if h != header or collections.Counter(b) != collections.Counter(ref_blocks):
                        extra = collections.Counter(b) - collections.Counter(ref_blocks)
                        missing = collections.Counter(ref_blocks) - collections.Counter(b)
                        R.emit("C18:file-vs-string:ShEx:long-output",
                               "%s sink: the text of %d lines is not the header plus the %d shape blocks printed for %d slices of "
                               "the same graph (classes are unrelated): %d block(s) too many, %d missing, header %s; first surplus "
                               "block: %r" % (sink, text.count("\n"), len(ref_blocks), k, sum(extra.values()),
                                              sum(missing.values()), "equal" if h == header else "differs",
                                              (list(extra) or [""])[0][:200]),
                               one, observed=len(b), expected=len(ref_blocks))
                        break
    finally:
        shutil.rmtree(tmp, ignore_errors=True)


class _Controls(object):
    """Results of single calls on fresh Shapers with the same constructor arguments (per graph and configuration)."""

    def __init__(self, R, nt, cfg, tmp):
        self.R, self.nt, self.cfg, self.tmp, self.d = R, nt, cfg, tmp, {}

    def get(self, call):
        key = json.dumps(call, sort_keys=True)
        if key not in self.d:
            try:
                self.d[key] = do_call(self.R, make_shaper(self.R, self.nt, self.cfg), call, self.tmp)
            except U.Skipped as exc:
                self.d[key] = exc
        v = self.d[key]
        if isinstance(v, U.Skipped):
            raise v
        return v


def _run_sequence(R, nt, cfg, seq, tmp):
    """Results of the calls of seq on ONE Shaper; a crashing call yields its U.Skipped and ends the sequence (rest: None)."""
    out = []
    try:
        shaper = make_shaper(R, nt, cfg)
    except U.Skipped:
        return [None] * len(seq)
    for call in seq:
        try:
            out.append(do_call(R, shaper, call, tmp))
        except U.Skipped as exc:
            out.append(exc)
            break
    return out + [None] * (len(seq) - len(out))


def _same_but_examples(fmt, a, b):
    """same(), blind to the (separately reported) repetition of example annotations."""
    return same(fmt, a, b) or (fmt == SHEX and collapse_examples(a) == collapse_examples(b))


_RE_STEM = None


def _same_but_min_iri(fmt, a, b):
    """Do the two results differ only in the minimal IRI of shapes ([<stem>~] in ShExC, sh:pattern in SHACL)?"""
    import re
    global _RE_STEM
    if _RE_STEM is None:
        _RE_STEM = re.compile(r"  \[<[^>]*>~\]  AND")
    if fmt == SHEX:
        return a != b and _RE_STEM.sub("", a) == _RE_STEM.sub("", b)
    if fmt != SHACL:
        return False
    import rdflib
    import rdflib.compare
    try:
        ga, gb = rdflib.Graph().parse(data=a, format="turtle"), rdflib.Graph().parse(data=b, format="turtle")
    except Exception:
        return False
    pattern = rdflib.URIRef("http://www.w3.org/ns/shacl#pattern")
    if not (list(ga.triples((None, pattern, None))) or list(gb.triples((None, pattern, None)))):
        return False
    for g in (ga, gb):
        g.remove((None, pattern, None))
    return rdflib.compare.isomorphic(ga, gb)


def expected_prefix_lines(cfg):
    """PREFIX lines of a ShExC text as determined by the constructor arguments alone (N-Triples input: nothing is parsed in):
    the caller's namespaces in their order, then the shapes namespace under the first free default prefix."""
    ns = _default_ns(cfg)
    shapes_ns = cfg.get("shapes_namespace", U.SHAPES_NS)
    free = [p for p in ("", "weso-s", "shapes", "w-shapes") if p not in ns.values()]
    if not free:
        return None                                     # a random prefix is legitimate
    ns[shapes_ns] = free[0]
    return ["PREFIX %s: <%s>" % (p, n) for n, p in ns.items()]


def _classify(R, nt, cfg, seq, i, got, want, tmp):
    """Key and explanation for: call i of seq returned `got`, the fresh control returned `want`."""
    call = seq[i]
    fmt = fmt_of(call)
    what = {SHEX: "shexc-text", SHACL: "shacl-graph", "profile": "profile"}[fmt]
    detail = first_diff(got, want) if fmt != SHACL else "the SHACL graphs are not isomorphic (%r vs %r)" % (
        shacl_digest(got)[:1], shacl_digest(want)[:1])
    if fmt == SHEX and got != want and collapse_examples(got) == collapse_examples(want):
        return ("C18:repeat-call:examples-duplicated",
                "the `// rdfs:comment` example annotations are printed more than once; " + detail)
    if call["op"] == "shex" and _same_but_min_iri(fmt, got, want):
        return ("C18:repeat-call:minimal-iri",
                "only the minimal IRI of a shape ([<stem>~] / sh:pattern) differs: the stem printed depends on the earlier calls; " + detail)
    if call["op"] == "shex":
        earlier = [c for c in seq[:i] if c["op"] == "shex"]
        if any(c["t"] != call["t"] for c in earlier):
            alt = [dict(c, t=call["t"]) if c["op"] == "shex" else c for c in seq[:i]] + [call]
            res = _run_sequence(R, nt, cfg, alt, tmp)
            if isinstance(res[i], str) and _same_but_examples(fmt, res[i], want):
                stale = [c["t"] for c in earlier if c["t"] != call["t"]]
                return ("C18:stale-threshold",
                        "the call agrees with its control once the earlier calls use acceptance_threshold=%r instead of %r: the "
                        "threshold of an earlier call is still in force; %s" % (call["t"], stale, detail))
        if any(c["fmt"] != call["fmt"] for c in earlier):
            alt = [dict(c, fmt=call["fmt"]) if c["op"] == "shex" else c for c in seq[:i]] + [call]
            res = _run_sequence(R, nt, cfg, alt, tmp)
            if isinstance(res[i], str) and _same_but_examples(fmt, res[i], want):
                return ("C18:stale-format",
                        "the call agrees with its control once the earlier calls use output_format=%r as well: an earlier call "
                        "with another output format leaves a trace in this one; %s" % (call["fmt"], detail))
    return ("C18:repeat-call:%s" % what, detail)


def check_seq(case, R):
    """(b): every call of every sequence equals the same call on a fresh Shaper."""
    graph, cfg = case["graph"], case["cfg"]
    nt = graph_nt(graph)
    tmp = tempfile.mkdtemp(prefix="c18_")
    try:
        ctl = _Controls(R, nt, cfg, tmp)
        sens = set()
        for seq in case["seqs"]:
            res = _run_sequence(R, nt, cfg, seq, tmp)
            R.stats["sequences"] += 1
            for i, (call, got) in enumerate(zip(seq, res)):
                if got is None:
                    break
                try:
                    want = ctl.get(call)
                except U.Skipped:
                    break
                if isinstance(got, U.Skipped):
                    if i > 0:                          # the call works on a fresh Shaper and crashes after the earlier calls
                        R.emit("C18:repeat-call:crash:%s" % got.signature.split(":")[-1].strip(),
                               "call %d of [%s] on one Shaper raises (%s) although the same call on a fresh Shaper returns normally"
                               % (i + 1, "; ".join(call_text(c) for c in seq[:i + 1]), got.signature),
                               dict(case, seqs=[seq[:i + 1]]), observed=got.signature, expected=want[:600])
                    break
                fmt = fmt_of(call)
                if _is_nontrivial(fmt, want):
                    R.nontrivial.add(U.digest(nt, cfg, json.dumps(seq[:i + 1], sort_keys=True)))
                if call["op"] == "shex" and fmt == SHEX:
                    sens.add(want)
                    if i == 0 and " OR " in want:
                        R.stats["first_calls_printing_OR"] += 1
                    if i == 0 and "~]  AND" in want and "remove_empty_shapes" in cfg:
                        R.stats["first_calls_printing_stem_of_kept_empty_shape"] += 1
                if same(fmt, got, want):
                    if fmt == SHEX and "namespaces_dict" in cfg:
                        exp = expected_prefix_lines(cfg)
                        have = [ln for ln in got.split("\n") if ln.startswith("PREFIX ")]
                        if exp is not None and have != exp:
                            R.emit("C18:repeat-call:prefix-lines" if i else "C18:prefix-lines",
                                   "call %d of [%s]: the PREFIX lines are not those determined by the arguments (also on a fresh Shaper): "
                                   "surplus %r, missing %r" % (i + 1, "; ".join(call_text(c) for c in seq[:i + 1]),
                                                               [x for x in have if x not in exp], [x for x in exp if x not in have]),
                                   dict(case, seqs=[seq[:i + 1]]), observed=have, expected=exp)
                    continue
                key, why = _classify(R, nt, cfg, seq, i, got, want, tmp)
                R.emit(key, "call %d of [%s] on one Shaper differs from the same call on a fresh Shaper: %s"
                       % (i + 1, "; ".join(call_text(c) for c in seq[:i + 1]), why),
                       dict(case, seqs=[seq[:i + 1]]), observed=got[:600], expected=want[:600])
                if key != "C18:repeat-call:examples-duplicated":
                    break
        if len(sens) > 1:
            R.stats["threshold_sensitive_cases"] += 1
    finally:
        shutil.rmtree(tmp, ignore_errors=True)


def check_pair(case, R):
    """(c): Shapers A and B built from the same namespaces_dict / target_classes objects.
    script: list of steps "A" / "B" (construct) and "a" / "b" (run the Shaper's call)."""
    graph, cfgA, cfgB = case["graph"], case["cfgA"], case["cfgB"]
    callA, callB = case["callA"], case["callB"]
    ntA = graph_nt(graph)
    ntB = graph_nt(case["graphB"]) if case.get("graphB") else ntA
    ns = _default_ns(cfgA)
    tc = list(cfgA["target_classes"]) if cfgA.get("target_classes") is not None else None
    ns0, tc0 = copy.deepcopy(ns), copy.deepcopy(tc)
    tmp = tempfile.mkdtemp(prefix="c18_")
    try:
        shapers, outs = {}, {}
        try:
            for step in case["script"]:
                if step == "A":
                    shapers["A"] = make_shaper(R, ntA, cfgA, ns=ns, tc=tc)
                elif step == "B":
                    shapers["B"] = make_shaper(R, ntB, dict(cfgB, target_classes=cfgA.get("target_classes")), ns=ns, tc=tc)
                elif step == "a":
                    outs.setdefault("A", do_call(R, shapers["A"], callA, tmp))
                elif step == "b":
                    outs.setdefault("B", do_call(R, shapers["B"], callB, tmp))
        except U.Skipped:
            return
        if ns != ns0:
            diff = sorted((k, ns0.get(k), ns.get(k)) for k in set(ns) | set(ns0) if ns0.get(k, None) != ns.get(k, None)
                          or (k in ns) != (k in ns0))
            R.emit("C18:caller-dict-mutated", "after the script %r the caller's namespaces_dict differs from the copy taken before: "
                   "(namespace, prefix before, prefix after) = %r" % ("".join(case["script"]), diff[:4]),
                   case, observed=ns, expected=ns0)
        if tc != tc0:
            R.emit("C18:shaper-interference:target-classes-mutated", "after the script %r the caller's target_classes list is %r, "
                   "was %r" % ("".join(case["script"]), tc, tc0), case, observed=tc, expected=tc0)
        for name, nt, cfg, call in (("A", ntA, cfgA, callA), ("B", ntB, dict(cfgB, target_classes=cfgA.get("target_classes")), callB)):
            if name not in outs:
                continue
            try:
                ctl_cfg = dict(cfg, namespaces_dict=ns0)
                want = do_call(R, make_shaper(R, nt, ctl_cfg, ns=copy.deepcopy(ns0), tc=copy.deepcopy(tc0)), call, tmp)
            except U.Skipped:
                continue
            fmt = fmt_of(call)
            if _is_nontrivial(fmt, want):
                R.nontrivial.add(U.digest(nt, cfg, json.dumps([case["script"], name, call], sort_keys=True)))
            if not same(fmt, outs[name], want):
                R.emit("C18:shaper-interference:%s-output-differs" % name,
                       "script %r (A, B = construct with the same namespaces_dict/target_classes objects; a, b = %s / %s): the output "
                       "of Shaper %s differs from the output of a control Shaper built from private copies of the arguments: %s"
                       % ("".join(case["script"]), call_text(callA), call_text(callB), name,
                          first_diff(outs[name], want) if fmt != SHACL else "SHACL graphs not isomorphic"),
                       case, observed=outs[name][:600], expected=want[:600])
    finally:
        shutil.rmtree(tmp, ignore_errors=True)


CHECKS = {"sink": check_sink, "seq": check_seq, "pair": check_pair}


# ================================================================================================
# case generation
# ================================================================================================
SIZES = {   # graphs for (b), sampled sequences per (graph, variant), exhaustive graphs, graphs for (a)/(c), long graphs
    "selftest": {"graphs": 4, "sample": 10, "exhaustive": 0, "sink_graphs": 6, "pair_graphs": 4},
    "quick": {"graphs": 12, "sample": 40, "exhaustive": 6, "sink_graphs": 300, "pair_graphs": 180},
    "thorough": {"graphs": 24, "sample": 150, "exhaustive": 20, "sink_graphs": 1500, "pair_graphs": 900},
}


def _mode(gi):
    G = U.lib()[2]
    return ({"all_classes_mode": True}, {"target_classes": [G.CLASS_A, G.CLASS_B]}, {"all_classes_mode": True, "inverse_paths": True})[gi % 3]


def _long_cases(tier):
    one = {"op": "shex", "fmt": SHEX, "sink": "string", "t": 0}

    def mc(n, extra=0, slices=8):
        return {"kind": "sink", "graph": {"gen": {"kind": "many-classes", "n": n, "extra": extra}}, "cfg": {"all_classes_mode": True},
                "calls": [one], "slices": slices, "timeout": 60}
    if tier == "selftest":                               # just over one flush: a broken buffer must not cost minutes
        return [mc(715, 0, 4)]
    out = [mc(1800)]                                    # 12 606 lines
    if tier == "thorough":
        out += [mc(713, 2), mc(713, 3), mc(713, 4), mc(1427, 5), mc(1427, 4), mc(2300, 1), mc(1500, 3)]
        out += [{"kind": "sink", "graph": {"gen": {"kind": "many-props", "n": 5300}},
                 "cfg": {"all_classes_mode": True, "examples_mode": "all"}, "calls": [one], "timeout": 60},
                dict(mc(1600), calls=[{"op": "profile", "sink": "string"}], slices=0),
                dict(mc(150), calls=[{"op": "shex", "fmt": SHACL, "sink": "string", "t": 0}], slices=0)]   # (canonicalisation is slow)
    return out


def _fixed_seqs():
    s, f = "string", "file"

    def x(fmt, sink, t):
        return {"op": "shex", "fmt": fmt, "sink": sink, "t": t}
    P = {"op": "profile", "sink": s}
    return [[x(SHEX, s, 0), x(SHEX, s, 0)], [x(SHEX, s, 0), x(SHEX, s, 1)], [x(SHEX, s, 1), x(SHEX, s, 0.5), x(SHEX, s, 0)],
            [x(SHACL, s, 0), x(SHEX, s, 0)], [x(SHEX, s, 0.5), x(SHACL, s, 0.5), x(SHEX, f, 0.5)], [x(SHACL, s, 0), x(SHACL, f, 1)],
            [P, x(SHEX, s, 0.5), P], [x(SHEX, f, 0), P, x(SHACL, s, 1)], [x(SHACL, s, 1), x(SHACL, s, 1), x(SHEX, s, 0)]]


def gen_cases(tier, seed):
    M, S, G = U.lib()
    rng = random.Random("C18|%s|%s" % (tier, seed))
    sz = SIZES[tier]
    cases = []
    # ---- (b) sequences -------------------------------------------------------------------------
    fam = U.mixed_family(rng, sz["graphs"] // 3, sz["graphs"] - sz["graphs"] // 3, bnodes=True, big=False)
    fixed = _fixed_seqs()
    for gi, (origin, T) in enumerate(fam):
        nt = U.to_nt(T)
        for vi, var in enumerate(VARIANTS):
            cfg = dict(_mode(gi + vi), **var)
            seqs = [[rng.choice(ALPHABET) for _ in range(3)] for _ in range(sz["sample"])]
            seqs += [fixed[(gi * 4 + vi + k * 5) % len(fixed)] for k in range(2)]
            for k in range(0, len(seqs), 40):
                cases.append({"kind": "seq", "origin": origin, "graph": {"nt": nt}, "cfg": cfg, "seqs": seqs[k:k + 40]})
        if gi < sz["exhaustive"]:
            cfg = dict(_mode(gi), **VARIANTS[gi % len(VARIANTS)])
            for first in ALPHABET:                      # all 14^3 sequences of length 3 (their prefixes are the shorter ones)
                seqs = [[first, b, c] for b in ALPHABET for c in ALPHABET]
                cases.append({"kind": "seq", "origin": origin, "graph": {"nt": nt}, "cfg": cfg, "seqs": seqs})
    # ---- (b') OR statements: the same ShExC call repeated (SHACL rejects choice statements: a known C04 matter) -------------------
    shex_ops = [c for c in ALPHABET if c["op"] == "profile" or c["fmt"] == SHEX]

    def sx(sink, t):
        return {"op": "shex", "fmt": SHEX, "sink": sink, "t": t}
    or_fixed = [[sx("string", 0), sx("string", 0)], [sx("string", 0), sx("file", 0)], [sx("string", 0), sx("string", 0), sx("string", 0)],
                [sx("file", 0.5), sx("string", 0.5)], [sx("string", 0.5), {"op": "profile", "sink": "string"}, sx("file", 0.5)],
                [sx("string", 0), sx("string", 1), sx("string", 0)]]
    a1, b1, c1, c2 = [M.IRI(G.EX + n) for n in ("a1", "b1", "c1", "c2")]
    crafted = [M.Triple(a1, M.RDF_TYPE, M.IRI(G.CLASS_A)), M.Triple(a1, M.RDF_TYPE, M.IRI(G.CLASS_B)),
               M.Triple(b1, M.RDF_TYPE, M.IRI(G.CLASS_B)), M.Triple(b1, M.RDF_TYPE, M.IRI(G.CLASS_A)),
               M.Triple(c1, M.RDF_TYPE, M.IRI(G.EX + "C")), M.Triple(c2, M.RDF_TYPE, M.IRI(G.EX + "C")),
               M.Triple(c1, G.PROP_P, a1), M.Triple(c2, G.PROP_P, b1), M.Triple(a1, G.PROP_Q, M.Lit("x")), M.Triple(b1, G.PROP_Q, c1)]
    for gi, (origin, T) in enumerate([("crafted-or", crafted)] + fam):
        for red in (True, False):
            cfg = dict(({"all_classes_mode": True}, {"all_classes_mode": True, "inverse_paths": True})[gi % 2],
                       disable_or_statements=False, allow_redundant_or=red)
            seqs = or_fixed + [[rng.choice(shex_ops) for _ in range(3)] for _ in range(max(4, sz["sample"] // 4))]
            cases.append({"kind": "seq", "origin": origin, "graph": {"nt": U.to_nt(T)}, "cfg": cfg, "seqs": seqs})
    # ---- (b'') minimal IRI of a shape-map shape that is empty at threshold 1 and kept (remove_empty_shapes=False) --------------
    for gi, (stem, n1, n2) in enumerate((("http://ex.org/people/", "alice", "albert"), ("http://ex.org/item-", "10", "11"),
                                         ("http://other.org/ns#", "node_a", "node_b"), ("http://ex.org/people/", "bob", "bo"))):
        x, y, z = M.IRI(stem + n1), M.IRI(stem + n2), M.IRI(G.EX + "s1")
        T = [M.Triple(x, G.EX + "name", M.Lit("a")), M.Triple(y, G.EX + "age", M.Lit("3", dt=M.XSD_INTEGER)),
             M.Triple(x, M.RDF_TYPE, M.IRI(G.CLASS_A)), M.Triple(z, M.RDF_TYPE, M.IRI(G.CLASS_A)), M.Triple(z, G.PROP_P, M.Lit("x")),
             M.Triple(z, G.PROP_Q, y)]
        sm = "<%s>@ex:Pair\n<%s>@ex:Pair\n{FOCUS a ex:A}@ex:L1" % (x.iri, y.iri)
        for inv in (False, True):
            cfg = {"shape_map_raw": sm, "detect_minimal_iri": True, "remove_empty_shapes": False}
            if inv:
                cfg["inverse_paths"] = True
            seqs = []
            for fmt in (SHEX, SHACL):
                for sink in ("string", "file"):
                    lo, mid, hi = [{"op": "shex", "fmt": fmt, "sink": sink, "t": t} for t in THRESHOLDS]
                    seqs += [[hi], [lo, hi], [hi, lo], [lo, hi, lo], [hi, hi], [mid, hi], [hi, mid, hi]]
            seqs += [[rng.choice(ALPHABET) for _ in range(3)] for _ in range(max(4, sz["sample"] // 4))]
            cases.append({"kind": "seq", "origin": "min-iri-shape-map", "graph": {"nt": U.to_nt(T)}, "cfg": cfg, "seqs": seqs})
    # ---- (b3) no usable stem: instances share the scheme and part of the host only; calls with different thresholds -------------
    hosts = (("example.org/a1", "example.com/b2", "example.net/c3"), ("exa.org/x", "exb.org/y", "exc.org/z"),
             ("a.example/1", "b.example/2", "c.example/3"))
    for gi, hs in enumerate(hosts):
        T = []
        for i, h in enumerate(hs):
            x = M.IRI(("http://" if gi != 2 else "https://") + h)
            T += [M.Triple(x, M.RDF_TYPE, M.IRI(G.CLASS_A)), M.Triple(x, G.PROP_P, M.Lit("x"))]
            if i:
                T.append(M.Triple(x, G.PROP_Q, M.IRI(G.EX + "s1")))
        T += [M.Triple(M.IRI(G.EX + "s1"), M.RDF_TYPE, M.IRI(G.CLASS_B)), M.Triple(M.IRI(G.EX + "s2"), M.RDF_TYPE, M.IRI(G.CLASS_B)),
              M.Triple(M.IRI(G.EX + "s1"), G.PROP_P, M.Lit("1", dt=M.XSD_INTEGER))]
        for cfg in ({"all_classes_mode": True, "detect_minimal_iri": True},
                    {"target_classes": [G.CLASS_A, G.CLASS_B], "detect_minimal_iri": True, "inverse_paths": True}):
            seqs = []
            for fmt in (SHEX, SHACL):
                for sink in ("string", "file"):
                    lo, mid, hi = [{"op": "shex", "fmt": fmt, "sink": sink, "t": t} for t in THRESHOLDS]
                    seqs += [[lo, hi], [hi, lo], [lo, mid, hi], [mid, lo], [hi, mid, lo], [lo, lo, hi]]
            seqs += [[rng.choice(ALPHABET) for _ in range(3)] for _ in range(max(4, sz["sample"] // 4))]
            cases.append({"kind": "seq", "origin": "scheme-only-prefix", "graph": {"nt": U.to_nt(T)}, "cfg": cfg, "seqs": seqs})
    # ---- (b4) the prefix 'sh' bound to a non-SHACL namespace (control: 'shop'): SHACL call, then ShExC calls ----------------------
    shop = "http://shop.example/"
    for gi, (origin, T) in enumerate(fam[:max(3, len(fam) // 2)]):
        subj = [s_ for (s_, p_, o_) in T if isinstance(s_, M.IRI)][0]
        T = T + [M.Triple(subj, shop + "price", M.Lit("3", dt=M.XSD_INTEGER))]
        for label in ("sh", "shop"):
            cfg = dict(_mode(gi), namespaces_dict=dict(G.NAMESPACES, **{shop: label}))
            seqs = []
            for s1 in ("string", "file"):
                for s2 in ("string", "file"):
                    sa, sb = {"op": "shex", "fmt": SHACL, "sink": s1, "t": 0}, {"op": "shex", "fmt": SHEX, "sink": s2, "t": 0}
                    seqs += [[sa, sb], [sa, sb, sb], [sb, sa, sb], [sa, dict(sb, t=0.5)]]
            seqs += [[rng.choice(ALPHABET) for _ in range(3)] for _ in range(max(4, sz["sample"] // 4))]
            cases.append({"kind": "seq", "origin": "sh-prefix-taken", "graph": {"nt": U.to_nt(T)}, "cfg": cfg, "seqs": seqs})
    # ---- (a) sinks ------------------------------------------------------------------------------
    calls = [{"op": "shex", "fmt": SHEX, "sink": "string", "t": 0}, {"op": "shex", "fmt": SHACL, "sink": "string", "t": 0},
             {"op": "shex", "fmt": SHEX, "sink": "string", "t": 0.5}, {"op": "profile", "sink": "string"}]
    fam = U.mixed_family(rng, sz["sink_graphs"] // 2, sz["sink_graphs"] - sz["sink_graphs"] // 2, bnodes=True, big=(tier == "thorough"))
    for gi, (origin, T) in enumerate(fam):
        if gi % 5 == 0:                                  # non-ASCII and escaped lexical forms reach the text through the examples
            s0 = T[0][0]
            T = T + [M.Triple(s0, G.EX + "label", M.Lit(u"café 中")), M.Triple(s0, G.EX + "note", M.Lit('q"uo\\te'))]
        cases.append({"kind": "sink", "origin": origin, "graph": {"nt": U.to_nt(T)},
                      "cfg": dict(_mode(gi), **VARIANTS[gi % len(VARIANTS)]), "calls": calls})
    cases += _long_cases(tier)
    # ---- (c) pairs ------------------------------------------------------------------------------
    ns_variants = [None, dict(G.NAMESPACES, **{"http://x.org/": ""}), dict(G.NAMESPACES, **{U.SHAPES_NS: "sx"}),
                   dict(G.NAMESPACES, **{"http://x.org/": "", "http://y.org/": "weso-s", "http://z.org/": "shapes"})]
    scripts = ["ABa", "ABba", "ABab", "AaBba", "BAa", "ABbab"]
    fam = U.mixed_family(rng, sz["pair_graphs"] // 2, sz["pair_graphs"] - sz["pair_graphs"] // 2, bnodes=False, big=False)
    for gi, (origin, T) in enumerate(fam):
        base = dict(_mode(gi), **VARIANTS[gi % len(VARIANTS)])
        if ns_variants[gi % 4] is not None:
            base["namespaces_dict"] = ns_variants[gi % 4]
        cfgB = dict((k, v) for k, v in base.items() if k != "target_classes")
        if "target_classes" in base:
            cfgB.pop("all_classes_mode", None)
        if gi % 3 == 1:
            cfgB["shapes_namespace"] = U.ALT_SHAPES_NS
        if gi % 4 == 2:
            cfgB["examples_mode"] = None if base.get("examples_mode") else "all"
        callA = {"op": "shex", "fmt": SHEX, "sink": "string", "t": (0, 0.5)[gi % 2]}
        callB = {"op": "shex", "fmt": (SHEX, SHACL)[(gi // 2) % 2], "sink": "string", "t": (0, 1)[(gi // 3) % 2]}
        case = {"kind": "pair", "origin": origin, "graph": {"nt": U.to_nt(T)}, "cfgA": base, "cfgB": cfgB, "callA": callA,
                "callB": callB, "script": list(scripts[gi % len(scripts)])}
        if gi % 5 == 3:
            case["graphB"] = {"nt": U.to_nt(fam[(gi + 1) % len(fam)][1])}
        cases.append(case)
    return cases


RULE = ("one evaluation = one shex_graph/profile_graph call on the real Shaper. (a) fresh Shaper writing a file vs fresh Shaper "
        "returning a string: ShExC/profile byte-equal, SHACL rdflib-isomorphic; long ShExC texts (> 10 500 lines; thorough: also "
        "exactly 4999/5000/5001/9999/10000 lines, 5300 properties with examples) additionally == header + shape blocks printed for "
        "slices of the graph. (b) every call of a sequence of <= 3 calls over {shex_graph(ShEx|Shacl, string|file, t in {0,.5,1}), "
        "profile_graph(string|file)} on one Shaper == the same call (same sink) on a fresh Shaper; disagreements are classified by "
        "counterfactual re-runs (earlier thresholds / formats replaced by the call's own). (c) two Shapers built from the same "
        "namespaces_dict and target_classes objects (scripts ABa, ABba, ABab, AaBba, BAa, ABbab; B possibly with another "
        "shapes_namespace / examples_mode / graph / SHACL output): each output == control built from private copies; caller's "
        "objects deep-equal to the copies taken before. (d) all of it with examples_mode in {None,'all'} x detect_minimal_iri in "
        "{False,True}. A crash of sheXer is counted in skipped_crashes, not reported.")


# ================================================================================================
# driver
# ================================================================================================
def _init_worker():
    U.env()


def _work(case):
    R = _Book()
    t0 = time.time()
    err = None
    try:
        CHECKS[case["kind"]](case, R)
    except Exception as exc:                           # a bug of the monitor itself must be visible
        import traceback
        err = "%s: %s\n%s" % (type(exc).__name__, exc, traceback.format_exc()[-1200:])
    seen, kept = collections.Counter(), []
    for f in R.findings:
        seen[f["key"]] += 1
        if seen[f["key"]] <= 2:
            kept.append(f)
    return {"evaluations": R.evaluations, "crashes": dict(R.crashes), "nontrivial": sorted(R.nontrivial), "findings": kept,
            "counts": dict(seen), "stats": dict(R.stats), "max_lines": R.max_lines, "error": err, "secs": time.time() - t0}


def _strip_case(case):
    return dict((k, v) for k, v in case.items() if k != "origin")


def _case_size(f):
    return len(json.dumps(f["input"]["case"], sort_keys=True, default=str))


def run(pid=PID, tier="quick", seed=0):
    if pid != PID:
        raise ValueError("bounded.history has no check for %r" % pid)
    if tier not in SIZES:
        tier = "quick"
    t0 = time.time()
    U.env()
    cases = gen_cases(tier, int(seed or 0))
    order = sorted(range(len(cases)), key=lambda i: -len(cases[i].get("seqs", [])) - (500 if cases[i].get("slices") else 0))
    ctx = multiprocessing.get_context("fork")
    evaluations, crashes, nontrivial, findings, errors = 0, collections.Counter(), set(), [], []
    counts, stats, max_lines = collections.Counter(), collections.Counter(), 0
    pool = ctx.Pool(WORKERS, initializer=_init_worker)
    try:
        for res in pool.imap_unordered(_work, [cases[i] for i in order], chunksize=1):
            evaluations += res["evaluations"]
            crashes.update(res["crashes"])
            nontrivial.update(res["nontrivial"])
            findings.extend(res["findings"])
            counts.update(res["counts"])
            stats.update(res["stats"])
            max_lines = max(max_lines, res["max_lines"])
            if res.get("error"):
                errors.append(res["error"])
    finally:
        pool.close()
        pool.join()
    findings.sort(key=lambda f: (f["key"], _case_size(f), json.dumps(f["input"], sort_keys=True, default=str)))
    by_key = collections.OrderedDict()
    for f in findings:
        by_key.setdefault(f["key"], f)
    out_findings = []
    for key, f in list(by_key.items())[:MAX_FINDINGS]:
        f = dict(f)
        f["input"] = U.jsonable(dict(f["input"], case=_strip_case(f["input"]["case"])))
        f["occurrences"] = counts[key]
        out_findings.append(f)
    samples = []
    for kind in ("seq", "sink", "pair"):
        for c in cases:
            if c["kind"] == kind:
                s = _strip_case(c)
                if "seqs" in s:
                    s["seqs"] = [[call_text(x) for x in q] for q in s["seqs"][:2]] + ["... %d more" % max(0, len(s["seqs"]) - 2)]
                samples.append(U.jsonable(s))
                break
    undecided = []
    if errors:
        undecided.append("history monitor C18: %d case(s) raised inside the monitor, first: %s" % (len(errors), errors[0]))
    if tier != "selftest" and max_lines <= LONG_LINES:
        undecided.append("history monitor C18: no ShExC text longer than %d lines was produced (longest: %d)" % (LONG_LINES, max_lines))
    sz = SIZES[tier]
    n_kind = collections.Counter(c["kind"] for c in cases)
    return {"name": "history-monitor", "label": "bounded", "property": pid, "tier": tier, "seed": seed,
            "evaluations": evaluations, "distinct_nontrivial": len(nontrivial), "cases": len(cases), "rule": RULE,
            "bounds": "%d call sequences (length <= 3; %s) on %d small graphs x 4 configurations (examples_mode x detect_minimal_iri; "
                      "%d of the (graph, configuration, slice) cases have ShExC texts that differ between the thresholds); %d "
                      "file-vs-string cases (3-12 nodes, incl. non-ASCII and escaped literals) + %d generated long graphs (longest "
                      "ShExC text: %d lines); %d two-Shaper scripts; no language-tagged literals; seed %s; wall-clock guard %d s per "
                      "call (60 s on the long graphs)"
                      % (stats["sequences"], "exhaustive 14^3 on %d graphs + sampled" % sz["exhaustive"] if sz["exhaustive"] else "sampled",
                         sz["graphs"], stats["threshold_sensitive_cases"], n_kind["sink"] - len(_long_cases(tier)),
                         len(_long_cases(tier)), max_lines, n_kind["pair"], seed, U.TIMEOUT),
            "samples": samples, "skipped_crashes": dict(crashes), "findings": out_findings, "undecided": undecided,
            "distinct_finding_keys": len(by_key), "longest_shexc_lines": max_lines, "stats": dict(stats), "wall_s": round(time.time() - t0, 2)}


def replay(doc):
    """doc["input"]["case"] as stored by run(); ok=False iff the violation reproduces on the current tree."""
    inp = doc.get("input") or {}
    case = inp.get("case")
    if not case or case.get("kind") not in CHECKS:
        return True, "replay: document carries no history case"
    U.env()
    R = _Book()
    CHECKS[case["kind"]](case, R)
    key = doc.get("key")
    hit = [f for f in R.findings if f["key"] == key]
    if hit:
        return False, "reproduced %s: %s" % (key, hit[0]["what"])
    if R.findings:
        return False, "reproduced with a different key %s (recorded %s): %s" % (R.findings[0]["key"], key, R.findings[0]["what"])
    if R.crashes:
        return True, "not reproduced: sheXer did not complete (%s)" % dict(R.crashes)
    return True, "not reproduced on this tree (%d sheXer calls, no disagreement)" % R.evaluations


# ================================================================================================
# selftest: every check must be able to fail
# ================================================================================================
def _mutants():
    """[(description, expected key prefix, patch() -> undo())] -- in-process monkey patches of sheXer."""
    U.env()
    import shexer.shaper as shaper_mod
    import shexer.io.shex.formater.shex_serializer as ss
    import shexer.io.shacl.formater.shacl_serializer as sh

    def buffer_not_reset():
        old = ss.ShexSerializer._write_line

        def _write_line(self, a_line, indent_level=0):
            self._lines_buffer.append(self._indentation_spaces(indent_level) + a_line + "\n")
            if len(self._lines_buffer) >= FLUSH:
                self._write_lines_buffer()             # ... and the buffer is not emptied
        ss.ShexSerializer._write_line = _write_line
        return lambda: setattr(ss.ShexSerializer, "_write_line", old)

    def file_sink_drops_flushes():
        old = ss.ShexSerializer._write_lines_buffer

        def _write_lines_buffer(self):
            if self._string_return:
                self._string_result += "".join(self._lines_buffer)
            else:
                with open(self._target_file, "w") as out_stream:     # 'w' instead of 'a': only the last flush survives
                    for a_line in self._lines_buffer:
                        out_stream.write(a_line)
        ss.ShexSerializer._write_lines_buffer = _write_lines_buffer
        return lambda: setattr(ss.ShexSerializer, "_write_lines_buffer", old)

    def cached_shapes_any_threshold():
        old = shaper_mod.Shaper.shex_graph

        def shex_graph(self, string_output=False, output_file=None, output_format=SHEX, acceptance_threshold=0, verbose=False,
                       to_uml_path=None):
            if self._shape_list is not None:
                self._shape_list_threshold = acceptance_threshold
            return old(self, string_output=string_output, output_file=output_file, output_format=output_format,
                       acceptance_threshold=acceptance_threshold, verbose=verbose, to_uml_path=to_uml_path)
        shaper_mod.Shaper.shex_graph = shex_graph
        return lambda: setattr(shaper_mod.Shaper, "shex_graph", old)

    def keep_callers_dict():
        old = shaper_mod.Shaper.__init__

        def __init__(self, *a, **kw):
            old(self, *a, **kw)
            ns = kw.get("namespaces_dict")
            if ns is not None:
                self._namespaces_dict = ns
                self._add_shapes_namespaces_to_namespaces_dict()
        shaper_mod.Shaper.__init__ = __init__
        return lambda: setattr(shaper_mod.Shaper, "__init__", old)

    def shacl_writes_into_shared_dict():
        old = sh.ShaclSerializer.__init__

        def __init__(self, target_file, shapes_list, namespaces_dict=None, **kw):
            old(self, target_file, shapes_list, namespaces_dict=namespaces_dict, **kw)
            if namespaces_dict is not None:
                self._namespaces_dict = namespaces_dict        # the Shaper's own dictionary, not a copy
        sh.ShaclSerializer.__init__ = __init__
        return lambda: setattr(sh.ShaclSerializer, "__init__", old)

    def profile_drops_cached_shape():
        old = shaper_mod.Shaper.profile_graph

        def profile_graph(self, string_output=False, output_file=None, verbose=False):
            self._shape_list = None if self._shape_list is None else self._shape_list[:-1]   # a later shex_graph loses a shape
            return old(self, string_output=string_output, output_file=output_file, verbose=verbose)
        shaper_mod.Shaper.profile_graph = profile_graph
        return lambda: setattr(shaper_mod.Shaper, "profile_graph", old)

    def min_iri_only_for_non_empty_shapes():
        import shexer.core.shexing.strategy.abstract_shexing_strategy as ass
        old = ass.AbstractShexingStrategy.yield_base_shapes

        def yield_base_shapes(self, acceptance_threshold):
            for a_shape in self._yield_base_shapes_direction_aware(acceptance_threshold=acceptance_threshold):
                if a_shape.n_statements > 0:            # an empty shape keeps the raw longest common prefix
                    self._strategy_min_iri.annotate_shape_iri(a_shape)
                yield a_shape
        ass.AbstractShexingStrategy.yield_base_shapes = yield_base_shapes
        return lambda: setattr(ass.AbstractShexingStrategy, "yield_base_shapes", old)

    def choice_serializer_rewrites_types():
        import shexer.io.shex.formater.statement_serializers.fixed_prop_choice_statement_serializer as fp
        old = fp.FixedPropChoiceStatementSerializer.serialize_statement_with_indent_level

        def serialize_statement_with_indent_level(self, a_statement, is_last_statement_of_shape, namespaces_dict):
            out = old(self, a_statement, is_last_statement_of_shape, namespaces_dict)
            a_statement._st_types[:] = ["<" + a_type + ">" for a_type in a_statement._st_types]     # in place: next call differs
            return out
        fp.FixedPropChoiceStatementSerializer.serialize_statement_with_indent_level = serialize_statement_with_indent_level
        return lambda: setattr(fp.FixedPropChoiceStatementSerializer, "serialize_statement_with_indent_level", old)

    def scheme_guard_on_received_prefix():
        import shexer.core.shexing.strategy.minimal_iri_strategy.annotate_min_iri_strategy as am
        old = am.AnnotateMinIriStrategy._determine_suitable_iri_pattern

        def _determine_suitable_iri_pattern(self, longest_common_prefix):
            if longest_common_prefix is None:
                return None
            backwards_str = longest_common_prefix[::-1]
            last_sep_char = am._SEP_CHARS.search(backwards_str)
            if last_sep_char is None:
                return None
            candidate_min_iri = backwards_str[last_sep_char.start():][::-1]
            if len(candidate_min_iri) < 3:
                return None
            if am._BARE_SCHEME.match(longest_common_prefix):        # guard on the RECEIVED prefix, not on the cut stem
                return None
            return candidate_min_iri
        am.AnnotateMinIriStrategy._determine_suitable_iri_pattern = _determine_suitable_iri_pattern
        return lambda: setattr(am.AnnotateMinIriStrategy, "_determine_suitable_iri_pattern", old)

    def shacl_copies_table_only_when_sh_is_free():
        old_init = sh.ShaclSerializer.__init__

        def __init__(self, target_file, shapes_list, namespaces_dict=None, **kw):
            old_init(self, target_file, shapes_list, namespaces_dict=namespaces_dict, **kw)
            if namespaces_dict is not None and "sh" in namespaces_dict.values():     # 'will not add sh': no defensive copy
                self._namespaces_dict = namespaces_dict
        sh.ShaclSerializer.__init__ = __init__
        return lambda: setattr(sh.ShaclSerializer, "__init__", old_init)

    return [
        ("_determine_suitable_iri_pattern tests the only-a-scheme guard on the received prefix (annotation not idempotent)",
         "C18:repeat-call:minimal-iri", scheme_guard_on_received_prefix),
        ("ShaclSerializer copies the namespace table only when the prefix 'sh' is free (else writes 'shacl' into the Shaper's table)",
         "C18:stale-format", shacl_copies_table_only_when_sh_is_free),
        ("yield_base_shapes cuts the minimal IRI only for shapes with statements (fresh call at t=1 prints the raw prefix)", "C18:repeat-call:minimal-iri",
         min_iri_only_for_non_empty_shapes),
        ("FixedPropChoiceStatementSerializer rewrites the alternatives of an OR statement in place", "C18:repeat-call:shexc-text",
         choice_serializer_rewrites_types),
        ("ShexSerializer._write_line does not empty the buffer after a flush", "C18:file-vs-string:ShEx", buffer_not_reset),
        ("ShexSerializer file sink re-opens the file with 'w' at every flush", "C18:file-vs-string:ShEx", file_sink_drops_flushes),
        ("Shaper.shex_graph reuses the cached shape list whatever the threshold", "C18:stale-threshold", cached_shapes_any_threshold),
        ("Shaper.__init__ keeps (and writes into) the caller's namespaces dictionary", "C18:caller-dict-mutated", keep_callers_dict),
        ("Shaper.__init__ keeps the caller's namespaces dictionary (second Shaper changes the first)", "C18:shaper-interference:",
         keep_callers_dict),
        ("ShaclSerializer writes its sh: prefix into the Shaper's dictionary", "C18:stale-format", shacl_writes_into_shared_dict),
        ("profile_graph drops the last cached shape", "C18:repeat-call:", profile_drops_cached_shape),
    ]


def _selftest(verbose=True):
    ok = True
    t00 = time.time()
    base = run(PID, "selftest", 0)
    baseline = set(f["key"] for f in base["findings"])
    if verbose:
        print("unpatched tree at selftest size: %d calls, keys %s, undecided %s" % (base["evaluations"], sorted(baseline), base["undecided"]))
    ok = ok and not base["undecided"]
    for desc, want, patch in _mutants():
        t0 = time.time()
        undo = patch()
        try:
            res = run(PID, "selftest", 0)
        finally:
            undo()
        new = [f["key"] for f in res["findings"] if f["key"] not in baseline]
        hit = any(k.startswith(want) for k in new)
        ok = ok and hit
        if verbose:
            print("%-4s C18 mutant: %-92s -> want %s*, new key(s) %s  [%d calls, %.1fs]"
                  % ("ok" if hit else "FAIL", desc, want, new[:4], res["evaluations"], time.time() - t0))
    if verbose:
        print("selftest %s in %.1fs" % ("passed: every mutant is detected" if ok else "FAILED", time.time() - t00))
    return ok


def main(argv):
    if len(argv) >= 1 and argv[0] == "selftest":
        return 0 if _selftest() else 1
    if len(argv) >= 2 and argv[0] == "run":
        res = run(argv[1], argv[2] if len(argv) > 2 else "quick", int(argv[3]) if len(argv) > 3 else 0)
        brief = dict((k, v) for k, v in res.items() if k not in ("samples", "findings", "rule"))
        print(json.dumps(brief, indent=1, default=str))
        for f in res["findings"]:
            print("FINDING %s (x%d): %s" % (f["key"], f.get("occurrences", 1), f["what"][:900]))
            print("   input: %s" % json.dumps(f["input"], default=str)[:1500])
        return 0
    print(__doc__)
    return 2


if __name__ == "__main__":
    sys.exit(main(sys.argv[1:]))
