"""Bounded stand-in for C20: "contradictory configurations are rejected up front, every other one is accepted".

Runs the REAL constructor `Shaper(...)` and `shex_graph(...)` (from $VERIF_REPO) on concrete argument combinations - real files, real
rdflib graphs, and present-but-falsy values (empty string / empty list / empty rdflib graph) - and compares raise / no-raise with the
10-line reference predicate written from the statement (NOT from the code, NOT from the deductive contract).  It complements the proof of
contracts/c20_config.py, which assumes that building the endpoint wrapper and the shape map does not raise: here those parts run for real.

Finding keys
    C20:accepted-invalid:<which rule>                          the constructor returned although the rule requires ValueError
    C20:rejected-valid:<Exc>:<where>:<source>:<format>:<comp>  a valid combination raised (where = innermost sheXer frame)
    C20:wrong-exception:<Exc>:<which rule>                     invalid combination rejected, but not with ValueError
    C20:shex_graph:<accepted-invalid|rejected-valid|wrong-exception>:...   same for the call-time checks

    run(pid, tier, seed) -> dict      replay(doc) -> (ok, message)      python -m bounded.config selftest
Label: bounded -- evidence by testing, never a proof."""
import itertools, json, os, random, signal, sys, tempfile, time, traceback, gzip, lzma, zipfile, shutil, warnings

try:
    from . import _pipeline_util as U
except ImportError:
    sys.path.insert(0, os.path.dirname(os.path.abspath(__file__)))
    import _pipeline_util as U

PID = "C20"
NT_TEXT = ('<http://ex.org/s1> <http://www.w3.org/1999/02/22-rdf-syntax-ns#type> <http://ex.org/C> .\n'
           '<http://ex.org/s1> <http://ex.org/p> "v" .\n')
SOURCES = ["graph_file_input", "graph_list_of_files_input", "raw_graph", "url_graph_input", "list_of_url_input", "url_endpoint", "rdflib_graph"]
REMOTE = ("url_graph_input", "list_of_url_input", "url_endpoint")
TARGETS = ["target_classes", "file_target_classes", "shape_map_file", "shape_map_raw"]
FORMATS = ["nt", "tsv_spo", "n3", "turtle", "xml", "json-ld", "turtle_iter", "bogus-format"]
COMPRESSIONS = [None, "gz", "zip", "xz", "bogus-compression"]
EXAMPLES = [None, "all", "cons", "shape", "bogus-examples"]

EXT = {"nt": "nt", "tsv_spo": "tsv", "n3": "n3", "turtle": "ttl", "xml": "xml", "json-ld": "jsonld", "turtle_iter": "ttl", "bogus-format": "nt"}

class Fixture:
    """real files for every source / target argument, one per input format and compression (content rendered with rdflib)"""
    def __init__(self):
        import rdflib
        self.dir = tempfile.mkdtemp(prefix="c20_")
        g = rdflib.Graph(); g.parse(data=NT_TEXT, format="nt")
        self.text = {}
        for fmt in FORMATS:
            if fmt in ("nt", "bogus-format"): txt = NT_TEXT
            elif fmt == "tsv_spo": txt = NT_TEXT.replace("> <", ">\t<").replace('> "', '>\t"')
            elif fmt == "turtle_iter": txt = g.serialize(format="turtle")
            else: txt = g.serialize(format=fmt)
            self.text[fmt] = txt if isinstance(txt, str) else txt.decode("utf-8")
        self.files = {}
        for fmt, txt in self.text.items():
            base = os.path.join(self.dir, "g_%s.%s" % (fmt.replace("-", "_"), EXT[fmt]))
            open(base, "w").write(txt)
            with gzip.open(base + ".gz", "wt") as f: f.write(txt)
            with lzma.open(base + ".xz", "wt") as f: f.write(txt)
            with zipfile.ZipFile(base + ".zip", "w") as z: z.write(base, os.path.basename(base))
            self.files[fmt] = {None: base, "gz": base + ".gz", "xz": base + ".xz", "zip": base + ".zip", "bogus-compression": base}
        j = lambda n: os.path.join(self.dir, n)
        self.classes = j("classes.txt"); open(self.classes, "w").write("http://ex.org/C\n")
        self.smap = j("map.sm"); open(self.smap, "w").write("<http://ex.org/s1>@<http://ex.org/L>\n")
    def close(self): shutil.rmtree(self.dir, ignore_errors=True)
    def source_value(self, name, variant, compression, fmt):
        import rdflib
        if name == "graph_file_input": return self.files[fmt][compression]
        if name == "graph_list_of_files_input": return [] if variant == "falsy" else [self.files[fmt][compression]]
        if name == "raw_graph": return "" if variant == "falsy" else self.text[fmt]
        if name == "url_graph_input": return "file://" + self.files[fmt][None]          # a URL that works offline
        if name == "list_of_url_input": return [] if variant == "falsy" else ["file://" + self.files[fmt][None]]
        if name == "url_endpoint": return "http://localhost:9/sparql"
        if name == "rdflib_graph":
            g = rdflib.Graph()
            if variant != "falsy": g.parse(data=NT_TEXT, format="nt")
            return g
    def target_value(self, name, variant):
        if name == "target_classes": return [] if variant == "falsy" else ["http://ex.org/C"]
        if name == "file_target_classes": return self.classes
        if name == "shape_map_file": return self.smap
        if name == "shape_map_raw": return "<http://ex.org/s1>@<http://ex.org/L>"

def reference(cfg):
    """-> None if the combination must be accepted, else the name of the first rule of the statement it breaks"""
    src = [s for s in SOURCES if s in cfg["sources"]]
    tg = [t for t in TARGETS if t in cfg["targets"]]
    if len(src) != 1: return "not-exactly-one-graph-source"
    if not cfg["all_classes_mode"] and len(tg) == 0: return "no-target-specification"
    if not cfg["all_classes_mode"] and len(tg) > 1: return "several-target-specifications"
    if cfg["all_classes_mode"] and ("target_classes" in tg or "file_target_classes" in tg): return "all-classes-mode-with-class-targets"
    if cfg["all_classes_mode"] and "shape_map_file" in tg and "shape_map_raw" in tg: return "several-target-specifications"
    if cfg["input_format"] == "bogus-format": return "unknown-input-format"
    if cfg["compression_mode"] == "bogus-compression": return "unknown-compression-mode"
    if cfg["compression_mode"] is not None and src[0] in REMOTE: return "compression-with-remote-source"
    if cfg["examples_mode"] == "bogus-examples": return "unknown-examples-mode"
    if cfg["allow_redundant_or"] and cfg["disable_or_statements"]: return "redundant-or-while-or-disabled"
    return None

def kwargs_of(cfg, fx):
    kw = {}
    for s, variant in cfg["sources"].items(): kw[s] = fx.source_value(s, variant, cfg["compression_mode"], cfg["input_format"])
    for t, variant in cfg["targets"].items(): kw[t] = fx.target_value(t, variant)
    for k in ("all_classes_mode", "input_format", "compression_mode", "examples_mode", "allow_redundant_or", "disable_or_statements"):
        kw[k] = cfg[k]
    return kw

def innermost(exc):
    tb = traceback.extract_tb(exc.__traceback__)
    repo = os.path.realpath(U.repo_path())
    own = [f for f in tb if os.path.realpath(f.filename).startswith(repo)]
    f = (own or tb)[-1]
    return "%s:%s" % (os.path.basename(f.filename), f.name)

class _Timeout(Exception): pass
def _alarm(*a): raise _Timeout()

def observe(cfg, fx):
    from shexer.shaper import Shaper
    kw = kwargs_of(cfg, fx)
    old = signal.signal(signal.SIGALRM, _alarm); signal.alarm(20)
    try:
        with warnings.catch_warnings():
            warnings.simplefilter("ignore")
            Shaper(**kw)
        return ("accepted",)
    except _Timeout: return ("timeout",)
    except BaseException as e:
        return ("raised", type(e).__name__, innermost(e), str(e)[:160])
    finally:
        signal.alarm(0); signal.signal(signal.SIGALRM, old)

def _shape_map_graph_root(cfg, obs, src):
    """root cause class when the failure comes from the graph that resolves shape-map selectors: it is parsed by rdflib directly,
    bypassing sheXer's own readers (no list of files / URL sources, no compression, no tsv_spo / turtle_iter)"""
    if not obs[2].endswith("_build_rdflib_graph"): return None
    kind = list(cfg["sources"])[0]
    if kind in ("graph_list_of_files_input", "url_graph_input", "list_of_url_input"): return "source:" + kind
    if kind == "graph_file_input" and cfg["compression_mode"] is not None: return "compressed-file"
    if cfg["input_format"] in ("tsv_spo", "turtle_iter") and kind in ("graph_file_input", "raw_graph"): return "format:" + cfg["input_format"]
    return "other:%s:%s:%s:%s" % (obs[1], src, cfg["input_format"], cfg["compression_mode"])

def observe_deferred(cfg, fx):
    """valid URL-source configurations: the accepted Shaper must also WORK (nothing deferred to a later failure)"""
    from shexer.shaper import Shaper
    kw = kwargs_of(cfg, fx)
    old = signal.signal(signal.SIGALRM, _alarm); signal.alarm(20)
    try:
        with warnings.catch_warnings():
            warnings.simplefilter("ignore")
            Shaper(**kw).shex_graph(string_output=True)
        return None
    except _Timeout: return ("timeout", "timeout", "")
    except BaseException as e:
        return (type(e).__name__, innermost(e), str(e)[:160])
    finally:
        signal.alarm(0); signal.signal(signal.SIGALRM, old)

def judge(cfg, obs):
    rule = reference(cfg)
    src = "+".join("%s%s" % (s, "(empty)" if v == "falsy" else "") for s, v in sorted(cfg["sources"].items())) or "none"
    if rule is None:
        if obs[0] == "accepted": return None
        if obs[0] == "timeout": return ("C20:rejected-valid:timeout:%s" % src, "valid combination does not return within 20 s")
        tg = "+".join("%s%s" % (t, "(empty)" if v == "falsy" else "") for t, v in sorted(cfg["targets"].items())) or "none"
        root = _shape_map_graph_root(cfg, obs, src)
        if root is not None and "shape_map" in tg:
            return ("C20:rejected-valid:%s:shape-map-graph:%s" % (obs[2], root),
                    "a combination the statement declares valid is rejected by the constructor with %s: %s" % (obs[1], obs[3]))
        return ("C20:rejected-valid:%s:%s:%s:%s" % (obs[2], obs[1], src, "shape-map" if "shape_map" in tg else tg),
                "a combination the statement declares valid is rejected by the constructor with %s: %s" % (obs[1], obs[3]))
    if obs[0] == "accepted": return ("C20:accepted-invalid:%s" % rule, "the constructor accepts a combination that must raise ValueError (%s)" % rule)
    if obs[0] == "raised" and obs[1] != "ValueError":
        root = _shape_map_graph_root(cfg, obs, src) if len(cfg["sources"]) == 1 else None
        if root is not None:
            return ("C20:wrong-exception:%s:shape-map-graph:%s" % (obs[2], root),
                    "invalid combination (%s) is rejected with %s instead of ValueError: %s" % (rule, obs[1], obs[3]))
        return ("C20:wrong-exception:%s:%s" % (obs[1], rule), "invalid combination (%s) is rejected with %s instead of ValueError: %s" % (rule, obs[1], obs[3]))
    return None

def base_cfg(**over):
    cfg = {"sources": {"raw_graph": "ok"}, "targets": {"target_classes": "ok"}, "all_classes_mode": False, "input_format": "nt",
           "compression_mode": None, "examples_mode": None, "allow_redundant_or": False, "disable_or_statements": True}
    cfg.update(over); return cfg

def enumerate_cfgs(tier, seed):
    rnd = random.Random(seed)
    out = []
    # (a) every subset of sources x every subset of targets x all_classes_mode
    for sm in range(128):
        srcs = {s: "ok" for i, s in enumerate(SOURCES) if sm >> i & 1}
        for tm in range(16):
            tgs = {t: "ok" for i, t in enumerate(TARGETS) if tm >> i & 1}
            for acm in (False, True):
                if len(srcs) > 2 and (tm not in (0, 1, 8) ) and tier == "quick": continue
                out.append(base_cfg(sources=srcs, targets=tgs, all_classes_mode=acm))
    # (b) every single source (also present-but-empty) x every valid target spec x compression x format
    singles = [(s, "ok") for s in SOURCES] + [("raw_graph", "falsy"), ("graph_list_of_files_input", "falsy"), ("rdflib_graph", "falsy"), ("list_of_url_input", "falsy")]
    tspecs = [({t: "ok"}, False) for t in TARGETS] + [({}, True), ({"shape_map_raw": "ok"}, True), ({"shape_map_file": "ok"}, True),
                                                      ({"target_classes": "falsy"}, False), ({"shape_map_raw": "ok", "shape_map_file": "ok"}, True)]
    for (s, v) in singles:
        for tg, acm in tspecs:
            for comp in COMPRESSIONS:
                for fmt in FORMATS:
                    if tier == "quick" and comp not in (None, "gz") and fmt not in ("nt", "turtle", "bogus-format"): continue
                    if v == "falsy" and s == "raw_graph" and fmt in ("xml", "json-ld"): continue      # an empty text is not a document of these formats
                    out.append(base_cfg(sources={s: v}, targets=dict(tg), all_classes_mode=acm, compression_mode=comp, input_format=fmt))
    # (c) examples modes x or flags
    for ex in EXAMPLES:
        for ro in (False, True):
            for do in (False, True):
                for tg, acm in tspecs[:6]:
                    out.append(base_cfg(targets=dict(tg), all_classes_mode=acm, examples_mode=ex, allow_redundant_or=ro, disable_or_statements=do))
    # (d) random points of the full product
    for _ in range(2000 if tier == "quick" else 40000):
        srcs = {s: rnd.choice(["ok", "ok", "falsy"]) if s in ("graph_list_of_files_input", "rdflib_graph", "list_of_url_input") else "ok"
                for s in SOURCES if rnd.random() < (0.22 if rnd.random() < 0.7 else 0.5)}
        if rnd.random() < 0.5: srcs = {rnd.choice(SOURCES): "ok"}
        tgs = {t: "ok" for t in TARGETS if rnd.random() < 0.3}
        out.append(base_cfg(sources=srcs, targets=tgs, all_classes_mode=rnd.random() < 0.4, input_format=rnd.choice(FORMATS),
                            compression_mode=rnd.choice(COMPRESSIONS), examples_mode=rnd.choice(EXAMPLES),
                            allow_redundant_or=rnd.random() < 0.3, disable_or_statements=rnd.random() < 0.6))
    return out

def call_time_cases():
    for t in (-0.01, 0, 1, 1.01):
        for fmt in ("ShEx", "Shacl", "bogus-output"):
            for so in (True, False):
                for of in (None, "file"):
                    yield {"acceptance_threshold": t, "output_format": fmt, "string_output": so, "output_file": of}

def call_reference(c):
    if c["acceptance_threshold"] < 0 or c["acceptance_threshold"] > 1: return "threshold-outside-0-1"
    if c["output_format"] not in ("ShEx", "Shacl"): return "unknown-output-format"
    if not c["string_output"] and c["output_file"] is None: return "no-output-sink"
    return None

def observe_call(c, fx):
    from shexer.shaper import Shaper
    kw = dict(c)
    if kw["output_file"] == "file": kw["output_file"] = os.path.join(fx.dir, "out.txt")
    old = signal.signal(signal.SIGALRM, _alarm); signal.alarm(20)
    try:
        with warnings.catch_warnings():
            warnings.simplefilter("ignore")
            s = Shaper(raw_graph=NT_TEXT, target_classes=["http://ex.org/C"], input_format="nt")
            s.shex_graph(**kw)
        return ("accepted",)
    except _Timeout: return ("timeout",)
    except BaseException as e:
        return ("raised", type(e).__name__, innermost(e), str(e)[:160])
    finally:
        signal.alarm(0); signal.signal(signal.SIGALRM, old)

def judge_call(c, obs):
    rule = call_reference(c)
    if rule is None:
        return None if obs[0] == "accepted" else ("C20:shex_graph:rejected-valid:%s" % ":".join(map(str, obs[1:3])), "valid call rejected: %r" % (obs,))
    if obs[0] == "accepted": return ("C20:shex_graph:accepted-invalid:%s" % rule, "shex_graph accepts a call that must raise ValueError (%s)" % rule)
    if obs[0] == "raised" and obs[1] != "ValueError": return ("C20:shex_graph:wrong-exception:%s:%s" % (obs[1], rule), "rejected with %s instead of ValueError" % obs[1])
    return None

def _key(cfg): return json.dumps(cfg, sort_keys=True)

def run(pid, tier="quick", seed=0):
    assert pid == PID
    U.env()
    t0 = time.time()
    fx = Fixture()
    findings = {}; counts = {"accepted-valid": 0, "rejected-invalid": 0}; seen = set(); n = 0; samples = []
    try:
        for cfg in enumerate_cfgs(tier, seed):
            k = _key(cfg)
            if k in seen: continue
            seen.add(k); n += 1
            obs = observe(cfg, fx)
            f = judge(cfg, obs)
            if f is None and obs[0] == "accepted" and len(cfg["sources"]) == 1 and list(cfg["sources"].items())[0] in (("url_graph_input", "ok"), ("list_of_url_input", "ok")) \
                    and cfg["compression_mode"] is None and list(cfg["targets"]) == ["target_classes"] and cfg["targets"]["target_classes"] == "ok":
                d = observe_deferred(cfg, fx)
                if d is not None:
                    k2 = "C20:deferred-failure:%s:%s:%s:%s" % (d[0], d[1], list(cfg["sources"])[0], cfg["input_format"])
                    findings.setdefault(k2, {"key": k2, "what": "the constructor accepts the configuration but shex_graph then fails with %s: %s" % (d[0], d[2]),
                                             "input": {"kind": "deferred", "config": cfg}})
            if f is None:
                counts["accepted-valid" if obs[0] == "accepted" else "rejected-invalid"] += 1
                if len(samples) < 4 and n % 997 == 1: samples.append({"config": cfg, "observed": list(obs)[:2], "reference": reference(cfg) or "valid"})
            elif f[0] not in findings:
                findings[f[0]] = {"key": f[0], "what": f[1], "input": {"kind": "constructor", "config": cfg}}
        m = 0
        for c in call_time_cases():
            m += 1
            f = judge_call(c, observe_call(c, fx))
            if f is not None and f[0] not in findings: findings[f[0]] = {"key": f[0], "what": f[1], "input": {"kind": "shex_graph", "call": c}}
    finally:
        fx.close()
    return {"name": "config enumeration (C20)", "label": "bounded", "evaluations": n + m, "distinct_nontrivial": n + m,
            "rule": "one evaluation = one real Shaper(...) construction (or shex_graph call) with concrete arguments, compared with the reference predicate",
            "bounds": "%s tier: all subsets of the 7 sources x 4 targets x all_classes_mode (pruned in quick), every single source (incl. present-but-empty) x "
                      "9 target specs x compressions x formats, examples x or-flags, %d random points of the full product; 48 shex_graph calls" % (tier, 2000 if tier == "quick" else 40000),
            "counts": counts, "samples": samples, "findings": sorted(findings.values(), key=lambda f: f["key"])[:20], "undecided": [],
            "wall_s": round(time.time() - t0, 1)}

def replay(doc):
    U.env()
    fx = Fixture()
    try:
        inp = doc["input"]
        if inp["kind"] == "deferred":
            d = observe_deferred(inp["config"], fx)
            return (True, "not reproduced on this tree") if d is None else (False, "reproduced: shex_graph fails with %s in %s: %s" % d)
        if inp["kind"] == "constructor":
            obs = observe(inp["config"], fx); f = judge(inp["config"], obs)
        else:
            obs = observe_call(inp["call"], fx); f = judge_call(inp["call"], obs)
    finally:
        fx.close()
    if f is None: return True, "not reproduced on this tree: %r" % (obs,)
    return False, "reproduced: %s -- %s (observed %r)" % (f[0], f[1], obs)

def _selftest():
    U.env()
    import shexer.utils.obj_references as OR_, shexer.shaper as SH
    base = run(PID, "quick", 0)
    base_keys = {f["key"] for f in base["findings"]}
    print("unchanged tree: %d evaluations, keys: %s" % (base["evaluations"], sorted(base_keys)))
    orig = SH.check_just_one_not_none
    def truthy(*pairs):
        if len([p for p in pairs if p[0]]) != 1: raise ValueError("one and only one")
    SH.check_just_one_not_none = truthy
    try:
        r = run(PID, "quick", 0)
    finally:
        SH.check_just_one_not_none = orig
    new = {f["key"] for f in r["findings"]} - base_keys
    print("mutant (truthiness instead of 'is not None'): new keys", sorted(new))
    assert new, "mutant not detected"
    orig2 = SH.Shaper._check_compression_mode
    SH.Shaper._check_compression_mode = staticmethod(lambda *a, **k: None)
    try:
        r = run(PID, "quick", 0)
    finally:
        SH.Shaper._check_compression_mode = orig2
    new = {f["key"] for f in r["findings"]} - base_keys
    print("mutant (compression check dropped): new keys", sorted(new))
    assert new, "mutant not detected"
    print("selftest ok")

if __name__ == "__main__":
    if len(sys.argv) > 1 and sys.argv[1] == "selftest": _selftest()
    else:
        a = [x for x in sys.argv[1:] if x not in ("run", PID)]; r = run(PID, a[0] if a else "quick", int(a[1]) if len(a) > 1 else 0)
        print(json.dumps({k: v for k, v in r.items() if k != "samples"}, indent=1))
