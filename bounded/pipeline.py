"""Bounded pipeline monitor: runs the REAL sheXer (from $VERIF_REPO) on generated graphs and compares
its ShExC output with the oracle lib/graphspec (C01, C02, C16, C10) or with itself under a
metamorphic relation (C09, C12, C13, C14).  Label: bounded -- evidence by testing, never a proof.

    run(pid, tier, seed) -> dict      replay(doc) -> (ok, message)
    python -m bounded.pipeline selftest        (from /verif: shows that every check can fail)
    python -m bounded.pipeline run C01 [quick|thorough] [seed]
"""
import collections
import itertools
import json
import math
import multiprocessing
import os
import random
import sys
import time

try:
    from . import _pipeline_util as U
except ImportError:                                    # executed as a plain script
    sys.path.insert(0, os.path.dirname(os.path.abspath(__file__)))
    import _pipeline_util as U

PIDS = ("C01", "C02", "C09", "C10", "C12", "C13", "C14", "C16")
WORKERS = 12
MAX_FINDINGS = 10

SWITCH_DEFAULTS = collections.OrderedDict([
    ("all_instances_are_compliant_mode", True), ("keep_less_specific", True),
    ("discard_useless_constraints_with_positive_closure", True), ("allow_opt_cardinality", True),
    ("disable_exact_cardinality", False)])
BASE_GRID = (0, 1.0 / 3, 0.5, 0.51, 2.0 / 3, 1)


def _switch_combo(rng, p=0.5):
    """Random assignment of the inference switches; only non-default values are stored."""
    return dict((k, not v) for k, v in SWITCH_DEFAULTS.items() if rng.random() < p)


def _mode_cfg(mode):
    M, S, G = U.lib()
    if mode == "all":
        return {"all_classes_mode": True}
    if mode == "A":
        return {"target_classes": [G.CLASS_A]}
    if mode == "AB":
        return {"target_classes": [G.CLASS_A, G.CLASS_B]}
    raise ValueError(mode)


def _merge(*ds):
    out = {}
    for d in ds:
        out.update(d)
    return out


def _l2c(spec, shapes_ns=U.SHAPES_NS):
    return dict((U.label_of(C, shapes_ns), C) for C in spec.N)


def _grid(spec):
    ts = set(BASE_GRID)
    for C, N in spec.N.items():
        for k in range(1, N + 1):
            ts.add(float(k) / N)
    return sorted(ts)


class _SpecCache(object):
    def __init__(self, T):
        self.T, self.d = T, {}

    def get(self, cfg):
        key = json.dumps([cfg.get("all_classes_mode"), cfg.get("target_classes"), cfg.get("inverse_paths"),
                          cfg.get("instances_cap"), cfg.get("instantiation_property")])
        if key not in self.d:
            self.d[key] = U.spec_for(self.T, cfg)
        return self.d[key]


# ================================================================================================
# checks: one function per property; case = json-able dict; R = U.Runner
# ================================================================================================
def _check_C01_rdflib(case, R):
    """Input delivered through rdflib (own Turtle rendering with input_format='turtle', or rdflib_graph=)."""
    nt = case["nt"]
    specs = _SpecCache(U.parse_nt(nt))
    for run in case["runs"]:
        cfg, t = run["cfg"], run["t"]
        try:
            nd = R.run(nt, cfg, t)
        except U.Skipped:
            continue
        spec = specs.get(cfg)

        def rep_(kind, run=run, cfg=cfg):
            def f(key, what, obs, exp):
                R.emit("C01:rdflib-channel:%s-mismatch" % kind, "[channel %s; %s] %s" % (cfg.get("_channel"), key, what),
                       {"pid": "C01", "kind": "rdflib", "nt": nt, "runs": [run]}, observed=obs, expected=exp)
            return f
        U.check_figures("C01", nd, spec, _l2c(spec), cfg, rep_("figure"))
        U.check_keys("C01", nd, spec, _l2c(spec), t, rep_("key"))


def _check_C01_duplicates(case, R):
    """N-Triples text in which some lines are written twice: a graph is a set, so the figures are those of the
    de-duplicated graph, and no count may exceed the printed instance count."""
    nt, dk = case["nt"], case["dup_kind"]
    specs = _SpecCache(U.dedup(U.parse_nt(nt)))
    for run in case["runs"]:
        cfg, t = run["cfg"], run["t"]
        try:
            nd = R.run(nt, cfg, t)
        except U.Skipped:
            continue
        spec = specs.get(cfg)
        mini = {"pid": "C01", "kind": "duplicates", "dup_kind": dk, "nt": nt, "runs": [run]}
        for sh in nd:
            for (c, source, value, card, ratio, rt, count, raw) in U.figures(sh):
                if value[0] != "NONLITERAL" and count is not None and sh["N"] is not None and count > sh["N"]:
                    R.emit("C01:duplicate-lines:%s:count-exceeds-instances" % dk,
                           "duplicated %s line: %s reports %d instances but a constraint figure counts %d [%s]"
                           % (dk, sh["label"], sh["N"], count, raw.strip()), mini, observed=count, expected="<= %d" % sh["N"])

        def report(key, what, obs, exp, mini=mini):
            sub = "instance-count" if ":instance-count" in key else "figure"
            R.emit("C01:duplicate-lines:%s:%s" % (dk, sub), "duplicated %s line, expected the figures of the de-duplicated "
                   "graph [%s]: %s" % (dk, key, what), mini, observed=obs, expected=exp)
        U.check_figures("C01", nd, spec, _l2c(spec), cfg, report)


def _check_C01_or(case, R):
    """disable_or_statements=False (with and without allow_redundant_or): every figure on and under a disjunction;
    a second, unrelated graph is run afterwards in the same process (state shared between statements/Shapers)."""
    for which, nt in (("first", case["nt"]), ("second", case["nt2"])):
        T = U.parse_nt(nt)
        specs = _SpecCache(T)
        for run in case["runs"]:
            cfg, t = run["cfg"], run["t"]
            try:
                nd = R.run(nt, cfg, t)
            except U.Skipped:
                continue
            spec = specs.get(cfg)

            def report(key, what, obs, exp, run=run, which=which):
                sub = "comment" if "[comment:" in what else "figure"
                R.emit("C01:or-statements:%s-mismatch" % sub, "[%s graph; %s] %s" % (which, key, what),
                       {"pid": "C01", "kind": "or", "nt": case["nt"], "nt2": case["nt2"], "runs": [run]}, observed=obs, expected=exp)
            U.check_figures("C01", nd, spec, _l2c(spec), cfg, report, T=T)


def _check_C01_at_literals(case, R):
    """N-Triples literals whose text contains '@' (with and without a language tag)."""
    nt = case["nt"]
    specs = _SpecCache(U.parse_nt(nt))
    for run in case["runs"]:
        cfg, t = run["cfg"], run["t"]
        try:
            nd = R.run(nt, cfg, t)
        except U.Skipped:
            continue
        spec = specs.get(cfg)

        def rep_(kind, run=run):
            def f(key, what, obs, exp):
                R.emit("C01:at-in-literal:%s-mismatch" % kind, "[%s] %s" % (key, what),
                       {"pid": "C01", "kind": "at-literals", "nt": nt, "runs": [run]}, observed=obs, expected=exp)
            return f
        U.check_figures("C01", nd, spec, _l2c(spec), cfg, rep_("figure"))
        U.check_keys("C01", nd, spec, _l2c(spec), t, rep_("key"))


def _check_C01_tabs(case, R):
    """Delivered text = the document with TABs after blank-node labels / language tags / datatype suffixes; the oracle
    reads the ordinary rendering of the same graph."""
    nt, delivered = case["nt"], U.tabify(case["nt"])
    specs = _SpecCache(U.parse_nt(nt))
    for run in case["runs"]:
        cfg, t = run["cfg"], run["t"]
        try:
            nd = R.run(delivered, cfg, t)
        except U.Skipped:
            continue
        spec = specs.get(cfg)

        def rep_(kind, run=run):
            def f(key, what, obs, exp):
                R.emit("C01:tab-after-token:%s-mismatch" % kind, "[%s] %s" % (key, what),
                       {"pid": "C01", "kind": "tabs", "nt": nt, "runs": [run]}, observed=obs, expected=exp)
            return f
        U.check_figures("C01", nd, spec, _l2c(spec), cfg, rep_("figure"))
        U.check_keys("C01", nd, spec, _l2c(spec), t, rep_("key"))


def check_C01(case, R):
    if case.get("kind") == "tabs":
        return _check_C01_tabs(case, R)
    if case.get("kind") == "at-literals":
        return _check_C01_at_literals(case, R)
    if case.get("kind") == "or":
        return _check_C01_or(case, R)
    if case.get("kind") == "rdflib":
        return _check_C01_rdflib(case, R)
    if case.get("kind") == "duplicates":
        return _check_C01_duplicates(case, R)
    nt = case["nt"]
    T_all = U.parse_nt(nt)
    specs = _SpecCache(T_all)
    runs = case.get("runs")
    if runs is None:                                   # compact form: product of the listed dimensions
        runs = [{"cfg": _merge(_mode_cfg(mode), {"inverse_paths": True} if inv else {}, sw), "t": t}
                for mode in case["modes"] for inv in case["inverse"] for t in case["thresholds"] for sw in case["switches"]]
    for run in runs:
        cfg, t = run["cfg"], run["t"]
        try:
            nd = R.run(nt, cfg, t)
        except U.Skipped:
            continue
        spec = specs.get(cfg)

        def report(key, what, obs, exp, run=run):
            R.emit(key, what, {"pid": "C01", "nt": nt, "runs": [run]}, observed=obs, expected=exp)
        U.check_figures("C01", nd, spec, _l2c(spec), cfg, report, T=T_all)


def _thresholds(case, spec):
    return _grid(spec) if case.get("thresholds", "grid") == "grid" else case["thresholds"]


def check_float_boundary(case, R):
    """C02 on the float-boundary family: the key of ex:p (direct) / ex:inc (inverse) of the single class
    is present iff float(k)/float(N) >= t -- present at t = k/N, absent at nextafter(k/N, 1)."""
    M, S, G = U.lib()
    pid, nt, k, N = case["pid"], case["nt"], case["k"], case["N"]
    lab = U.label_of(G.CLASS_A)
    l2c = {lab: G.CLASS_A}
    for cfg in case["cfgs"]:
        for t in case["thresholds"]:
            try:
                nd = R.run(nt, cfg, t)
            except U.Skipped:
                continue
            want = float(k) / float(N) >= t
            shapes = dict((sh["label"], sh) for sh in nd)
            keys = set(U.con_key(c, l2c, M.RDF_TYPE) for c in shapes[lab]["cons"]) if lab in shapes else set()
            probes = [(S.DIRECT, U.FB_PROP, M.XSD_STRING)]
            if cfg.get("inverse_paths"):
                probes.append((S.INVERSE, U.FB_INC, S.NONLIT))
            for kx in probes:
                if (kx in keys) != want:
                    rel = "==" if t == float(k) / N else ("<" if t < float(k) / N else ">")
                    R.emit("%s:threshold-boundary:float:%s" % (pid, kx[0]),
                           "class with N=%d instances, %d of them have %s %s: at acceptance_threshold=%r (%s k/N=%r) the constraint is %s "
                           "but float(k)/float(N) >= t is %s (boundary frequency == threshold must be kept)"
                           % (N, k, "^" if kx[0] == S.INVERSE else "", kx[1], t, rel, float(k) / N,
                              "present" if kx in keys else "absent", want),
                           dict(case, cfgs=[cfg], thresholds=[t]), observed=kx in keys, expected=want)


def _spell(c, how):
    G = U.lib()[2]
    if how == "bracketed":
        return "<%s>" % c
    if how == "prefixed":
        for ns, pre in G.NAMESPACES.items():
            if c.startswith(ns) and "/" not in c[len(ns):] and "#" not in c[len(ns):]:
                return "%s:%s" % (pre, c[len(ns):])
    return c


def check_target_spelling(case, R):
    """target_classes spelled as full / <bracketed> / prefixed IRIs with remove_empty_shapes=False, one requested
    class has no instance: exactly one shape per requested class, labelled by the class's local name."""
    M, S, G = U.lib()
    pid, nt, cfg, t, classes = case["pid"], case["nt"], case["cfg"], case["t"], case["classes"]
    T = U.parse_nt(nt)
    spelled = [_spell(c, how) for c, how in zip(classes, case["spelling"])]
    tag = "%s:target-spelling" % pid

    def emit(key, what, obs, exp):
        R.emit(key, what, dict((k, v) for k, v in case.items() if k != "origin"), observed=obs, expected=exp)
    try:
        nd = R.run(nt, _merge(cfg, {"target_classes": spelled, "remove_empty_shapes": False}), t)
    except U.Skipped:
        return
    spec = U.spec_for(T, _merge(cfg, {"target_classes": classes}))
    want = dict((U.label_of(C), C) for C in classes)
    got = [sh["label"] for sh in nd]
    for lab in sorted(set(x for x in got if got.count(x) > 1)):
        emit(tag + ":unexpected-shape", "shape %s printed %d times for target_classes=%r" % (lab, got.count(lab), spelled), got, sorted(want))
    missing = sorted(set(want) - set(got))
    for lab in sorted(set(got) - set(want)):
        alias = [m for m in missing if U.local_name(want[m]) in lab]
        if alias:
            missing.remove(alias[0])
            emit(tag + ":label", "requested class %s (spelled %r) is printed under the label %s instead of %s"
                 % (want[alias[0]], spelled[classes.index(want[alias[0]])], lab, alias[0]), lab, alias[0])
        else:
            emit(tag + ":unexpected-shape", "target_classes=%r (remove_empty_shapes=False): shape %s corresponds to no requested "
                 "class; shapes printed: %r" % (spelled, lab, got), got, sorted(want))
    for lab in missing:
        emit(tag + ":missing-shape", "target_classes=%r (remove_empty_shapes=False): no shape %s for requested class %s (%d instances)"
             % (spelled, lab, want[lab], spec.N.get(want[lab], 0)), got, sorted(want))
    live = []
    for sh in nd:
        C = want.get(sh["label"])
        if C is None:
            continue
        if C not in spec.N:
            if sh["N"] not in (0, None) or sh["cons"]:
                emit(tag + ":instance-less-class-not-empty", "class %s has no instance but its shape reports %r instances / %d "
                     "constraints" % (C, sh["N"], len(sh["cons"])), sh["N"], 0)
        else:
            live.append(sh)
    l2c = _l2c(spec)
    U.check_figures(tag, live, spec, l2c, cfg, emit)
    U.check_keys(tag, live, spec, l2c, t, emit, check_shapes=False)


def check_threshold_walk(case, R):
    """One Shaper asked at a sequence of thresholds (low, high enough to empty a shape, low again ...): every
    answer must equal the answer of a fresh Shaper at that threshold."""
    e = U.env()
    pid, nt, cfg, ths = case["pid"], case["nt"], case["cfg"], case["thresholds"]
    try:
        devs, calls = U.run_threshold_walk(nt, cfg, ths)
    except U.WallClockTimeout:
        R.crashes["timeout"] += 1
        return
    except Exception as exc:
        R.crashes[e.V.crash_signature(exc)] += 1
        return
    R.evaluations += calls
    R.nontrivial.add(U.digest(nt, cfg, repr(ths)))
    for (i, t, category, detail) in devs:
        R.emit("%s:call-history:threshold-walk:%s" % (pid, category if category.startswith("crash") else "differs"),
               "one Shaper asked at thresholds %r: call %d (t=%r) %s" % (ths[:i + 1], i + 1, t, detail),
               dict((k, v) for k, v in dict(case, thresholds=ths[:i + 1]).items() if k != "origin"),
               observed=detail, expected="the answer of a fresh Shaper")
        break


def check_C02(case, R):
    if case.get("kind") == "float-boundary":
        return check_float_boundary(case, R)
    if case.get("kind") == "target-spelling":
        return check_target_spelling(case, R)
    if case.get("kind") == "shapemap":
        return check_C10(case, R)
    if case.get("kind") == "threshold-walk":
        return check_threshold_walk(case, R)
    if case.get("kind") == "shapemap-gone":
        # shape map + inverse paths + a threshold that empties one label: the other shapes keep exactly their keys
        M, S, G = U.lib()
        nt, cfg, t, items = case["nt"], case["cfg"], case["t"], case["items"]
        T = U.parse_nt(nt)
        sm = "\n".join("%s@<%s>" % (_selector_text(it["sel"]), it["label"]) for it in items)
        try:
            nd = R.run(nt, _merge(cfg, {"shape_map_raw": sm}), t)
        except U.Skipped:
            return
        spec, l2c, _, _ = _mixed_oracle(T, items, cfg, bool(cfg.get("inverse_paths")), bool(cfg.get("all_classes_mode")))

        def report(key, what, obs, exp):
            R.emit(key, what, dict((k, v) for k, v in case.items() if k != "origin"), observed=obs, expected=exp)
        U.check_keys("C02:shapemap-gone", nd, spec, l2c, t, report)
        U.check_figures("C02:shapemap-gone", nd, spec, l2c, cfg, report)
        return
    nt = case["nt"]
    specs = _SpecCache(U.parse_nt(nt))
    for cfg in case["cfgs"]:
        spec = specs.get(cfg)
        for t in _thresholds(case, spec):
            try:
                nd = R.run(nt, cfg, t)
            except U.Skipped:
                continue

            def report(key, what, obs, exp, cfg=cfg, t=t):
                R.emit(key, what, {"pid": "C02", "nt": nt, "cfgs": [cfg], "thresholds": [t]},
                       observed=obs, expected=exp)
            U.check_keys("C02", nd, spec, _l2c(spec), t, report)


def _check_emptied_refs(nd, spec, l2c, t, emit):
    """A non-literal key whose candidates at t are an IRI kind and references to shapes with IDENTICAL profiles (every value
    is an instance of those shapes) is represented by the reference; when every referenced shape has been emptied by the
    threshold and removed, the constraint goes with it.  It must not come back as an IRI constraint at the higher threshold."""
    S = U.lib()[1]
    printed = dict((sh["label"], sh) for sh in nd)
    c2l = dict((C, lab) for lab, C in l2c.items())
    for lab, sh in printed.items():
        C = l2c.get(lab)
        if C is None:
            continue
        by_key = {}
        for e in spec.cand(C, t):
            by_key.setdefault(S.key_of(e.dir, e.p, e.k, spec.pi), []).append(e)
        have = dict((U.con_key(c, l2c, spec.pi), c) for c in sh["cons"])
        for kx, es in by_key.items():
            if kx[2] != S.NONLIT or kx not in have:
                continue
            kinds = set(e.k for e in es)
            refs = [k for k in kinds if S.is_shape(k)]
            if not refs or "BNode" in kinds or "IRI" not in kinds:
                continue
            prof_of = lambda k: sorted((repr(e.c), e.n) for e in es if e.k == k)
            if any(prof_of(k) != prof_of("IRI") for k in refs):
                continue
            if all(c2l.get(k[1:]) not in printed for k in refs):
                emit("C12:emptied-shape:reference-replaced-by-node-kind",
                     "t=%r: shape %s has the constraint %r although every value of %s is an instance of %s, whose shapes were emptied by "
                     "the threshold and removed (at lower thresholds the constraint is the reference and disappears with the shape)"
                     % (t, lab, have[kx]["raw"].strip(), kx[1], [k[1:] for k in refs]), have[kx]["raw"].strip(), "no constraint for %r" % (kx,))


def check_C12(case, R):
    M, S, G = U.lib()
    nt = case["nt"]
    T12 = U.parse_nt(nt)
    specs = _SpecCache(T12)
    items = case.get("items")
    extra_case = {"items": items} if items else {}
    for cfg in case["cfgs"]:
        if items:
            spec, l2c, _, _ = _mixed_oracle(T12, items, cfg, bool(cfg.get("inverse_paths")), bool(cfg.get("all_classes_mode")))
            run_cfg = _merge(cfg, {"shape_map_raw": "\n".join("%s@<%s>" % (_selector_text(it["sel"]), it["label"]) for it in items)})
        else:
            spec = specs.get(cfg)
            l2c = _l2c(spec)
            run_cfg = cfg
        outs = []
        for t in _thresholds(case, spec):
            try:
                nd = R.run(nt, run_cfg, t)
            except U.Skipped:
                continue
            if items:
                _check_emptied_refs(nd, spec, l2c, t, lambda key, what, obs, exp, cfg=cfg, t=t: R.emit(
                    key, what, dict({"pid": "C12", "nt": nt, "cfgs": [cfg], "thresholds": [t]}, **extra_case), observed=obs, expected=exp))
            shapes = {}
            for sh in nd:
                facts, conflict = U.fact_map(sh, l2c, skip_plus_lines=bool(cfg.get("disable_exact_cardinality")))
                shapes[sh["label"]] = (set(U.con_key(c, l2c, spec.pi) for c in sh["cons"]), facts, sh["N"])
                for (fk, a, b) in conflict:
                    R.emit("C12:figure-conflict-within-output", "t=%r: fact %r printed with two figures %r / %r" % (t, fk, a, b),
                           dict({"pid": "C12", "nt": nt, "cfgs": [cfg], "thresholds": [t]}, **extra_case), observed=[a, b], expected="one figure")
            outs.append((t, shapes))
            if t in (0, 1):          # "at threshold 0 nothing observed is omitted, at threshold 1 only features of all instances remain"
                def absolute(key, what, obs, exp, cfg=cfg, t=t):
                    R.emit(key, what, dict({"pid": "C12", "nt": nt, "cfgs": [cfg], "thresholds": [t]}, **extra_case), observed=obs, expected=exp)
                U.check_keys("C12", nd, spec, l2c, t, absolute)
        for (t1, s1), (t2, s2) in itertools.combinations(outs, 2):      # t1 < t2
            def emit(key, what, obs, exp, t1=t1, t2=t2, cfg=cfg):
                R.emit(key, what, dict({"pid": "C12", "nt": nt, "cfgs": [cfg], "thresholds": [t1, t2]}, **extra_case), observed=obs, expected=exp)
            for lab in s2:
                if lab not in s1:
                    emit("C12:shape-appears", "shape %s is present at t=%r but not at t=%r" % (lab, t2, t1), t2, t1)
                    continue
                k1, f1, n1 = s1[lab]
                k2, f2, n2 = s2[lab]
                if n1 != n2:
                    emit("C12:instance-count-changes", "shape %s: %r instances at t=%r, %r at t=%r" % (lab, n1, t1, n2, t2), n2, n1)
                for kx in sorted(k2 - k1, key=repr):
                    emit("C12:key-appears:%s:%s" % (kx[0], U.vclass(kx, spec.pi)),
                         "shape %s: key %r is present at t=%r but not at the lower t=%r" % (lab, kx, t2, t1),
                         sorted(k2, key=repr), sorted(k1, key=repr))
                for fk in f2:
                    if fk in f1 and f1[fk] != f2[fk]:
                        emit("C12:figure-changes:%s:%s" % (fk[0], U.kclass(fk[2], fk[1], spec.pi)),
                             "shape %s: figure of %r is %r at t=%r and %r at t=%r" % (lab, fk, f1[fk], t1, f2[fk], t2),
                             f2[fk], f1[fk])


def _evidence(nd, l2c, pi):
    ev = {}
    for sh in nd:
        facts, _ = U.fact_map(sh, l2c)
        chosen = {}
        for c in sh["cons"]:
            chosen[U.con_key(c, l2c, pi)] = (c["value"], c["card"])
        ev[sh["label"]] = {"N": sh["N"], "keys": set(chosen), "facts": set((fk, fv[0]) for fk, fv in facts.items()),
                           "chosen": chosen, "min_iri": sh.get("min_iri")}
    return ev


def check_C09(case, R):
    nt = case["nt"]
    specs = _SpecCache(U.parse_nt(nt))
    for run in case["runs"]:
        cfg, t = run["cfg"], run["t"]
        try:
            base = R.run(nt, cfg, t)
        except U.Skipped:
            continue
        spec = specs.get(cfg)
        l2c = _l2c(spec)
        ev0 = _evidence(base, l2c, spec.pi)
        tie = dict((lab, U.ties(spec, C, t, cfg.get("keep_less_specific", True))) for lab, C in l2c.items())
        for var in case["variants"]:
            try:
                nd = R.run(var, cfg, t)
            except U.Skipped:
                continue
            ev1 = _evidence(nd, l2c, spec.pi)

            def emit(key, what, obs, exp, var=var, run=run):
                R.emit(key, what, {"pid": "C09", "nt": nt, "variants": [var], "runs": [run]}, observed=obs, expected=exp)
            if set(ev0) != set(ev1):
                emit("C09:shape-set", "shapes %s for the original, %s for the permuted/renamed document"
                     % (sorted(ev0), sorted(ev1)), sorted(ev1), sorted(ev0))
                continue
            for lab in sorted(ev0):
                a, b = ev0[lab], ev1[lab]
                if a["N"] != b["N"]:
                    emit("C09:instance-count", "%s: %r vs %r instances" % (lab, a["N"], b["N"]), b["N"], a["N"])
                if a.get("min_iri") != b.get("min_iri"):
                    emit("C09:minimal-iri", "%s: IRI stem %r for the original, %r for the permuted document" % (lab, a.get("min_iri"), b.get("min_iri")),
                         b.get("min_iri"), a.get("min_iri"))
                if a["keys"] != b["keys"]:
                    emit("C09:key-set", "%s: keys differ by %r" % (lab, sorted(a["keys"] ^ b["keys"], key=repr)),
                         sorted(b["keys"], key=repr), sorted(a["keys"], key=repr))
                    continue
                if a["facts"] != b["facts"]:
                    diff = sorted(a["facts"] ^ b["facts"], key=repr)
                    tied = all(U.lib()[1].key_of(fk[0], fk[1], fk[2], spec.pi) in tie.get(lab, ()) for fk, _ in diff)
                    emit("C09:evidence-set:%s" % ("tie" if tied else "no-tie"),
                         "%s: (property, kind, cardinality, count) facts differ by %r%s"
                         % (lab, diff, " (all on keys with a frequency tie)" if tied else ""),
                         sorted(b["facts"], key=repr), sorted(a["facts"], key=repr))
                for kx in sorted(a["keys"], key=repr):
                    if kx in tie.get(lab, ()):
                        continue
                    if a["chosen"][kx] != b["chosen"][kx]:
                        emit("C09:chosen-constraint:%s:%s" % (kx[0], U.vclass(kx, spec.pi)),
                             "%s: key %r chosen as %r for the original, %r for the variant (no tie)"
                             % (lab, kx, a["chosen"][kx], b["chosen"][kx]), b["chosen"][kx], a["chosen"][kx])


def _structure(nd, by_local=False):
    out = {}
    for sh in nd:
        lab = U.local_name(sh["label"]) if by_local else sh["label"]
        cnt = collections.Counter()
        for c in sh["cons"]:
            v = c["value"]
            if by_local and v[0] == "shape":
                v = ("shape", U.local_name(v[1]))
            cnt[(c["inv"], c["p"], v, c["card"])] += 1
        out[lab] = cnt
    return out


def _by_value(nd):
    """{label: {(inv, p, value): constraint}}; None if a (inv, p, value) occurs twice."""
    out = {}
    for sh in nd:
        d = {}
        for c in sh["cons"]:
            k = (c["inv"], c["p"], c["value"])
            if k in d:
                return None
            d[k] = c
        out[sh["label"]] = d
    return out


def _first_ratio(c):
    if c["card"] not in ("*", "?") and c["ratio"] is not None:
        return c["ratio"]
    return c["comments"][0]["ratio"] if c["comments"] else None


def check_C13(case, R):
    nt, base, t = case["nt"], case["base"], case["t"]
    cache = {}

    def out(cfg):
        key = json.dumps(cfg, sort_keys=True)
        if key not in cache:
            try:
                cache[key] = R.run(nt, cfg, t)
            except U.Skipped as sk:
                cache[key] = sk.signature
        return cache[key]

    for (opt, va, vb) in case["pairs"]:
        ca, cb = _merge(base, {opt: va}), _merge(base, {opt: vb})
        a, b = out(ca), out(cb)
        bad = [x for x in (a, b) if isinstance(x, str)]
        if len(bad) == 1 and bad[0].startswith("unparsable-output") and opt in ("namespaces_dict", "shapes_namespace", "decimals",
                                                                                 "instances_report_mode", "disable_comments"):
            R.emit("C13:structure-changed:%s" % opt, "%s=%r gives a well-formed ShExC document, %s=%r does not (%s): shapes/constraints "
                   "cannot be the same" % (opt, vb if isinstance(a, str) else va, opt, va if isinstance(a, str) else vb, bad[0]),
                   {"pid": "C13", "nt": nt, "base": base, "t": t, "pairs": [[opt, va, vb]]}, observed=bad[0], expected="identical structure")
        if bad:
            continue

        def emit(key, what, obs, exp, opt=opt, va=va, vb=vb):
            R.emit(key, what, {"pid": "C13", "nt": nt, "base": base, "t": t, "pairs": [[opt, va, vb]]},
                   observed=obs, expected=exp)

        if opt == "disable_or_statements":            # a: False (disjunctions), b: True
            for sh_or in a:
                sh_no = [x for x in b if x["label"] == sh_or["label"]]
                if not sh_no:
                    emit("C13:or-statements:shape-set", "shape %s exists only with disable_or_statements=False" % sh_or["label"], None, None)
                    continue
                plain = dict(((c["inv"], c["p"], c["value"]), c) for c in sh_no[0]["cons"])
                by_p = {}
                for c in sh_no[0]["cons"]:
                    if c["value"][0] in ("IRI", "BNode", "NONLITERAL", "shape"):
                        by_p[(c["inv"], c["p"])] = c
                for c in sh_or["cons"]:
                    if c["value"][0] == "or":
                        ref = by_p.get((c["inv"], c["p"]))
                        if ref is None or ref["value"] not in c["value"][1] or ref["card"] != c["card"]:
                            emit("C13:or-statements:dominant-replaced",
                                 "%s %s: with disjunctions %r (cardinality %r) but without them %r (cardinality %r): the disjunction is not "
                                 "over the alternatives of the single constraint" % (sh_or["label"], c["p"], c["value"], c["card"],
                                                                                     ref and ref["value"], ref and ref["card"]),
                                 repr(c["value"]), repr(ref and ref["value"]))
                    elif (c["inv"], c["p"], c["value"]) not in plain or plain[(c["inv"], c["p"], c["value"])]["card"] != c["card"]:
                        emit("C13:or-statements:other-change", "%s: constraint %r (cardinality %r) exists only with disable_or_statements=False"
                             % (sh_or["label"], (c["inv"], c["p"], c["value"]), c["card"]), repr(c["value"]), None)
                if len(sh_or["cons"]) != len(sh_no[0]["cons"]):
                    emit("C13:or-statements:other-change", "%s: %d constraints with disjunctions, %d without" %
                         (sh_or["label"], len(sh_or["cons"]), len(sh_no[0]["cons"])), len(sh_or["cons"]), len(sh_no[0]["cons"]))
            continue
        if opt in ("disable_comments", "decimals", "instances_report_mode", "namespaces_dict", "shapes_namespace"):
            by_local = opt == "shapes_namespace"
            sa, sb = _structure(a, by_local), _structure(b, by_local)
            if sa != sb:
                diff = [(lab, sorted((sa.get(lab, collections.Counter()) - sb.get(lab, collections.Counter())).items(), key=repr),
                         sorted((sb.get(lab, collections.Counter()) - sa.get(lab, collections.Counter())).items(), key=repr))
                        for lab in sorted(set(sa) | set(sb)) if sa.get(lab) != sb.get(lab)]
                emit("C13:structure-changed:%s" % opt,
                     "%s=%r vs %r changes shapes/constraints/cardinalities: %r" % (opt, va, vb, diff[:3]), repr(diff[:3]), "identical structure")
            if opt == "shapes_namespace":
                for name, nd_x, other in (("b", b, a),):
                    labels = set(sh["label"] for sh in nd_x)
                    dangling = sorted(set(c["value"][1] for sh in nd_x for c in sh["cons"]
                                          if c["value"][0] == "shape" and c["value"][1] not in labels))
                    labels_o = set(sh["label"] for sh in other)
                    dangling_o = [c["value"][1] for sh in other for c in sh["cons"]
                                  if c["value"][0] == "shape" and c["value"][1] not in labels_o]
                    if dangling and not dangling_o:
                        emit("C13:shapes-namespace:dangling-shape-ref",
                             "shapes_namespace=%r: shape references %r point to no printed shape (labels %r); with the default "
                             "namespace every reference resolves" % (vb, dangling, sorted(labels)), dangling, sorted(labels))
            if opt == "decimals":
                for places, nd_x in ((va, a), (vb, b)):
                    if places is None or places < 0:
                        continue
                    for sh in nd_x:
                        if not sh["N"]:
                            continue
                        for (c, source, value, card, ratio, rt, count, raw) in U.figures(sh):
                            if rt is None or count is None:
                                continue
                            ok, want = U.rounded_ok(rt, count, sh["N"], places)
                            digits = len(rt.split(".")[1]) if "." in rt else 0
                            if not ok and digits != places:
                                emit("C13:decimals-format:%d:%s" % (places, cb.get("instances_report_mode", "mixed")),
                                     "decimals=%d (instances_report_mode=%s) prints %s %% with %d decimal place(s) [%s]"
                                     % (places, cb.get("instances_report_mode", "mixed"), rt, digits, raw.strip()), rt, want)
                            elif not ok:
                                emit("C13:decimals-rounding:%d" % places,
                                     "decimals=%d prints %s %% for %d of %d instances; exact ratio rounded to %d places is %s [%s]"
                                     % (places, rt, count, sh["N"], places, " or ".join(want), raw.strip()), rt, want)
        else:
            va_, vb_ = _by_value(a), _by_value(b)
            if va_ is None or vb_ is None:
                continue
            if set(va_) != set(vb_) or any(set(va_[lab]) != set(vb_[lab]) for lab in va_):
                emit("C13:structure-changed:%s" % opt,
                     "%s=%r vs %r changes the set of shapes or of (direction, property, value) constraints" % (opt, va, vb),
                     repr(sorted((lab, sorted(vb_[lab], key=repr)) for lab in vb_))[:600],
                     repr(sorted((lab, sorted(va_[lab], key=repr)) for lab in va_))[:600])
                continue
            for lab in va_:
                for k, c1 in va_[lab].items():
                    c2 = vb_[lab][k]
                    k1, k2 = c1["card"], c2["card"]
                    if opt == "all_instances_are_compliant_mode":       # a: off, b: on
                        if c1["value"][0] == "NONLITERAL":              # merged IRI+BNode figure may exceed 100 % (known, C01)
                            continue
                        r = _first_ratio(c1)
                        below = r is not None and r < 100.0 * (1 - 1e-12)
                        if k1 != k2 and not (below and k2 in ("?", "*")):
                            emit("C13:all-compliant:other-change", "%s %r: cardinality %r (off, ratio %r) -> %r (on)" % (lab, k, k1, r, k2), k2, k1)
                        elif below and k2 not in ("?", "*"):
                            emit("C13:all-compliant:not-relaxed", "%s %r: ratio %r < 100 but cardinality stays %r with the mode on" % (lab, k, r, k2), k2, "? or *")
                    elif opt == "allow_opt_cardinality":                  # a: False, b: True
                        if k1 != k2 and not (k2 == "?" and k1 == "*"):
                            emit("C13:allow-opt:other-change", "%s %r: cardinality %r (False) vs %r (True)" % (lab, k, k1, k2), k1, k2)
                        if k1 == "?":
                            emit("C13:allow-opt:opt-printed", "%s %r: '?' printed although allow_opt_cardinality=False" % (lab, k), k1, "*")
                    elif opt == "disable_exact_cardinality":              # a: True, b: False
                        if k1 != k2 and not (isinstance(k2, int) and k2 > 1 and k1 == "+"):
                            emit("C13:disable-exact:other-change", "%s %r: cardinality %r (True) vs %r (False)" % (lab, k, k1, k2), k1, k2)
                        if isinstance(k1, int) and k1 > 1:
                            emit("C13:disable-exact:exact-printed", "%s %r: {%d} printed although disable_exact_cardinality=True" % (lab, k, k1), k1, "+")


def _reverse_graph(T, pi):
    M = U.lib()[0]
    out = []
    for (s, p, o) in T:
        if p != pi and not M.is_literal(o):
            out.append(M.Triple(o, p, s))
        else:
            out.append((s, p, o))
    return U.dedup(out)


def _con_sig(c):
    return (c["p"], c["value"], c["card"], c["rt"], c["count"],
            tuple((k["value"], k["card"], k["rt"], k["count"]) for k in c["comments"]))


def _check_C14_shacl(case, R):
    """Direction of every constraint must be the same in ShExC ('^') and in SHACL (sh:inversePath)."""
    e = U.env()
    nt, cfg, t = case["nt"], _merge(case["cfg"], {"inverse_paths": True}), case["t"]
    try:
        nd = R.run(nt, cfg, t)
    except U.Skipped:
        return
    try:
        R.evaluations += 1
        shacl = U.run_shacl_paths(nt, cfg, t)
    except U.WallClockTimeout:
        R.crashes["timeout"] += 1
        return
    except Exception as exc:
        R.crashes["SHACL: " + e.V.crash_signature(exc)] += 1
        return
    shex = set((sh["label"], c["inv"], c["p"]) for sh in nd for c in sh["cons"])
    if shex != shacl:
        only_shex, only_shacl = sorted(shex - shacl), sorted(shacl - shex)
        flipped = [x for x in only_shex if (x[0], not x[1], x[2]) in shacl]
        R.emit("C14:shacl:direction-mismatch" if flipped else "C14:shacl:constraint-set-differs",
               "ShExC and SHACL outputs of the same run disagree on (shape, incoming?, property): only in ShExC %r, only in SHACL %r"
               % (only_shex[:4], only_shacl[:4]), dict((k, v) for k, v in case.items() if k != "origin"),
               observed=only_shacl[:6], expected=only_shex[:6])


def _check_C14_inverse_oracle(case, R):
    """inverse_paths=True on instances without outgoing features (type triples ignored / node selectors that are never
    subjects): the incoming features are compared with the oracle."""
    M, S, G = U.lib()
    nt, cfg, t = case["nt"], _merge(case["cfg"], {"inverse_paths": True}), case["t"]
    T = U.parse_nt(nt)
    items, ns = case.get("items"), case.get("ns")
    run_cfg = cfg
    if items:
        run_cfg = _merge(cfg, {"shape_map_raw": "\n".join("%s@<%s>" % (_selector_text(it["sel"]), it["label"]) for it in items)})
        spec, l2c, _, _ = _mixed_oracle(T, items, cfg, True, bool(cfg.get("all_classes_mode")))
    else:
        run_cfg = _merge(cfg, {"namespaces_to_ignore": ns})
        full = U.spec_for(T, cfg)
        inst = collections.OrderedDict((C, list(xs)) for C, xs in full.inst.items())
        spec = U.spec_for_instances([tr for tr in T if not _is_direct_child(tr[1], ns)], inst, inverse=True, pi=full.pi)
        l2c = _l2c(spec)
    try:
        nd = R.run(nt, run_cfg, t)
    except U.Skipped:
        return

    def report(key, what, obs, exp):
        R.emit(key, what, dict((k, v) for k, v in case.items() if k != "origin"), observed=obs, expected=exp)
    U.check_figures("C14:incoming-only-instances", nd, spec, l2c, cfg, report, T=None)
    U.check_keys("C14:incoming-only-instances", nd, spec, l2c, t, report)


def check_C14(case, R):
    if case.get("kind") == "meta":
        # a target instance is also the class of other nodes: the incoming typing links are '^ rdf:type [node]'
        T = U.parse_nt(case["nt"])
        cfg = _merge(case["cfg"], {"inverse_paths": True})
        try:
            nd = R.run(case["nt"], cfg, case["t"])
        except U.Skipped:
            nd = None
        if nd is not None:
            spec = U.spec_for(T, cfg)

            def report(key, what, obs, exp):
                R.emit(key, what, dict((k, v) for k, v in case.items() if k != "origin"), observed=obs, expected=exp)
            U.check_figures("C14:class-as-instance", nd, spec, _l2c(spec), cfg, report)
            U.check_keys("C14:class-as-instance", nd, spec, _l2c(spec), case["t"], report)
        case = dict(case, kind=None)               # ... and the ordinary three-run relation
    if case.get("kind") == "shacl-direction":
        return _check_C14_shacl(case, R)
    if case.get("kind") == "inverse-oracle":
        return _check_C14_inverse_oracle(case, R)
    M, S, G = U.lib()
    nt, cfg, t, relaxed = case["nt"], case["cfg"], case["t"], case.get("relaxed", False)
    T = U.parse_nt(nt)
    pi = M.RDF_TYPE
    ntR = U.to_nt(_reverse_graph(T, pi))
    items = case.get("items")          # shape-map family: shapes may legitimately vanish at high thresholds
    base = cfg
    if items:
        base = _merge(cfg, {"shape_map_raw": "\n".join("%s@<%s>" % (_selector_text(it["sel"]), it["label"]) for it in items)})
    try:
        d0 = R.run(nt, _merge(base, {"inverse_paths": False}), t)
        d1 = R.run(nt, _merge(base, {"inverse_paths": True}), t)
    except U.Skipped:
        return

    def emit(key, what, obs, exp):
        R.emit(key, what, dict(dict((k, v) for k, v in case.items() if k != "origin"), pid="C14"), observed=obs, expected=exp)

    def refs_alive(c, alive):
        """False for a constraint whose value refers to a shape that did not survive in both compared outputs
        (such constraints are removed together with the shape they point to)."""
        return not (c["value"][0] == "shape" and c["value"][1] not in alive)

    s0 = dict((sh["label"], sh) for sh in d0)
    s1 = dict((sh["label"], sh) for sh in d1)
    alive01 = set(s0) & set(s1)
    if set(s0) != set(s1) and not items:
        emit("C14:shape-set", "inverse_paths changes the set of shapes: %s vs %s" % (sorted(s0), sorted(s1)), sorted(s1), sorted(s0))
    for lab in sorted(set(s0) & set(s1)):
        if s0[lab]["N"] != s1[lab]["N"]:
            emit("C14:instance-count", "%s: %r instances without, %r with inverse_paths" % (lab, s0[lab]["N"], s1[lab]["N"]),
                 s1[lab]["N"], s0[lab]["N"])
        a = sorted((_con_sig(c) for c in s0[lab]["cons"] if not c["inv"] and refs_alive(c, alive01)), key=repr)
        b = sorted((_con_sig(c) for c in s1[lab]["cons"] if not c["inv"] and refs_alive(c, alive01)), key=repr)
        if any(c["inv"] for c in s0[lab]["cons"]):
            emit("C14:inverse-without-option", "%s: '^' constraint printed with inverse_paths=False" % lab, None, None)
        if a != b:
            emit("C14:direct-constraints-changed", "%s: direct constraints differ between inverse_paths off and on: %r"
                 % (lab, [x for x in a if x not in b][:2] + [x for x in b if x not in a][:2]), repr(b)[:800], repr(a)[:800])
    # inverse constraints of G == direct constraints of reverse(G)
    try:
        dR = R.run(ntR, _merge(base, {"inverse_paths": False}), t)
    except U.Skipped:
        return
    if items:
        spec, l2c, _, _ = _mixed_oracle(T, items, cfg, True, bool(cfg.get("all_classes_mode")))
    else:
        spec = U.spec_for(T, _merge(cfg, {"inverse_paths": True}))
        l2c = _l2c(spec)
    sR = dict((sh["label"], sh) for sh in dR)
    aliveR = set(sR) & set(s1)
    hits = U.literal_link_hits(T)

    def lit_hit(lab, p):
        C = l2c.get(lab)
        return C is not None and any(M.node_id(x) in hits.get(p, ()) for x in spec.inst.get(C, ()))
    if set(sR) != set(s1) and not items:
        emit("C14:reverse:shape-set", "shapes of reverse(G) %s vs shapes of G %s" % (sorted(sR), sorted(s1)), sorted(sR), sorted(s1))
    nonlit = ("IRI", "BNode", "shape", "NONLITERAL")
    for lab in sorted(set(sR) & set(s1)):
        if sR[lab]["N"] != s1[lab]["N"]:
            emit("C14:reverse:instance-count", "%s: %r instances in G, %r in reverse(G)" % (lab, s1[lab]["N"], sR[lab]["N"]),
                 sR[lab]["N"], s1[lab]["N"])
        inv = dict((c["p"], c) for c in s1[lab]["cons"] if c["inv"] and c["p"] != pi and refs_alive(c, aliveR))
        drv = dict((c["p"], c) for c in sR[lab]["cons"] if not c["inv"] and c["p"] != pi and c["value"][0] in nonlit
                   and refs_alive(c, aliveR))
        if relaxed and t != 0 and set(inv) <= set(drv):
            # blank-node subjects give no shape reference in the inverse direction (by design), so a reference
            # may reach the threshold only in reverse(G)
            drv = dict((p, c) for p, c in drv.items() if p in inv)
        if set(inv) != set(drv) and set(inv) - set(drv) and all(lit_hit(lab, p) for p in set(inv) - set(drv)) \
                and not set(drv) - set(inv):
            emit("C14:literal-counted-as-incoming-link",
                 "%s: '^' constraints on %s exist only because a literal whose text is the identity of an instance is treated as "
                 "an incoming link (reverse(G) has no such direct constraint)" % (lab, sorted(set(inv) - set(drv))),
                 sorted(inv), sorted(drv))
            continue
        if set(inv) != set(drv):
            emit("C14:reverse:key-set", "%s: inverse keys of G %s vs non-literal direct keys of reverse(G) %s"
                 % (lab, sorted(inv), sorted(drv)), sorted(inv), sorted(drv))
            continue
        C = l2c.get(lab)
        tie = U.ties(spec, C, t, cfg.get("keep_less_specific", True)) if C is not None else set()
        for p in sorted(inv):
            ci, cr = inv[p], drv[p]
            if relaxed:
                fi = dict(((k["value"], k["card"]), k["count"]) for k in
                          [x for x in ci["comments"]] + ([ci] if ci["card"] not in ("*", "?") else []) if k["value"][0] in ("IRI", "BNode"))
                fr = dict(((k["value"], k["card"]), k["count"]) for k in
                          [x for x in cr["comments"]] + ([cr] if cr["card"] not in ("*", "?") else []) if k["value"][0] in ("IRI", "BNode"))
                bad = [(k, fi[k], fr[k]) for k in fi if k in fr and fi[k] != fr[k]]
                if bad and lit_hit(lab, p):
                    emit("C14:literal-counted-as-incoming-link", "%s ^%s: IRI/BNode figures %r exceed those of reverse(G); a literal "
                         "with the identity string of an instance is an object of %s" % (lab, p, bad, p), bad, None)
                elif bad:
                    emit("C14:reverse:figure:node-kind", "%s ^%s: IRI/BNode figures differ from reverse(G): %r" % (lab, p, bad), bad, None)
                continue
            if _con_sig(ci) != _con_sig(cr):
                if (S.INVERSE, p, S.NONLIT) in tie:
                    continue
                if lit_hit(lab, p):
                    emit("C14:literal-counted-as-incoming-link", "%s: '^ %s' in G is %r but '%s' in reverse(G) is %r; a literal with "
                         "the identity string of an instance is an object of %s" % (lab, p, _con_sig(ci)[1:], p, _con_sig(cr)[1:], p),
                         repr(_con_sig(ci)), repr(_con_sig(cr)))
                    continue
                emit("C14:reverse:constraint-differs", "%s: '^ %s' in G is %r but '%s' in reverse(G) is %r"
                     % (lab, p, _con_sig(ci)[1:], p, _con_sig(cr)[1:]), repr(_con_sig(ci)), repr(_con_sig(cr)))


def _strip_raw(nd):
    return [{"label": sh["label"], "N": sh["N"],
             "cons": [dict((k, v) for k, v in c.items() if k not in ("raw", "comments"))
                      for c in sh["cons"]],
             "comments": [[dict((k, v) for k, v in m.items() if k != "raw") for m in c["comments"]] for c in sh["cons"]]}
            for sh in nd]


def _is_direct_child(p, namespaces):
    for ns in namespaces:
        if p.startswith(ns):
            rest = p[len(ns):]
            if "/" not in rest and "#" not in rest:
                return True
    return False


def check_C16(case, R):
    M, S, G = U.lib()
    nt, cfg, t = case["nt"], case["cfg"], case["t"]
    T = U.parse_nt(nt)
    if case["kind"] == "cap":
        full = U.spec_for(T, cfg)
        maxN = max(list(full.N.values()) or [0])
        try:
            nocap = R.run(nt, cfg, t)
        except U.Skipped:
            nocap = None
        for k in case["caps"]:
            ck = _merge(cfg, {"instances_cap": k})
            try:
                nd = R.run(nt, ck, t)
            except U.Skipped:
                continue
            spec = U.spec_for(T, ck)
            l2c = _l2c(spec)

            def report(key, what, obs, exp, k=k):
                R.emit(key, what, {"pid": "C16", "kind": "cap", "nt": nt, "cfg": cfg, "t": t, "caps": [k]}, observed=obs, expected=exp)
            U.check_figures("C16:cap", nd, spec, l2c, ck, report)
            U.check_keys("C16:cap", nd, spec, l2c, t, report)
            if k >= maxN and nocap is not None and _strip_raw(nd) != _strip_raw(nocap):
                report("C16:cap:large-cap-changes-output", "instances_cap=%d >= every class size (%d) but the output differs from the "
                       "uncapped one" % (k, maxN), repr(_strip_raw(nd))[:600], repr(_strip_raw(nocap))[:600])
    elif case["kind"] == "ignore-pi":
        # the ignored namespaces contain the instantiation property: membership is still read from the full graph,
        # the features come from the graph without the direct children of the namespaces (instantiation triples included)
        ns = case["ns"]
        full = U.spec_for(T, cfg)
        inst = collections.OrderedDict((C, list(xs)) for C, xs in full.inst.items())
        Tf = [tr for tr in T if not _is_direct_child(tr[1], ns)]
        spec = U.spec_for_instances(Tf, inst, inverse=bool(cfg.get("inverse_paths")), pi=full.pi)
        l2c = _l2c(spec)
        try:
            nd = R.run(nt, _merge(cfg, {"namespaces_to_ignore": ns}), t)
        except U.Skipped:
            return

        def report(key, what, obs, exp):
            R.emit(key, "namespaces_to_ignore=%r (contains the instantiation property %s): %s" % (ns, full.pi, what),
                   {"pid": "C16", "kind": "ignore-pi", "nt": nt, "cfg": cfg, "t": t, "ns": ns}, observed=obs, expected=exp)
        U.check_figures("C16:ignore-pi", nd, spec, l2c, cfg, report)
        U.check_keys("C16:ignore-pi", nd, spec, l2c, t, report)
    elif case["kind"] == "files":
        files = case["files"]
        mini = {"pid": "C16", "kind": "files", "nt": nt, "files": files, "cfg": cfg, "t": t}
        try:
            a = R.run(nt, _merge(cfg, {"_channel": "files", "_files": files}), t)
            b = R.run(nt, cfg, t)
        except U.Skipped:
            return
        if _strip_raw(a) != _strip_raw(b):
            R.emit("C16:files:differs-from-concatenation",
                   "graph_list_of_files_input=%r with %r differs from the same text given as one document (files are to be "
                   "read in the listed order)" % ([f[0] for f in files], dict((k, v) for k, v in cfg.items() if k == "instances_cap")),
                   mini, observed=repr(_strip_raw(a))[:800], expected=repr(_strip_raw(b))[:800])
        spec = U.spec_for(T, cfg)

        def report(key, what, obs, exp):
            R.emit(key, what, mini, observed=obs, expected=exp)
        U.check_figures("C16:files", a, spec, _l2c(spec), cfg, report)
    else:
        ns = case["ns"]
        T2 = [tr for tr in T if tr[1] == M.RDF_TYPE or not _is_direct_child(tr[1], ns)]
        try:
            a = R.run(nt, _merge(cfg, {"namespaces_to_ignore": ns}), t)
            b = R.run(U.to_nt(T2), cfg, t)
        except U.Skipped:
            return
        if _strip_raw(a) != _strip_raw(b):
            pa = sorted(set((sh["label"], c["inv"], c["p"]) for sh in a for c in sh["cons"]))
            pb = sorted(set((sh["label"], c["inv"], c["p"]) for sh in b for c in sh["cons"]))
            if pa != pb:
                kept = sorted(set(x[2] for x in pa) - set(x[2] for x in pb))
                lost = sorted(set(x[2] for x in pb) - set(x[2] for x in pa))
                key = "C16:ignore:predicate-kept" if kept else "C16:ignore:predicate-dropped"
                what = "namespaces_to_ignore=%r: predicates %r still constrained / %r wrongly dropped, compared with the " \
                       "graph without the direct children of those namespaces" % (ns, kept, lost)
            else:
                key, what = "C16:ignore:output-differs", "namespaces_to_ignore=%r: same predicates but different constraints/figures " \
                                                         "than on the restricted graph" % (ns,)
            R.emit(key, what, {"pid": "C16", "kind": "ignore", "nt": nt, "cfg": cfg, "t": t, "ns": ns},
                   observed=repr(_strip_raw(a))[:800], expected=repr(_strip_raw(b))[:800])


def _selector_text(sel, namespaces=None):
    G = U.lib()[2]
    if sel.get("text"):
        return sel["text"]

    def pn(iri):
        for ns, pre in (namespaces or G.NAMESPACES).items():
            if iri.startswith(ns) and "/" not in iri[len(ns):] and "#" not in iri[len(ns):]:
                return pre + ":" + iri[len(ns):]
        return "<" + iri + ">"
    f = sel["form"]
    if f == "node":
        return pn(sel["node"]) if sel.get("prefixed") else "<" + sel["node"] + ">"
    if f == "focus-type":
        return "{FOCUS a %s}" % pn(sel["cls"])
    if f == "focus-subj":
        return "{FOCUS %s _}" % pn(sel["p"])
    if f == "focus-obj":
        return "{_ %s FOCUS}" % pn(sel["p"])
    if f == "focus-po":
        return "{FOCUS %s %s}" % (pn(sel["p"]), pn(sel["o"]))
    if f == "sparql-type":
        return 'SPARQL "select ?s where {?s a %s}"' % pn(sel["cls"])
    raise ValueError(f)


def _selector_nodes(sel, T):
    """(distinct nodes denoted by the selector on the abstract triples, number of solutions)."""
    M = U.lib()[0]
    f = sel["form"]
    if f == "node":
        return [M.IRI(sel["node"])], 1
    if f in ("focus-type", "sparql-type"):
        sols = [s for (s, p, o) in T if p == M.RDF_TYPE and o == M.IRI(sel["cls"])]
    elif f == "focus-po":
        sols = [s for (s, p, o) in T if p == sel["p"] and o == M.IRI(sel["o"])]
    elif f == "focus-subj":
        sols = [s for (s, p, o) in T if p == sel["p"]]
    else:
        sols = [o for (s, p, o) in T if p == sel["p"]]
    return U.dedup(sols), len(sols)


def check_C10(case, R):
    M, S, G = U.lib()
    nt, cfg, t, kind = case.get("nt"), case["cfg"], case["t"], case["kind"]
    T = U.parse_nt(nt) if nt is not None else None

    def emit(key, what, obs, exp):
        R.emit(key, what, dict((k, v) for k, v in case.items() if k != "origin"), observed=obs, expected=exp)

    if kind == "forms":
        classes = case["classes"]
        pre = dict((ns, p) for ns, p in G.NAMESPACES.items())
        forms = {"full": list(classes), "bracketed": ["<%s>" % c for c in classes],
                 "prefixed": ["%s:%s" % (pre[c[:len(c) - len(U.local_name(c))]], U.local_name(c)) for c in classes]}
        outs = {}
        for name, tc in forms.items():
            try:
                outs[name] = R.run(nt, _merge(cfg, {"target_classes": tc}), t)
            except U.Skipped:
                outs[name] = None
        if outs["full"] is None:
            return
        for name in ("bracketed", "prefixed"):
            if outs[name] is not None and _strip_raw(outs[name]) != _strip_raw(outs["full"]):
                emit("C10:target-form:%s" % name, "target_classes given as %r yields a different output than as full IRIs %r"
                     % (forms[name], forms["full"]), repr(_strip_raw(outs[name]))[:600], repr(_strip_raw(outs["full"]))[:600])
        full_cfg = _merge(cfg, {"target_classes": forms["full"]})
        spec = U.spec_for(T, full_cfg)
        U.check_figures("C10:targets", outs["full"], spec, _l2c(spec), full_cfg, emit)
        U.check_keys("C10:targets", outs["full"], spec, _l2c(spec), t, emit)
        return
    if kind in ("all", "pi"):
        try:
            nd = R.run(nt, cfg, t)
        except U.Skipped:
            return
        spec = U.spec_for(T, cfg)
        l2c = _l2c(spec)
        tag = "C10:all-classes" if kind == "all" else "C10:custom-pi"
        want = set(lab for lab, C in l2c.items() if spec.N[C] > 0)
        got = set(sh["label"] for sh in nd)
        if got != want:
            emit(tag + ":shape-set", "shapes %s, classes with instances %s" % (sorted(got), sorted(want)), sorted(got), sorted(want))
        U.check_figures(tag, nd, spec, l2c, cfg, emit)
        U.check_keys(tag, nd, spec, l2c, t, emit)
        return
    if kind == "mixed":
        return _check_C10_mixed(case, R, T, emit)
    if kind == "target-spelling":
        return check_target_spelling(case, R)
    if kind in ("class-file", "class-case"):
        tag = "C10:" + kind
        classes = case["classes"]
        if case.get("file_text") is not None:
            run_cfg = _merge(cfg, {"_class_file": case["file_text"]})
        else:
            run_cfg = _merge(cfg, {"target_classes": classes})
        try:
            nd = R.run(nt, run_cfg, t)
        except U.Skipped:
            return
        ocfg = _merge(cfg, {"target_classes": classes})
        spec = U.spec_for(T, ocfg)
        l2c = dict((U.SHAPES_NS + U.local_name(C), C) for C in spec.N)
        U.check_figures(tag, nd, spec, l2c, ocfg, emit)
        U.check_keys(tag, nd, spec, l2c, t, emit)
        return
    if kind == "shaper-pair":
        # two Shapers in ONE process, same prefixed class list, the prefix bound to different namespaces
        for nsx in case["namespaces"]:
            nsd = collections.OrderedDict([(nsx, case["prefix"]), (M.XSD, "xsd"), (M.RDF, "rdf")])
            cx = _merge(cfg, {"target_classes": ["%s:%s" % (case["prefix"], case["local"])], "namespaces_dict": nsd})
            try:
                nd = R.run(nt, cx, t)
            except U.Skipped:
                continue
            spec = U.spec_for(T, cx)
            l2c = _l2c(spec)

            def pair(key, what, obs, exp, nsx=nsx):
                emit(key, "[%s: bound to <%s>] %s" % (case["prefix"], nsx, what), obs, exp)
            U.check_figures("C10:shaper-pair", nd, spec, l2c, cx, pair)
            U.check_keys("C10:shaper-pair", nd, spec, l2c, t, pair)
        return
    # shape maps
    fam = {"selector-prefix": "C10:selector-prefix", "union": "%s:shapemap-union" % case["pid"],
           "json": "C10:shapemap-json"}.get(case.get("family"))
    if kind == "selector-pair":
        # two Shapers in ONE process: same selector text and namespaces, different graphs
        for gi, ntx in enumerate(case["nts"]):
            def pair(key, what, obs, exp, gi=gi):
                emit(key, "[graph %d of the pair] %s" % (gi + 1, what), obs, exp)
            _check_shapemap(ntx, U.parse_nt(ntx), cfg, t, case["items"], R, pair, "C10:selector-pair", False)
        return
    _check_shapemap(nt, T, cfg, t, case["items"], R, emit, fam, case.get("family") == "json")


def _check_shapemap(nt, T, cfg, t, items, R, emit, fam, as_json):
    M, S, G = U.lib()
    nsd = cfg.get("namespaces_dict")
    if as_json:
        sm = json.dumps([{"nodeSelector": _selector_text(it["sel"], nsd), "shapeLabel": "<%s>" % it["label"]} for it in items])
        cfg = _merge(cfg, {"shape_map_format": "json"})
    else:
        sm = "\n".join("%s@<%s>" % (_selector_text(it["sel"], nsd), it["label"]) for it in items)
    try:
        nd0 = R.run(nt, _merge(cfg, {"shape_map_raw": sm}), 0)      # instance counts are read at t=0 (nothing filtered)
        nd = nd0 if t == 0 else R.run(nt, _merge(cfg, {"shape_map_raw": sm}), t)
    except U.Skipped:
        return
    inst, sols = {}, {}
    for it in items:
        nodes, n_sol = _selector_nodes(it["sel"], T)
        inst.setdefault(it["label"], [])
        inst[it["label"]] = U.dedup(inst[it["label"]] + nodes)
        sols[it["label"]] = sols.get(it["label"], 0) + n_sol
    form = dict((it["label"], it["sel"]["form"]) for it in items)
    got = dict((sh["label"], sh) for sh in nd0)
    bad_count = False
    for lab, sh in got.items():
        if lab not in inst:
            emit((fam or "C10:shapemap") + ":unexpected-shape", "shape %s is not a label of the shape map %r" % (lab, sm), lab, sorted(inst))
            bad_count = True
            continue
        n = len(inst[lab])
        if sh["N"] != n:
            bad_count = True
            why = "duplicate-solutions" if sh["N"] == sols[lab] and sols[lab] > n else "other"
            emit("%s:count:%s" % (fam, form[lab]) if fam else "C10:shapemap-count:%s:%s" % (form[lab], why),
                 "shape map %r: label %s denotes %d distinct node(s) %r but the shape reports %r instances%s"
                 % (sm, lab, n, [M.node_to_nt(x) for x in inst[lab]][:6], sh["N"],
                    " (= number of matching triples / selector hits: a node matching k times is counted k times)" if why == "duplicate-solutions" else ""),
                 sh["N"], n)
    if bad_count:
        return
    spec = U.spec_for_instances(T, dict((lab, [x for x in xs if not M.is_literal(x)] + [x for x in xs if M.is_literal(x)])
                                        for lab, xs in inst.items() if xs),
                                inverse=bool(cfg.get("inverse_paths")))
    l2c = dict((lab, lab) for lab in spec.N)
    U.check_figures(fam or "C10:shapemap", nd, spec, l2c, cfg, emit)
    U.check_keys(fam or "C10:shapemap", nd, spec, l2c, t, emit)


def _mixed_oracle(T, items, cfg, inverse, with_classes, namespaces=None):
    """Oracle in which a node carries its shape-map labels (and, with_classes, its classes by the instantiation
    property).  -> (spec, l2c, labels, inst)"""
    M, S, G = U.lib()
    pi = cfg.get("instantiation_property", M.RDF_TYPE)
    inst = collections.OrderedDict()
    for it in items:
        nodes, _ = _selector_nodes(it["sel"], T)
        inst[it["label"]] = U.dedup(inst.get(it["label"], []) + nodes)
    labels = set(inst)
    if with_classes:
        for (s_, p_, o_) in T:
            if p_ == pi and not M.is_literal(o_):
                inst.setdefault(M.node_id(o_), [])
                if s_ not in inst[M.node_id(o_)]:
                    inst[M.node_id(o_)].append(s_)
    inst = collections.OrderedDict((k, v) for k, v in inst.items() if v)
    spec = U.spec_for_instances(T, inst, inverse=inverse, pi=pi)
    l2c = dict((name if name in labels else U.label_of(name), name) for name in spec.N)
    return spec, l2c, labels, inst


def _check_C10_mixed(case, R, T, emit):
    """all_classes_mode=True together with a shape map: every label shape has exactly the selector's nodes
    AND every class with instances has its shape with N(C); figures/keys against one oracle in which a node
    carries its shape-map labels and its classes."""
    M, S, G = U.lib()
    nt, cfg, t, items = case["nt"], case["cfg"], case["t"], case["items"]
    pi = cfg.get("instantiation_property", M.RDF_TYPE)
    sm = "\n".join("%s@<%s>" % (_selector_text(it["sel"]), it["label"]) for it in items)
    full = _merge(cfg, {"all_classes_mode": True, "shape_map_raw": sm})
    try:
        nd0 = R.run(nt, full, 0)
        nd = nd0 if t == 0 else R.run(nt, full, t)
    except U.Skipped:
        return
    inst = collections.OrderedDict()
    for it in items:
        nodes, _ = _selector_nodes(it["sel"], T)
        inst[it["label"]] = U.dedup(inst.get(it["label"], []) + nodes)
    labels = set(inst)
    for (s_, p_, o_) in T:
        if p_ == pi and not M.is_literal(o_):
            inst.setdefault(M.node_id(o_), [])
            if s_ not in inst[M.node_id(o_)]:
                inst[M.node_id(o_)].append(s_)
    inst = collections.OrderedDict((k, v) for k, v in inst.items() if v)
    spec = U.spec_for_instances(T, inst, inverse=bool(cfg.get("inverse_paths")), pi=pi)
    l2c = dict((name if name in labels else U.label_of(name), name) for name in spec.N)
    got0 = dict((sh["label"], sh) for sh in nd0)
    bad = False
    for lab, name in sorted(l2c.items()):
        what = "label" if name in labels else "class"
        if lab not in got0:
            if any(not S.is_shape(e.k) for e in spec.cand(name, 0)):
                bad = True
                emit("C10:mixed-mode:%s-shape-missing" % what,
                     "all_classes_mode + shape map %r: no shape %s although %s %s has %d node(s) %r"
                     % (sm, lab, what, name, spec.N[name], [M.node_to_nt(x) for x in inst[name]][:6]), sorted(got0), lab)
        elif got0[lab]["N"] != spec.N[name]:
            bad = True
            emit("C10:mixed-mode:%s-count" % what,
                 "all_classes_mode + shape map %r: shape %s reports %r instances, %s %s has %d node(s) %r"
                 % (sm, lab, got0[lab]["N"], what, name, spec.N[name], [M.node_to_nt(x) for x in inst[name]][:6]),
                 got0[lab]["N"], spec.N[name])
    for lab in sorted(set(got0) - set(l2c)):
        bad = True
        emit("C10:mixed-mode:unexpected-shape", "shape %s is neither a label of the shape map nor a class with instances" % lab,
             lab, sorted(l2c))
    if bad:
        return
    U.check_figures("C10:mixed-mode", nd, spec, l2c, cfg, emit)
    U.check_keys("C10:mixed-mode", nd, spec, l2c, t, emit)


CHECKS = {"C01": check_C01, "C02": check_C02, "C09": check_C09, "C10": check_C10, "C12": check_C12,
          "C13": check_C13, "C14": check_C14, "C16": check_C16}


# ================================================================================================
# case generation
# ================================================================================================
SIZES = {   # (enumerated graphs, random graphs)
    "selftest": {"C01": (24, 24), "C02": (24, 24), "C09": (20, 20), "C10": (16, 16), "C12": (24, 24),
                 "C13": (20, 20), "C14": (24, 24), "C16": (16, 16)},
    "quick": {"C01": (1500, 2500), "C02": (1500, 2500), "C09": (800, 1200), "C10": (900, 1300), "C12": (1500, 2500),
              "C13": (1000, 1500), "C14": (1500, 2500), "C16": (900, 1300)},
    "thorough": {"C01": (12000, 24000), "C02": (12000, 24000), "C09": (6000, 10000), "C10": (8000, 12000), "C12": (12000, 24000),
                 "C13": (8000, 14000), "C14": (12000, 24000), "C16": (8000, 12000)},
}


def _permutations(T, rng, n_min):
    """Exhaustive for <= 5 triples, otherwise reversed + rotated + sampled shuffles (>= n_min)."""
    if len(T) <= 5:
        return [list(p) for p in itertools.permutations(T)][1:]
    out = [list(reversed(T)), T[len(T) // 2:] + T[:len(T) // 2], sorted(T, key=repr)]
    while len(out) < n_min:
        p = list(T)
        rng.shuffle(p)
        out.append(p)
    return out


def _rename_bnodes(T, rng):
    M = U.lib()[0]
    labels = sorted(set(x.label for (s, p, o) in T for x in (s, o) if isinstance(x, M.BNode)))
    if not labels:
        return T
    # valid N-Triples labels with '.', '-' and digits inside (never a trailing dot)
    pool = ["genid.1", "b-2", "a.b.c", "x9", "n.0-k", "B_7.q", "z-z.9"]
    if rng.random() < 0.5:
        # labels that differ only in leading / trailing underscores (PN_CHARS_U allows '_' as first character): an injective renaming
        # must stay injective after whatever normalisation the readers apply
        pool = ["x", "_x", "__x", "y", "_y", "x_", "_"]
    new = [pool[i] if i < len(pool) else "z%d.%d" % (i, i) for i in range(len(labels))]
    rng.shuffle(new)
    mp = dict(zip(labels, new))

    def r(x):
        return M.BNode(mp[x.label]) if isinstance(x, M.BNode) else x
    return [(r(s), p, r(o)) for (s, p, o) in T]


def gen_cases(pid, tier, seed):
    M, S, G = U.lib()
    rng = random.Random("%s|%s|%s" % (pid, tier, seed))
    n_enum, n_rand = SIZES[tier][pid]
    big = tier == "thorough"
    cases = []
    modes = ("all", "A", "AB")
    if pid == "C01":
        for gi, (origin, T) in enumerate(U.mixed_family(rng, n_enum, n_rand, big=big)):
            combos = [{}] + [_switch_combo(rng) for _ in range(2 if tier != "thorough" else 3)]
            cases.append({"pid": pid, "origin": origin, "nt": U.to_nt(T), "modes": ["all", "A" if gi % 2 == 0 else "AB"],
                          "inverse": [False, True], "thresholds": [0, 0.5, 1], "switches": combos})
    elif pid in ("C02", "C12"):
        for gi, (origin, T) in enumerate(U.mixed_family(rng, n_enum, n_rand, big=big)):
            cfgs = []
            for j in range(4 if pid == "C02" else 3):
                mode = modes[(gi + j) % 3]
                inv = (j % 2 == 1)
                sw = {} if j < 2 else _switch_combo(rng)
                cfgs.append(_merge(_mode_cfg(mode), {"inverse_paths": True} if inv else {}, sw))
            cases.append({"pid": pid, "origin": origin, "nt": U.to_nt(T), "cfgs": cfgs, "thresholds": "grid"})
        # deterministic float-boundary family (same in every tier): class sizes with (k/N)*N != k in doubles
        for (k, N, tag) in U.FLOAT_BOUNDARY_PAIRS:
            t = float(k) / N
            nt = U.to_nt(U.float_boundary_graph(k, N))
            four = [_merge(_mode_cfg(m), {"inverse_paths": True} if inv else {}) for m in ("A", "all") for inv in (False, True)]
            if pid == "C02":
                cases.append({"pid": pid, "kind": "float-boundary", "origin": "float-boundary:" + tag, "nt": nt, "k": k, "N": N,
                              "cfgs": four if tag != "exact" else [four[0], four[3]],
                              "thresholds": [t] if tag == "exact" else [math.nextafter(t, 0), t, math.nextafter(t, 1)]})
            elif tag != "exact":
                cases.append({"pid": pid, "origin": "float-boundary:" + tag, "nt": nt, "cfgs": [four[0], four[3]],
                              "thresholds": [math.nextafter(t, 0), t, math.nextafter(t, 1)]})
    elif pid == "C09":
        for gi, (origin, T) in enumerate(U.mixed_family(rng, n_enum, n_rand, big=False)):
            n_min = 6 if tier != "thorough" else 10
            perms = _permutations(T, rng, n_min)
            variants = []
            for i, p in enumerate(perms):
                variants.append(U.to_nt(_rename_bnodes(p, rng) if i % 2 == 0 else p))
            variants.append(U.to_nt(_rename_bnodes(T, rng)))
            runs = [{"cfg": _merge(_mode_cfg(modes[gi % 3]), {"inverse_paths": True} if gi % 2 else {}), "t": 0},
                    {"cfg": _merge(_mode_cfg("all"), {"inverse_paths": True} if gi % 4 == 0 else {}, _switch_combo(rng)),
                     "t": rng.choice((0, 0.5, 1.0 / 3))}]
            cases.append({"pid": pid, "origin": origin, "nt": U.to_nt(T), "variants": variants, "runs": runs})
    elif pid == "C13":
        ns_full = dict(G.NAMESPACES)
        for gi, (origin, T) in enumerate(U.mixed_family(rng, n_enum, n_rand, big=big)):
            drop = sorted(ns_full)[gi % len(ns_full)]
            ns_less = dict((k, v) for k, v in ns_full.items() if k != drop)
            mode = _mode_cfg(modes[gi % 3])
            inv = {"inverse_paths": True} if gi % 2 else {}
            t = (0, 0.5, 1.0 / 3)[gi % 3]
            pres = [["disable_comments", False, True], ["decimals", -1, 0], ["decimals", -1, 2], ["decimals", 0, 1],
                    ["instances_report_mode", "mixed", "ratio"], ["instances_report_mode", "mixed", "abs"],
                    ["shapes_namespace", U.SHAPES_NS, U.ALT_SHAPES_NS], ["namespaces_dict", ns_full, ns_less]]
            cases.append({"pid": pid, "origin": origin, "nt": U.to_nt(T), "base": _merge(mode, inv, _switch_combo(rng, 0.3)),
                          "t": t, "pairs": pres})
            sw = _switch_combo(rng)
            inf = [["all_instances_are_compliant_mode", False, True], ["allow_opt_cardinality", False, True],
                   ["disable_exact_cardinality", True, False]]
            for (opt, a, b) in inf:
                base = dict((k, v) for k, v in _merge(mode, inv, sw).items() if k != opt)
                cases.append({"pid": pid, "origin": origin, "nt": U.to_nt(T), "base": base, "t": t, "pairs": [[opt, a, b]]})
    elif pid == "C14":
        k = n_enum // 4
        fam = [("strict", T) for _, T in U.mixed_family(rng, n_enum - k, n_rand - n_rand // 4, bnodes=False, big=big)]
        fam += [("relaxed", T) for T in U.enum_small(k, "bnode")]
        for i in range(n_rand // 4):
            fam.append(("relaxed", U.rand_graph(rng, n_nodes=rng.randint(3, 7), n_triples=rng.randint(4, 14), n_classes=2,
                                                n_props=rng.randint(2, 3), p_bnode=0.3, bnode_objects=False)))
        for gi, (fk, T) in enumerate(fam):
            if gi % 3 == 0:            # literals whose text is the IRI / blank-node label of a node of the graph
                T = U.add_url_literals(T, rng, n=rng.randint(1, 3))
            for j in range(3):
                cfg = _merge(_mode_cfg(modes[(gi + j) % 3]), {} if j == 0 else _switch_combo(rng))
                cases.append({"pid": pid, "origin": fk, "nt": U.to_nt(T), "cfg": cfg, "t": (0, 0.5, 1)[(gi + j) % 3],
                              "relaxed": fk == "relaxed"})
    elif pid == "C16":
        for gi, (origin, T) in enumerate(U.mixed_family(rng, n_enum, n_rand // 2, big=big)):
            for mode in ("all", "A" if gi % 2 else "AB"):
                cfg = _merge(_mode_cfg(mode), {"inverse_paths": True} if gi % 3 == 0 else {}, _switch_combo(rng, 0.25))
                maxN = max(list(U.spec_for(T, _merge(cfg, {"all_classes_mode": True})).N.values()) or [1])
                cases.append({"pid": pid, "kind": "cap", "origin": origin, "nt": U.to_nt(T), "cfg": cfg,
                              "t": (0, 0.5)[gi % 2], "caps": list(range(1, maxN + 2))})
        extra = (G.EX + "sub/p", G.EX + "sub/deep/r", G.EX + "vocab#v", G.OTHER + "q", "http://other.org/top")
        ns_lists = [[G.EX], [G.EX + "sub/"], [G.EX, G.EX + "sub/"], [G.OTHER], ["http://other.org/"], [G.EX + "vocab#"],
                    ["http://ex.org"], [G.EX + "sub/deep/", G.OTHER], [G.EX + "sub/", G.EX]]
        for gi in range(n_rand - n_rand // 2 + n_enum // 4):
            T = U.rand_graph(rng, n_nodes=rng.randint(3, 8), n_triples=rng.randint(6, 22 if not big else 40),
                             n_classes=rng.randint(2, 3), n_props=2, p_bnode=0.15 if gi % 4 == 0 else 0.0, extra_props=extra)
            for ns in rng.sample(ns_lists, 4):
                cfg = _merge(_mode_cfg(modes[gi % 3]), {"inverse_paths": True} if gi % 2 else {})
                cases.append({"pid": pid, "kind": "ignore", "origin": "random", "nt": U.to_nt(T), "cfg": cfg,
                              "t": (0, 0.5)[gi % 2], "ns": ns})
    elif pid == "C10":
        fam = U.mixed_family(rng, n_enum, n_rand, big=big)
        for gi, (origin, T) in enumerate(fam):
            sw = _switch_combo(rng, 0.25)
            inv = {"inverse_paths": True} if gi % 2 else {}
            t = (0, 0.5)[gi % 2]
            classes = ([G.CLASS_A], [G.CLASS_B], [G.CLASS_A, G.CLASS_B], [G.CLASS_B, G.EX + "C"])[gi % 4]
            cases.append({"pid": pid, "kind": "forms", "origin": origin, "nt": U.to_nt(T), "cfg": _merge(inv, sw), "t": t,
                          "classes": classes})
            cases.append({"pid": pid, "kind": "all", "origin": origin, "nt": U.to_nt(T),
                          "cfg": _merge({"all_classes_mode": True}, inv, sw), "t": t})
        for gi in range((n_enum + n_rand) // 2):
            T = U.rand_graph(rng, n_nodes=rng.randint(3, 8), n_triples=rng.randint(4, 20), n_classes=rng.randint(2, 3),
                             n_props=rng.randint(2, 3), p_bnode=0.15 if gi % 4 == 0 else 0.0, pi=U.PI_ISA,
                             extra_props=(M.RDF_TYPE,))
            mode = {"all_classes_mode": True} if gi % 2 == 0 else {"target_classes": [G.CLASS_A, G.CLASS_B]}
            cases.append({"pid": pid, "kind": "pi", "origin": "random-isa", "nt": U.to_nt(T),
                          "cfg": _merge(mode, {"instantiation_property": U.PI_ISA}, {"inverse_paths": True} if gi % 3 == 0 else {}),
                          "t": (0, 0.5)[gi % 2]})
        sm_graphs = [T for _, T in U.mixed_family(rng, n_enum // 2, n_rand // 2, bnodes=False, big=False)]
        for gi, T in enumerate(sm_graphs):
            subjects = U.dedup([s.iri for (s, p, o) in T])
            props = U.dedup([p for (s, p, o) in T if p != M.RDF_TYPE])
            classes = U.dedup([o.iri for (s, p, o) in T if p == M.RDF_TYPE])
            sels = [{"form": "node", "node": rng.choice(subjects)}, {"form": "node", "node": rng.choice(subjects), "prefixed": True},
                    {"form": "focus-type", "cls": rng.choice(classes)}, {"form": "sparql-type", "cls": rng.choice(classes)}]
            if props:
                sels += [{"form": "focus-subj", "p": rng.choice(props)}, {"form": "focus-obj", "p": rng.choice(props)}]
            inv = {"inverse_paths": True} if gi % 2 else {}
            for si, sel in enumerate(sels):
                cases.append({"pid": pid, "kind": "shapemap", "origin": "shapemap", "nt": U.to_nt(T), "cfg": inv, "t": (0, 0.5)[si % 2],
                              "items": [{"sel": sel, "label": U.ALT_SHAPES_NS + "L1"}]})
            two = rng.sample(sels[:4], 2)
            cases.append({"pid": pid, "kind": "shapemap", "origin": "shapemap", "nt": U.to_nt(T), "cfg": inv, "t": 0,
                          "items": [{"sel": two[0], "label": U.ALT_SHAPES_NS + "L1"}, {"sel": two[1], "label": U.ALT_SHAPES_NS + "L2"}]})
        n_mixed = max(8, (n_enum + n_rand) // 8)
        for gi in range(n_mixed):
            custom = gi % 2 == 1
            pi = U.PI_ISA if custom else M.RDF_TYPE
            T = U.rand_graph(rng, n_nodes=rng.randint(3, 7), n_triples=rng.randint(4, 16), n_classes=rng.randint(2, 3),
                             n_props=rng.randint(2, 3), p_bnode=0.0, p_typed=0.8, pi=pi,
                             extra_props=(M.RDF_TYPE,) if custom else ())
            typed = U.dedup([s.iri for (s, p, o) in T if p == pi])
            subjects = U.dedup([s.iri for (s, p, o) in T])
            props = U.dedup([p for (s, p, o) in T if p not in (pi, M.RDF_TYPE)])
            classes = U.dedup([o.iri for (s, p, o) in T if p == pi])
            sels = [{"form": "node", "node": rng.choice(typed)}, {"form": "node", "node": rng.choice(subjects), "prefixed": True},
                    {"form": "focus-po", "p": pi, "o": rng.choice(classes)} if custom else {"form": "focus-type", "cls": rng.choice(classes)}]
            if props:
                sels.append({"form": "focus-subj", "p": rng.choice(props)})
            base = _merge({"instantiation_property": U.PI_ISA} if custom else {}, {"inverse_paths": True} if gi % 4 >= 2 else {})
            for si, sel in enumerate(sels):
                cases.append({"pid": pid, "kind": "mixed", "origin": "mixed", "nt": U.to_nt(T), "cfg": base, "t": (0, 0.5)[si % 2],
                              "items": [{"sel": sel, "label": U.ALT_SHAPES_NS + "L1"}]})
            if len(sels) > 3:
                cases.append({"pid": pid, "kind": "mixed", "origin": "mixed", "nt": U.to_nt(T), "cfg": base, "t": 0,
                              "items": [{"sel": sels[2], "label": U.ALT_SHAPES_NS + "L1"}, {"sel": sels[3], "label": U.ALT_SHAPES_NS + "L2"}]})
    else:
        raise ValueError("unknown property %r" % pid)
    cases.extend(_extra_cases(pid, tier, rng, n_enum, n_rand))
    # call-history sub-family: ~3 % of the cases of every family reuse one Shaper (see _pipeline_util.run_shexer)
    rate = 6 if tier == "selftest" else 33
    for i, c in enumerate(cases):
        if i % rate == rate // 2:
            c["history"] = True
    return cases


OBO = "http://purl.obolibrary.org/obo/"
ALT = "http://alt.org/"
WD = "http://www.wikidata.org/entity/"
WDT = "http://www.wikidata.org/prop/direct/"
RDFS = "http://www.w3.org/2000/01/rdf-schema#"


def _gone_shape_fixture():
    """Deterministic instance of the 'label emptied by the threshold' situation: L1 = two nodes sharing nothing, L2 = the
    instances of A, which all have an incoming ex:k link and an outgoing ex:name."""
    M, S, G = U.lib()
    a1, a2, n1, n2, u = (M.IRI(G.EX + x) for x in ("a1", "a2", "n1", "n2", "u"))
    T = [M.Triple(a1, M.RDF_TYPE, M.IRI(G.CLASS_A)), M.Triple(a2, M.RDF_TYPE, M.IRI(G.CLASS_A)),
         M.Triple(u, G.EX + "k", a1), M.Triple(u, G.EX + "k", a2), M.Triple(a1, G.EX + "name", M.Lit("x")),
         M.Triple(a2, G.EX + "name", M.Lit("y")), M.Triple(n1, G.PROP_P, M.Lit("x")), M.Triple(n2, G.PROP_Q, M.Lit("1", dt=M.XSD_INTEGER)),
         M.Triple(a1, G.EX + "see", n1)]
    items = [{"sel": {"form": "node", "node": n1.iri}, "label": U.ALT_SHAPES_NS + "L1"},
             {"sel": {"form": "node", "node": n2.iri}, "label": U.ALT_SHAPES_NS + "L1"},
             {"sel": {"form": "focus-type", "cls": G.CLASS_A}, "label": U.ALT_SHAPES_NS + "L2"}]
    return T, items


def _extra_cases(pid, tier, rng, n_enum, n_rand):
    """Families added for seeded changes that the original families could not see."""
    M, S, G = U.lib()
    modes = ("all", "A", "AB")
    out = []
    small = tier == "selftest"

    def n_of(div, floor=6):
        return max(floor, n_rand // div)

    if pid == "C01":
        for gi in range(n_of(10)):                     # input through rdflib, same text / different kind
            T = U.same_text_graph(rng)
            runs = []
            for ci, ch in enumerate(("turtle", "rdflib_graph")):
                for mi, mode in enumerate(("all", "A")):
                    for ti, t in enumerate((0, 0.5)):
                        inv = {"inverse_paths": True} if (gi + ci + mi + ti) % 2 else {}
                        runs.append({"cfg": _merge(_mode_cfg(mode), inv, {"_channel": ch}), "t": t})
            out.append({"pid": pid, "kind": "rdflib", "origin": "rdflib-channel", "nt": U.to_nt(T), "runs": runs})
        # C01 is stated for duplicate-free graphs: texts that repeat a line are OUTSIDE its domain (the N-Triples path counts lines, the rdflib
        # path triples - recorded in DESIGN.md as an observation, not a C01 finding).  The family is kept for the selftest only.
        fam = U.mixed_family(rng, 0, n_of(5), big=False) if tier == "selftest-duplicates" else []
        for gi, (origin, T) in enumerate(fam):         # statements written twice
            dk = ("type", "data")[gi % 2]
            T2 = U.add_duplicate_lines(T, rng, dk, n=rng.randint(1, 2))
            if T2 is None:
                continue
            runs = [{"cfg": _merge(_mode_cfg(m), {"inverse_paths": True} if inv else {}), "t": 0} for m in ("all", "A") for inv in (False, True)]
            out.append({"pid": pid, "kind": "duplicates", "dup_kind": dk, "origin": "duplicate-lines", "nt": U.to_nt(T2), "runs": runs})
    if pid == "C01":
        for gi in range(n_of(10)):                     # TAB directly after blank-node labels, language tags, datatype suffixes
            T = U.rand_graph(rng, n_nodes=rng.randint(3, 6), n_triples=rng.randint(6, 16), n_classes=2, n_props=3, p_bnode=0.5,
                             p_literal=0.5, p_link_typed=0.8, extra_literals=(M.Lit("hi", lang="en"), M.Lit("5", dt=M.XSD_INTEGER)))
            runs = [{"cfg": _merge(_mode_cfg(m), {"inverse_paths": True} if (gi + i) % 2 else {}), "t": t}
                    for i, m in enumerate(("all", "A")) for t in (0, 0.5)]
            out.append({"pid": pid, "kind": "tabs", "origin": "tab-after-token", "nt": U.to_nt(T), "runs": runs})
        at_lits = [M.Lit("Bob @ work", lang="en"), M.Lit("contact @ st. john", lang="en-GB"), M.Lit("dave@ex.org", lang="en"),
                   M.Lit("mail me @ home"), M.Lit("a@b c", dt=U.DT_FOO), M.Lit("x @ y @ z", lang="fr"), M.Lit("@home"),
                   M.Lit("7 @ 8", dt=M.XSD_INTEGER)]
        for gi in range(n_of(10)):                     # '@' inside the text of (language-tagged) literals, read as N-Triples
            T = U.rand_graph(rng, n_nodes=rng.randint(3, 6), n_triples=rng.randint(6, 16), n_classes=2, n_props=3, p_bnode=0.0,
                             p_literal=0.0, extra_literals=())
            nodes = U.dedup([s for (s, p, o) in T if p == M.RDF_TYPE])
            for _ in range(rng.randint(4, 10)):
                T.append(M.Triple(rng.choice(nodes), rng.choice([G.EX + "p0", G.OTHER + "p1", G.EX + "label"]), rng.choice(at_lits)))
            T = U.dedup(T)
            rng.shuffle(T)
            runs = [{"cfg": _merge(_mode_cfg(m), {"inverse_paths": True} if (gi + i) % 2 else {}), "t": t}
                    for i, m in enumerate(("all", "A")) for t in (0, 0.5)]
            out.append({"pid": pid, "kind": "at-literals", "origin": "at-literals", "nt": U.to_nt(T), "runs": runs})
        for gi in range(n_of(8)):                      # disjunctions: values conforming to >= 2 shapes, several such properties
            def g():
                return U.rand_graph(rng, n_nodes=rng.randint(4, 7), n_triples=rng.randint(8, 18), n_classes=3, n_props=3,
                                    p_bnode=0.0, p_typed=0.9, max_types=3, p_literal=0.15, p_link_typed=0.9)
            runs = []
            for red in (False, True):
                for mi, mode in enumerate(("all", "AB")):
                    # inverse_paths stays off here: on the current tree a disjunction built for an incoming constraint is printed
                    # without '^' (reported to the coordinator as an existing deviation, not turned into a key)
                    runs.append({"cfg": _merge(_mode_cfg(mode), {"disable_or_statements": False}, {"allow_redundant_or": True} if red else {},
                                               _switch_combo(rng, 0.2) if gi % 3 == 0 else {}),
                                 "t": (0, 0.5)[(gi + mi) % 2]})
            out.append({"pid": pid, "kind": "or", "origin": "or-statements", "nt": U.to_nt(g()), "nt2": U.to_nt(g()), "runs": runs})
        for gi in range(n_of(8)):                      # IRI-only and blank-node-only instances, uniform cardinalities
            T = U.nonliteral_uniform_graph(rng)
            runs = [{"cfg": _merge(_mode_cfg(m), {"inverse_paths": True} if inv else {}, _switch_combo(rng, 0.3) if gi % 2 else {}), "t": t}
                    for m in ("all", "A") for inv in (False, True) for t in (0, 1)]
            out.append({"pid": pid, "origin": "nonliteral-uniform", "nt": U.to_nt(T), "runs": runs})
    if pid in ("C02", "C10"):
        for gi in range(n_of(10)):                     # two shape-map items giving ONE label to overlapping node sets
            T = U.rand_graph(rng, n_nodes=rng.randint(3, 7), n_triples=rng.randint(5, 14), n_classes=2, n_props=rng.randint(2, 3), p_bnode=0.0)
            props = U.dedup([p for (s, p, o) in T if p != M.RDF_TYPE]) or [G.PROP_P]
            classes = U.dedup([o.iri for (s, p, o) in T if p == M.RDF_TYPE])
            subjects = U.dedup([s.iri for (s, p, o) in T])
            sels = [{"form": "focus-type", "cls": rng.choice(classes)}, {"form": "focus-subj", "p": rng.choice(props)},
                    {"form": "node", "node": rng.choice(subjects)}]
            if gi % 3 == 0:
                sels.append({"form": "focus-subj", "p": rng.choice(props)})
            fam = "json" if (pid == "C10" and gi % 2) else "union"
            out.append({"pid": pid, "kind": "shapemap", "family": fam, "origin": "shapemap-" + fam, "nt": U.to_nt(T),
                        "cfg": {"inverse_paths": True} if gi % 4 == 0 else {}, "t": (0, 0.5)[gi % 2],
                        "items": [{"sel": sel, "label": U.ALT_SHAPES_NS + "S"} for sel in sels]})
    if pid == "C02":
        for gi in range(n_of(10)):                     # one Shaper walked through thresholds that empty and refill a shape
            T = U.rand_graph(rng, n_nodes=rng.randint(4, 7), n_triples=rng.randint(6, 14), n_classes=2, n_props=3, p_bnode=0.0, p_typed=0.7)
            subjects = U.dedup([s.iri for (s, p, o) in T])
            classes = U.dedup([o.iri for (s, p, o) in T if p == M.RDF_TYPE])
            picked = rng.sample(subjects, min(len(subjects), rng.randint(2, 3)))
            sm = "\n".join(["<%s>@<%sS>" % (x, U.ALT_SHAPES_NS) for x in picked] + ["{FOCUS a <%s>}@<%sR>" % (rng.choice(classes), U.ALT_SHAPES_NS)])
            cfg = {"shape_map_raw": sm} if gi % 3 else _merge(_mode_cfg("all"), {"shape_map_raw": sm})
            if gi % 5 == 4:
                cfg = _mode_cfg("AB")
            out.append({"pid": pid, "kind": "threshold-walk", "origin": "threshold-walk", "nt": U.to_nt(T), "cfg": cfg,
                        "thresholds": [0, 0.5, 1.0 / 3, 0, 1, 2.0 / 3, 0, 0.51, 1, 0]})
    if pid == "C10":
        for gi in range(n_of(10)):                     # same selector text and namespaces, two different graphs, one process
            g1 = U.rand_graph(rng, n_nodes=rng.randint(3, 6), n_triples=rng.randint(5, 12), n_classes=2, n_props=2, p_bnode=0.0)
            g2 = U.rand_graph(rng, n_nodes=rng.randint(3, 6), n_triples=rng.randint(5, 12), n_classes=2, n_props=2, p_bnode=0.0)
            sel = ({"form": "focus-type", "cls": G.CLASS_A}, {"form": "focus-subj", "p": G.EX + "p0"}, {"form": "sparql-type", "cls": G.CLASS_B})[gi % 3]
            out.append({"pid": pid, "kind": "selector-pair", "origin": "selector-pair", "nts": [U.to_nt(g1), U.to_nt(g2)],
                        "cfg": {"inverse_paths": True} if gi % 4 == 0 else {}, "t": 0, "items": [{"sel": sel, "label": U.ALT_SHAPES_NS + "L1"}]})
    if pid == "C14":
        for gi in range(n_of(8)):                      # one property arriving from IRI and from blank-node subjects
            n = rng.randint(2, 5)
            inst = [M.IRI(G.EX + "i%d" % i) for i in range(n)]
            T = [M.Triple(x, M.RDF_TYPE, M.IRI(G.CLASS_A)) for x in inst]
            for i, x in enumerate(inst):
                if i % 2 == 0 or rng.random() < 0.3:
                    T.append(M.Triple(M.BNode("w%d" % i), G.EX + "inc", x))
                if i % 2 == 1 or rng.random() < 0.3:
                    T.append(M.Triple(M.IRI(G.OTHER + "s%d" % i), G.EX + "inc", x))
                if rng.random() < 0.6:
                    T.append(M.Triple(x, G.PROP_P, rng.choice([M.Lit("x"), M.BNode("v%d" % i), M.IRI(G.OTHER + "t%d" % i)])))
                if rng.random() < 0.4:
                    T.append(M.Triple(rng.choice(inst), G.PROP_Q, x))
            if gi % 3 == 0:
                T.append(M.Triple(M.IRI(G.OTHER + "s0"), M.RDF_TYPE, M.IRI(G.CLASS_B)))
            T = U.dedup(T)
            rng.shuffle(T)
            for t in (0, 0.5):
                out.append({"pid": pid, "kind": "shacl-direction", "origin": "shacl-direction", "nt": U.to_nt(T),
                            "cfg": _merge(_mode_cfg(("all", "A")[gi % 2]), _switch_combo(rng, 0.2) if gi % 3 == 1 else {}), "t": t})
        for gi in range(n_of(8)):                      # instances without outgoing features but with incoming links
            T = U.rand_graph(rng, n_nodes=rng.randint(4, 7), n_triples=rng.randint(6, 14), n_classes=2, n_props=3, p_bnode=0.0, p_typed=0.6)
            quiet = [M.IRI(G.EX + "quiet%d" % i) for i in range(rng.randint(1, 2))]
            srcs = U.dedup([s for (s, p, o) in T])
            for q in quiet:
                T.append(M.Triple(q, M.RDF_TYPE, M.IRI(rng.choice([G.CLASS_A, G.CLASS_B]))))
                for _ in range(rng.randint(1, 3)):
                    T.append(M.Triple(rng.choice(srcs), rng.choice([G.EX + "p0", G.OTHER + "p1"]), q))
            T = U.dedup(T)
            rng.shuffle(T)
            out.append({"pid": pid, "kind": "inverse-oracle", "origin": "incoming-only", "nt": U.to_nt(T), "ns": [M.RDF],
                        "cfg": _mode_cfg(("all", "AB")[gi % 2]), "t": (0, 0.5)[gi % 2]})
            objs = U.dedup([o.iri for (s, p, o) in T if isinstance(o, M.IRI) and p != M.RDF_TYPE and o not in srcs]) or [quiet[0].iri]
            out.append({"pid": pid, "kind": "inverse-oracle", "origin": "incoming-only", "nt": U.to_nt(T), "cfg": {}, "t": 0,
                        "items": [{"sel": {"form": "node", "node": rng.choice(objs)}, "label": U.ALT_SHAPES_NS + "L1"},
                                  {"sel": {"form": "node", "node": quiet[0].iri}, "label": U.ALT_SHAPES_NS + "L1"}]})
    if pid in ("C02", "C10"):
        for gi in range(n_of(8)):                      # target classes in three spellings, one without instances
            T = U.rand_graph(rng, n_nodes=rng.randint(3, 7), n_triples=rng.randint(4, 14), n_classes=2, n_props=rng.randint(2, 3),
                             p_bnode=0.15 if gi % 4 == 0 else 0.0)
            classes = [G.CLASS_A, G.CLASS_B, G.EX + "Ghost"]
            rng.shuffle(classes)
            if gi % 3 == 0:
                classes = [c for c in classes if c != G.CLASS_B]
            spelling = [rng.choice(("full", "bracketed", "prefixed", "prefixed")) for _ in classes]
            out.append({"pid": pid, "kind": "target-spelling", "origin": "target-spelling", "nt": U.to_nt(T), "classes": classes,
                        "spelling": spelling, "cfg": {"inverse_paths": True} if gi % 2 else {}, "t": (0, 0.5)[gi % 2]})
    if pid == "C10":
        for gi in range(n_of(6)):                      # class IRIs whose local name holds further colons, next to the class named by its first segment
            cls = [G.EX + "Sensor", G.EX + "Sensor:Temp", G.EX + "Kind:a:b"]
            T = U.rand_graph(rng, n_nodes=rng.randint(4, 8), n_triples=rng.randint(6, 16), n_props=3, p_bnode=0.0, p_typed=0.9, max_types=1, classes=cls)
            classes = list(cls); rng.shuffle(classes)
            if gi % 3 == 0:
                classes = classes[:2]
            spelling = ["prefixed" if (gi + i) % 3 != 2 else rng.choice(("full", "bracketed")) for i in range(len(classes))]
            out.append({"pid": pid, "kind": "target-spelling", "origin": "target-spelling-colon-local", "nt": U.to_nt(T), "classes": classes,
                        "spelling": spelling, "cfg": {"inverse_paths": True} if gi % 2 else {}, "t": (0, 0.5)[gi % 2]})
        for gi in range(n_of(10)):                     # two Shapers, same prefixed class list, different binding of the prefix
            T = U.rand_graph(rng, n_nodes=rng.randint(4, 8), n_triples=rng.randint(6, 16), n_props=3, p_bnode=0.0, max_types=1,
                             p_typed=0.9, classes=[G.EX + "C", ALT + "C"])
            order = [G.EX, ALT] if gi % 2 == 0 else [ALT, G.EX]
            out.append({"pid": pid, "kind": "shaper-pair", "origin": "shaper-pair", "nt": U.to_nt(T), "prefix": "ex", "local": "C",
                        "namespaces": order, "cfg": {"inverse_paths": True} if gi % 3 == 0 else {}, "t": 0})
        ns_a = [[WD, "wd"], [WDT, "wdt"], [M.RDF, "rdf"], [RDFS, "rdfs"], [M.XSD, "xsd"], [G.EX, "ex"]]
        ns_b = [[G.EX, ""], [WD, "wd"], [WDT, "wdt"], [M.RDF, "rdf"], [RDFS, "rdfs"], [M.XSD, "xsd"]]
        for gi in range(n_of(10)):                     # prefixes that are initial segments of one another, shorter declared first
            ents = [M.IRI(WD + "Q%d" % i) for i in range(1, 6)] + [M.IRI(WDT + "x"), M.IRI(G.EX + "e1")]
            T = [M.Triple(rng.choice(ents), M.RDF_TYPE, M.IRI(WD + "Q5")) for _ in range(2)]
            for _ in range(rng.randint(6, 14)):
                s_ = rng.choice(ents)
                p_ = rng.choice([WDT + "P31", WDT + "P31", WDT + "P21", RDFS + "label", G.EX + "p"])
                if p_ == WDT + "P31":
                    o_ = M.IRI(WD + rng.choice(("Q5", "Q6")))
                elif p_ == RDFS + "label":
                    o_ = M.Lit(rng.choice("xyz"))
                else:
                    o_ = rng.choice(ents + [M.Lit("1", dt=M.XSD_INTEGER), M.Lit("x")])
                T.append(M.Triple(s_, p_, o_))
            T += [M.Triple(M.IRI(WDT + "x"), WDT + "P31", M.IRI(WD + "Q5")), M.Triple(M.IRI(G.EX + "e1"), G.EX + "p", M.Lit("x"))]
            T = U.dedup(T)
            for (nsl, sels) in ((ns_a, [{"form": "focus-po", "p": WDT + "P31", "o": WD + "Q5"}, {"form": "node", "node": WDT + "x", "prefixed": True},
                                       {"form": "focus-subj", "p": RDFS + "label"}, {"form": "focus-subj", "p": WDT + "P21"}]),
                                (ns_b, [{"form": "node", "node": G.EX + "e1", "prefixed": True}, {"form": "focus-subj", "p": G.EX + "p"},
                                        {"form": "focus-subj", "p": WDT + "P31"}, {"form": "focus-po", "p": WDT + "P31", "o": WD + "Q6"}])):
                nsd = collections.OrderedDict((k, v) for k, v in nsl)
                for si, sel in enumerate(sels):
                    if (gi + si) % 2:
                        continue
                    out.append({"pid": pid, "kind": "shapemap", "family": "selector-prefix", "origin": "selector-prefix", "nt": U.to_nt(T),
                                "cfg": _merge({"namespaces_dict": nsd}, {"inverse_paths": True} if gi % 2 else {}), "t": 0,
                                "items": [{"sel": sel, "label": U.ALT_SHAPES_NS + "L1"}]})
    if pid == "C13":
        base_ns = dict(G.NAMESPACES)
        variants = {"RO": [[OBO + "RO_", "RO"]], "obo": [[OBO, "obo"]], "RO+obo": [[OBO + "RO_", "RO"], [OBO, "obo"]],
                    "RO+BFO": [[OBO + "BFO_", "BFO"], [OBO + "RO_", "RO"]], "none": []}

        def nsd(name):
            return collections.OrderedDict(variants[name] + [[k, v] for k, v in base_ns.items()])
        for gi in range(n_of(8)):                      # namespaces that do not end in '/' or '#'
            T = U.rand_graph(rng, n_nodes=rng.randint(3, 7), n_triples=rng.randint(5, 16), n_props=1, p_bnode=0.0,
                             classes=[G.CLASS_A, OBO + "RO_0000057", OBO + "BFO_0000040"],
                             extra_props=(OBO + "RO_0002211", OBO + "RO_0002212", OBO + "BFO_0000050"))
            pairs = [["namespaces_dict", nsd(a), nsd(b)] for a, b in (("none", "RO"), ("RO", "obo"), ("obo", "RO+obo"), ("none", "RO+BFO"))]
            out.append({"pid": pid, "origin": "obo-namespaces", "nt": U.to_nt(T),
                        "base": _merge(_mode_cfg("all"), {"inverse_paths": True} if gi % 2 else {}), "t": (0, 0.5)[gi % 2], "pairs": pairs})
    if pid == "C02":
        for gi in range(n_of(6)):                      # (as C14's family) shape map + inverse paths + a label emptied by the threshold
            T = U.rand_graph(rng, n_nodes=rng.randint(4, 7), n_triples=rng.randint(6, 16), n_classes=2, n_props=rng.randint(2, 3),
                             p_bnode=0.0, p_typed=0.7)
            typed = U.dedup([s.iri for (s, p, o) in T if p == M.RDF_TYPE])
            others = U.dedup([x.iri for (s, p, o) in T for x in (s, o) if isinstance(x, M.IRI) and x.iri not in typed
                              and x.iri not in (G.CLASS_A, G.CLASS_B)]) or typed
            classes = U.dedup([o.iri for (s, p, o) in T if p == M.RDF_TYPE])
            items = [{"sel": {"form": "node", "node": rng.choice(typed)}, "label": U.ALT_SHAPES_NS + "L1"},
                     {"sel": {"form": "node", "node": rng.choice(others)}, "label": U.ALT_SHAPES_NS + "L1"},
                     {"sel": {"form": "focus-type", "cls": rng.choice(classes)}, "label": U.ALT_SHAPES_NS + "L2"}]
            if gi == 0:
                T, items = _gone_shape_fixture()
            cfg = _merge({"inverse_paths": True}, {"all_classes_mode": True} if gi % 2 else {})
            for t in (1, 0.6, 0):
                out.append({"pid": pid, "kind": "shapemap-gone", "origin": "shapemap-gone", "nt": U.to_nt(T), "cfg": cfg, "t": t, "items": items})
    if pid == "C10":
        for gi in range(n_of(10)):                     # class files with blank lines; class IRIs differing only in letter case
            custom = gi % 2 == 1
            pi = U.PI_ISA if custom else M.RDF_TYPE
            cls = [G.EX + "Person", G.EX + "person", G.CLASS_B, G.EX + "C"]
            T = U.rand_graph(rng, n_nodes=rng.randint(4, 8), n_triples=rng.randint(6, 16), n_props=3, p_bnode=0.0, p_typed=0.9,
                             max_types=2, classes=cls, pi=pi, extra_props=(M.RDF_TYPE,) if custom else ())
            base = _merge({"instantiation_property": U.PI_ISA} if custom else {}, {"inverse_paths": True} if gi % 4 >= 2 else {})
            listed = [cls[0], cls[2], cls[3]] if gi % 3 else [cls[1], cls[3], cls[2]]
            spelled = [_spell(c, ("full", "bracketed", "prefixed")[(gi + i) % 3]) for i, c in enumerate(listed)]
            text = spelled[0] + "\n\n" + spelled[1] + "\n   \n" + spelled[2] + "\n"
            out.append({"pid": pid, "kind": "class-file", "origin": "class-file", "nt": U.to_nt(T), "cfg": base, "t": 0,
                        "classes": listed, "file_text": text})
            one = [cls[gi % 2]]
            out.append({"pid": pid, "kind": "class-case", "origin": "class-case", "nt": U.to_nt(T), "cfg": base, "t": (0, 0.5)[gi % 2],
                        "classes": one})
            out.append({"pid": pid, "kind": "class-case", "origin": "class-case", "nt": U.to_nt(T), "cfg": base, "t": 0,
                        "classes": one, "file_text": _spell(one[0], "bracketed") + "\n"})
    if pid == "C12":
        for gi in range(n_of(10)):                     # ex:link held by every <A> node: some via one <U> value, some via two plain IRIs
            nu = 3
            Un = [M.IRI(G.EX + "u%d" % i) for i in range(nu)]
            n_ref, n_iri = (3, 2) if gi % 2 == 0 else (rng.randint(2, 4), rng.randint(1, 3))
            An = [M.IRI(G.EX + "a%d" % i) for i in range(n_ref + n_iri)]
            T = []
            for i, y in enumerate(Un):
                T.append(M.Triple(y, G.EX + "only%d" % i, M.Lit("v")))
            for i, x in enumerate(An):
                T.append(M.Triple(x, G.EX + "name", M.Lit("n")))
                if i < n_ref:
                    T.append(M.Triple(x, G.EX + "link", Un[i % nu]))
                else:
                    T += [M.Triple(x, G.EX + "link", M.IRI(G.OTHER + "p%d_%d" % (i, j))) for j in range(2)]
            rng.shuffle(T)
            items = [{"sel": {"form": "node", "node": x.iri}, "label": U.ALT_SHAPES_NS + "A"} for x in An] + \
                    [{"sel": {"form": "node", "node": y.iri}, "label": U.ALT_SHAPES_NS + "U"} for y in Un]
            out.append({"pid": pid, "origin": "link-through-emptied-label", "nt": U.to_nt(T), "items": items, "cfgs": [{}],
                        "thresholds": "grid" if gi % 2 else [0, 0.3, 0.4, 0.5, 0.6, 0.7, 1]})
    if pid == "C13":
        for gi in range(n_of(8)):                      # blank-node values with several shapes among them plus untyped values
            T = U.rand_graph(rng, n_nodes=rng.randint(4, 7), n_triples=rng.randint(8, 18), n_classes=3, n_props=2, p_bnode=0.6,
                             p_typed=0.8, max_types=2, p_literal=0.1, p_link_typed=0.7)
            out.append({"pid": pid, "origin": "or-with-bnodes", "nt": U.to_nt(T),
                        "base": _merge(_mode_cfg(("all", "AB")[gi % 2]), _switch_combo(rng, 0.2) if gi % 3 == 0 else {}),
                        "t": (0, 0.5)[gi % 2], "pairs": [["disable_or_statements", False, True]]})
    if pid == "C12":
        for gi in range(n_of(8)):                      # label A whose ex:ref values are all instances of a label B that empties
            na, nb = rng.randint(1, 3), rng.randint(2, 4)
            A = [M.IRI(G.EX + "a%d" % i) for i in range(na)]
            B = [M.IRI(G.EX + "b%d" % i) for i in range(nb)]
            T = []
            for x in A:
                T.append(M.Triple(x, G.EX + "name", M.Lit("n")))
                for y in rng.sample(B, rng.randint(1, min(2, nb))):
                    T.append(M.Triple(x, G.EX + "ref", y))
            for i, y in enumerate(B):                  # the B nodes share no feature: every feature at 1/nb
                T.append(M.Triple(y, G.EX + "only%d" % i, rng.choice([M.Lit("v"), M.Lit("1", dt=M.XSD_INTEGER), M.IRI(G.OTHER + "u%d" % i)])))
            if gi % 3 == 0:
                T.append(M.Triple(B[0], G.EX + "back", A[0]))
            T = U.dedup(T)
            rng.shuffle(T)
            items = [{"sel": {"form": "node", "node": x.iri}, "label": U.ALT_SHAPES_NS + "A"} for x in A] + \
                    [{"sel": {"form": "node", "node": y.iri}, "label": U.ALT_SHAPES_NS + "B"} for y in B]
            out.append({"pid": pid, "origin": "emptied-shape", "nt": U.to_nt(T), "items": items,
                        "cfgs": [{}, {"inverse_paths": True}] if gi % 2 else [{}], "thresholds": "grid"})
    if pid == "C13":
        for gi in range(n_of(8)):                      # a declared namespace that is a proper prefix of the shapes namespace
            T = U.rand_graph(rng, n_nodes=rng.randint(3, 6), n_triples=rng.randint(5, 12), n_classes=2, n_props=2, p_bnode=0.0)
            full = dict(G.NAMESPACES)
            with_weso = collections.OrderedDict([["http://weso.es/", "weso"]] + [[k, v] for k, v in full.items()])
            out.append({"pid": pid, "origin": "prefix-of-shapes-namespace", "nt": U.to_nt(T),
                        "base": _merge(_mode_cfg("all"), {"inverse_paths": True} if gi % 2 else {}), "t": (0, 0.5)[gi % 2],
                        "pairs": [["namespaces_dict", full, with_weso]]})
            nt_x = U.to_nt(T).replace("http://ex.org/", "http://example.org/")
            less = collections.OrderedDict([[M.XSD, "xsd"], [M.RDF, "rdf"], [G.OTHER, "o"]])
            more = collections.OrderedDict([["http://example.org/", "ex"]] + [[k, v] for k, v in less.items()])
            out.append({"pid": pid, "origin": "prefix-of-shapes-namespace", "nt": nt_x,
                        "base": _merge({"all_classes_mode": True, "shapes_namespace": "http://example.org/shapes#"}), "t": 0,
                        "pairs": [["namespaces_dict", less, more]]})
    if pid == "C09":
        for gi in range(n_of(10)):                     # detect_minimal_iri with a 'container' instance next to its members
            base = (G.EX + "catalog", G.OTHER.rstrip("#") + "/set", G.EX + "data/c")[gi % 3]
            members = [M.IRI(base)] + [M.IRI(base + "/d%d" % i) for i in range(1, rng.randint(2, 4))]
            T = [M.Triple(x, M.RDF_TYPE, M.IRI(G.CLASS_A)) for x in members]
            T += [M.Triple(x, G.PROP_P, M.Lit("x")) for x in members if rng.random() < 0.6]
            if gi % 2:
                T += [M.Triple(M.IRI(G.EX + "other"), M.RDF_TYPE, M.IRI(G.CLASS_B)), M.Triple(M.IRI(base + "/zz"), M.RDF_TYPE, M.IRI(G.CLASS_B))]
            rng.shuffle(T)
            variants = [U.to_nt(p_) for p_ in _permutations(T, rng, 8)][:40]
            out.append({"pid": pid, "origin": "minimal-iri", "nt": U.to_nt(T), "variants": variants,
                        "runs": [{"cfg": _merge(_mode_cfg("all"), {"detect_minimal_iri": True}), "t": 0}]})
    if pid == "C14":
        for gi in range(n_of(8)):                      # a target instance that is also the class of other nodes
            T = U.rand_graph(rng, n_nodes=rng.randint(3, 6), n_triples=rng.randint(4, 12), n_classes=2, n_props=2, p_bnode=0.0)
            T.append(M.Triple(M.IRI(G.CLASS_A), M.RDF_TYPE, M.IRI(G.EX + "Meta")))
            if gi % 2:
                T.append(M.Triple(M.IRI(G.CLASS_B), M.RDF_TYPE, M.IRI(G.EX + "Meta")))
            if gi % 3 == 0:
                T.append(M.Triple(M.IRI(G.CLASS_A), G.EX + "p0", M.Lit("x")))
            T = U.dedup(T)
            rng.shuffle(T)
            for cfg in ({"all_classes_mode": True}, {"target_classes": [G.EX + "Meta"]}):
                out.append({"pid": pid, "kind": "meta", "origin": "class-as-instance", "nt": U.to_nt(T), "cfg": cfg, "t": (0, 0.5)[gi % 2],
                            "relaxed": False})
    if pid == "C14":
        for gi in range(n_of(5)):                      # shape map + inverse paths + thresholds that empty a shape
            T = U.rand_graph(rng, n_nodes=rng.randint(4, 7), n_triples=rng.randint(6, 16), n_classes=2, n_props=rng.randint(2, 3),
                             p_bnode=0.0, p_typed=0.7)
            typed = U.dedup([s.iri for (s, p, o) in T if p == M.RDF_TYPE])
            others = U.dedup([x.iri for (s, p, o) in T for x in (s, o) if isinstance(x, M.IRI) and x.iri not in typed
                              and not x.iri.startswith(G.EX + "A") and not x.iri.startswith(G.EX + "B")]) or typed
            classes = U.dedup([o.iri for (s, p, o) in T if p == M.RDF_TYPE])
            items = [{"sel": {"form": "node", "node": rng.choice(typed)}, "label": U.ALT_SHAPES_NS + "L1"},
                     {"sel": {"form": "node", "node": rng.choice(others)}, "label": U.ALT_SHAPES_NS + "L1"},
                     {"sel": {"form": "focus-type", "cls": rng.choice(classes)}, "label": U.ALT_SHAPES_NS + "L2"}]
            cfg = _merge({"all_classes_mode": True} if gi % 2 else {}, _switch_combo(rng, 0.2) if gi % 3 == 0 else {})
            if gi == 0:
                (T, items), cfg = _gone_shape_fixture(), {}
            for t in (1, 0.6):
                out.append({"pid": pid, "origin": "shapemap-gone-shapes", "nt": U.to_nt(T), "cfg": cfg, "t": t, "relaxed": False, "items": items})
    if pid == "C16":
        for gi in range(n_of(8)):                      # the ignored namespaces contain the instantiation property
            custom = gi % 2 == 1
            T = U.rand_graph(rng, n_nodes=rng.randint(3, 7), n_triples=rng.randint(5, 16), n_classes=rng.randint(2, 3), n_props=3,
                             p_bnode=0.0, pi=U.PI_ISA if custom else M.RDF_TYPE, extra_props=(M.RDF_TYPE,) if custom else ())
            ns = rng.choice([[G.EX], [G.EX, G.OTHER]]) if custom else rng.choice([[M.RDF], [M.RDF, G.EX], [G.OTHER, M.RDF]])
            cfg = _merge(_mode_cfg(("all", "AB")[gi % 4 // 2]), {"instantiation_property": U.PI_ISA} if custom else {},
                         {"inverse_paths": True} if gi % 3 == 0 else {})
            out.append({"pid": pid, "kind": "ignore-pi", "origin": "ignore-pi", "nt": U.to_nt(T), "cfg": cfg, "t": (0, 0.5)[gi % 2], "ns": ns})
        for gi in range(n_of(10)):                     # several files listed in non-lexicographic order + cap
            T = U.rand_graph(rng, n_nodes=rng.randint(4, 8), n_triples=rng.randint(8, 20), n_classes=2, n_props=3, p_bnode=0.0, p_typed=0.9)
            lines = U.to_nt(T).splitlines(True)
            names = (["part_b.nt", "part_a.nt"], ["z.nt", "m.nt", "a.nt"], ["g2.nt", "g10.nt", "g1.nt"])[gi % 3]
            cuts = sorted(rng.sample(range(1, len(lines)), len(names) - 1))
            chunks = [lines[i:j] for i, j in zip([0] + cuts, cuts + [len(lines)])]
            files = [[n, "".join(ch)] for n, ch in zip(names, chunks)]
            maxN = max(list(U.spec_for(T, {"all_classes_mode": True}).N.values()) or [1])
            cfg = _merge(_mode_cfg(("all", "AB")[gi % 2]), {"instances_cap": max(1, maxN // 2)}, {"inverse_paths": True} if gi % 4 == 0 else {})
            out.append({"pid": pid, "kind": "files", "origin": "files", "nt": "".join(lines), "files": files, "cfg": cfg, "t": 0})
    if pid in ("C02", "C12"):
        for gi in range(n_of(10)):                     # multi-typed instances whose extra class is not shared by all, direct strategy
            n = rng.randint(3, 6)
            nodes = [M.IRI(G.EX + "m%d" % i) for i in range(n)]
            T = [M.Triple(x, M.RDF_TYPE, M.IRI(G.CLASS_A)) for x in nodes]
            T += [M.Triple(x, M.RDF_TYPE, M.IRI(G.CLASS_B)) for x in nodes[:rng.randint(1, n - 1)]]
            T += [M.Triple(x, G.PROP_P, M.Lit("x")) for x in nodes]
            T += [M.Triple(x, G.PROP_Q, rng.choice(nodes)) for x in nodes[:rng.randint(1, n)]]
            rng.shuffle(T)
            out.append({"pid": pid, "origin": "multi-typed-direct", "nt": U.to_nt(U.dedup(T)),
                        "cfgs": [_mode_cfg("A"), _mode_cfg("all"), _mode_cfg("AB")], "thresholds": "grid"})
    return out


RULES = {
    "C01": "one evaluation = one fresh Shaper run on (graph, target mode in {all_classes, targets}, inverse on/off, threshold in {0,.5,1}, "
           "sampled switch combination); every printed instance count and every figure on lines/comments is compared with N(C)/prof of "
           "lib/graphspec; NONLITERAL-merged figures skipped; non-trivial = output has a shape with a constraint",
    "C02": "per (graph, config) every threshold of {0,1/3,.5,.51,2/3,1} U {k/N(C)}: printed key set == keys of spec.cand(C,t) (float "
           "semantics n/N >= t), no duplicate key, printed shapes subset of classes with instances and every class with a non-reference "
           "candidate printed; plus a fixed float-boundary family (one class, N in {25,41,50,100}, k instances with the "
           "property, (k/N)*N != k in doubles): key present iff float(k)/float(N) >= t at t = k/N and its two neighbouring doubles",
    "C12": "per (graph, config) all ordered pairs of the threshold grid with fresh Shapers: keys/shapes at t2 subset of those at t1, figures "
           "of facts present at both identical (NONLITERAL figures and, with disable_exact_cardinality, '+' lines excluded)",
    "C09": "per (graph, config, t): permuted (exhaustive <= 5 triples, else >= 6 sampled) and blank-node-renamed documents; evidence set "
           "(instance counts, keys, (dir,p,kind,card,count) facts) equal; chosen (value, cardinality) equal on keys without a frequency tie "
           "between shape references (or exact cardinalities when keep_less_specific is off)",
    "C13": "pairs of runs differing in one option (disable_comments, decimals -1/0/2, instances_report_mode, shapes_namespace, "
           "namespaces_dict minus one prefix; all_instances_are_compliant_mode, allow_opt_cardinality, disable_exact_cardinality): structure "
           "equal / only the documented cardinality rewrites; decimals: printed ratio == exact 100n/N rounded half-even or half-up",
    "C14": "(G inverse off) vs (G inverse on): shapes, counts, direct constraints with figures and comments identical; inverse constraints "
           "of G == non-literal direct constraints of reverse(G) (rdf:type and literal triples unreversed), strict on IRI-only graphs, "
           "IRI/BNode figures only on graphs with blank nodes; a third of the graphs carry literals whose text is the IRI / _:label of a "
           "node (must never count as a link)",
    "C16": "instances_cap=k for k in 1..maxN+1: figures and keys equal graphspec.compute(cap=k), cap >= every class == no cap; "
           "namespaces_to_ignore=ns: output equals the output on the graph without predicates that are direct children of ns "
           "(rdf:type kept), incl. deeper predicates and nested namespace lists",
    "C10": "target_classes as full/<bracketed>/prefixed IRIs give equal outputs that match the oracle; all_classes_mode: shapes == classes "
           "with instances; custom instantiation property: oracle with pi=ex:isa (rdf:type ordinary); shape maps (node, prefixed node, "
           "{FOCUS a C}, {FOCUS p _}, {_ p FOCUS}, SPARQL): instance count == number of distinct nodes denoted on the abstract triples; "
           "figures and keys checked against an oracle over the selected node sets when the counts agree; all_classes_mode combined "
           "with a shape map (rdf:type and custom instantiation property): label shapes have exactly the selector's nodes AND every "
           "class has its shape with N(C), figures/keys against an oracle in which a node carries labels and classes",
}


EXTRA_RULES = {
    "C01": "; input through rdflib (own Turtle rendering / rdflib_graph=) on graphs with same-text-different-kind objects; N-Triples "
           "texts with repeated lines (selftest only); disjunctions (disable_or_statements=False, with/without allow_redundant_or, inverse "
           "off) incl. their comments and a second unrelated graph in the same process; NONLITERAL-merged figures checked exactly when "
           "no instance mixes IRI and blank-node values and each kind has one uniform cardinality",
    "C02": "; target classes spelled full/<bracketed>/prefixed with remove_empty_shapes=False and an instance-less class (exactly one "
           "shape per requested class); multi-typed instances with a partially shared extra class under the direct strategy; shape maps "
           "giving one label to overlapping node sets (count = union); one Shaper walked through thresholds 0,.5,1/3,0,1,2/3,0,.51,1,0 "
           "against fresh Shapers",
    "C12": "; at t=0 and t=1 the printed keys equal the oracle's (nothing omitted / only features of all instances)",
    "C09": "; blank-node relabelings use labels with '.', '-' and digits, and labels that differ only in leading / trailing underscores",
    "C10": "; target-spelling family as in C02; two Shapers in one process with one prefix bound to two namespaces; selectors with "
           "prefixes that are initial segments of one another (wd/wdt, rdf/rdfs, empty prefix first); same-label items in fixed and "
           "JSON shape maps; two Shapers with the same selector text on different graphs",
    "C13": "; namespaces that do not end in '/' or '#' (OBO style) compared after expansion with each output's own PREFIX table; decimals 0/1/2 in mixed mode: number of printed decimal "
           "places (key decimals-format) separated from the rounding value (key decimals-rounding)",
    "C14": "; shape maps selecting heterogeneous nodes at thresholds that empty a shape (relation on the surviving shapes, constraints "
           "referring to a vanished shape excluded); ShExC '^' vs SHACL sh:inversePath per (shape, property) on graphs where one "
           "property arrives from IRI and blank-node subjects; instances without outgoing features (rdf namespace ignored / node "
           "selectors that are never subjects) against the oracle of incoming features",
    "C16": "; ignored namespaces that contain the instantiation property (membership from the full graph); graph_list_of_files_input "
           "in non-lexicographic order with instances_cap == the concatenated document",
}


# ================================================================================================
# driver
# ================================================================================================
def _init_worker():
    U.env()


def _run_case(case, R):
    if "history_call" in case:                     # minimal reproducer of a call-history finding
        hc = case["history_call"]
        R.history = True
        try:
            R.run(hc["nt"], hc["cfg"], hc["t"])
        except U.Skipped:
            pass
        return
    CHECKS[case["pid"]](case, R)


def _work(case):
    R = U.Runner(pid=case["pid"], history=bool(case.get("history")))
    t0 = time.time()
    try:
        _run_case(case, R)
    except Exception as exc:                       # a bug of the monitor itself must be visible
        import traceback
        return {"evaluations": R.evaluations, "crashes": dict(R.crashes), "nontrivial": sorted(R.nontrivial),
                "findings": R.findings, "error": "%s: %s\n%s" % (type(exc).__name__, exc, traceback.format_exc()[-1200:]),
                "secs": time.time() - t0}
    res = R.result()
    # keep inter-process traffic small: at most 2 findings per key and case
    seen = collections.Counter()
    kept = []
    for f in res["findings"]:
        seen[f["key"]] += 1
        if seen[f["key"]] <= 2:
            kept.append(f)
    res["findings"] = kept
    res["secs"] = time.time() - t0
    return res


def _strip_case(case):
    return dict((k, v) for k, v in case.items() if k != "origin")


def run(pid, tier="quick", seed=0):
    if pid not in CHECKS:
        raise ValueError("pipeline monitor has no check for %r" % pid)
    if tier not in SIZES:
        tier = "quick"
    t0 = time.time()
    cases = gen_cases(pid, tier, int(seed or 0))
    ctx = multiprocessing.get_context("fork")
    evaluations, crashes, nontrivial, findings, errors = 0, collections.Counter(), set(), [], []
    pool = ctx.Pool(WORKERS, initializer=_init_worker)
    try:
        for res in pool.imap_unordered(_work, cases, chunksize=4):
            evaluations += res["evaluations"]
            crashes.update(res["crashes"])
            nontrivial.update(res["nontrivial"])
            findings.extend(res["findings"])
            if res.get("error"):
                errors.append(res["error"])
    finally:
        pool.close()
        pool.join()
    # deterministic selection: per key the smallest reproducer
    findings.sort(key=lambda f: (f["key"], len(json.dumps(f["input"]["case"], sort_keys=True, default=str)),
                                 json.dumps(f["input"], sort_keys=True, default=str)))
    by_key = collections.OrderedDict()
    for f in findings:
        by_key.setdefault(f["key"], f)
    out_findings = []
    for key, f in list(by_key.items())[:MAX_FINDINGS]:
        f = dict(f)
        f["input"] = U.jsonable(dict(f["input"], case=_strip_case(f["input"]["case"])))
        f["occurrences"] = sum(1 for g in findings if g["key"] == key)
        out_findings.append(f)
    samples = []
    for c in cases[:: max(1, len(cases) // 3)][:3]:
        s = _strip_case(c)
        for k in ("runs", "variants", "cfgs", "pairs"):
            if k in s and isinstance(s[k], list) and len(s[k]) > 2:
                s[k] = s[k][:2] + ["... %d more" % (len(s[k]) - 2)]
        samples.append(U.jsonable(s))
    undecided = []
    if errors:
        undecided.append("pipeline monitor %s: %d case(s) raised inside the monitor, first: %s" % (pid, len(errors), errors[0]))
    return {"name": "pipeline-monitor", "label": "bounded", "property": pid, "tier": tier, "seed": seed,
            "evaluations": evaluations, "distinct_nontrivial": len(nontrivial), "cases": len(cases),
            "rule": RULES[pid] + EXTRA_RULES.get(pid, "") + "; every 33rd case re-uses ONE Shaper (same call twice, another threshold and "
                    "back, SHACL and back, profile_graph before/after): every ShExC text must equal the first one and the oracle is "
                    "applied to the last",
            "bounds": "%d enumerated graphs (3 nodes, 2 classes, <= 3 data triples, 2 properties) + %d seeded random graphs (3-%d nodes, "
                      "<= %d data triples, 2-3 classes, no language-tagged literals); seed %s; wall-clock guard %d s per run"
                      % (SIZES[tier][pid][0], SIZES[tier][pid][1], 12 if tier == "thorough" else 8, 40 if tier == "thorough" else 20,
                         seed, U.TIMEOUT),
            "samples": samples, "skipped_crashes": dict(crashes), "findings": out_findings, "undecided": undecided,
            "distinct_finding_keys": len(by_key), "wall_s": round(time.time() - t0, 2)}


def replay(doc):
    """doc["input"] as stored by run(); ok=False iff the violation reproduces on the current tree."""
    inp = doc.get("input") or {}
    case = inp.get("case")
    if not case or case.get("pid") not in CHECKS:
        return True, "replay: document carries no pipeline case"
    U.env()
    R = U.Runner(pid=case["pid"], history=bool(case.get("history")))
    _run_case(case, R)
    key = doc.get("key")
    same = [f for f in R.findings if f["key"] == key]
    if same:
        return False, "reproduced %s: %s" % (key, same[0]["what"])
    if R.findings:
        return False, "reproduced with a different key %s (recorded %s): %s" % (R.findings[0]["key"], key, R.findings[0]["what"])
    if R.crashes:
        return True, "not reproduced: sheXer did not complete (%s)" % dict(R.crashes)
    return True, "not reproduced on this tree (%d sheXer runs, no disagreement)" % R.evaluations


# ================================================================================================
# selftest: every check must be able to fail
# ================================================================================================
def _mutants():
    """[(pid, description, patch() -> undo())] -- in-process monkey patches of sheXer."""
    U.env()
    import shexer.core.shexing.strategy.direct_shexing_strategy as dss
    import shexer.core.shexing.strategy.direct_and_inverse_shexing_strategy as diss
    import shexer.core.shexing.strategy.abstract_shexing_strategy as ass
    import shexer.core.profiling.strategy.abstract_feature_direction_strategy as afds
    import shexer.core.profiling.strategy.include_reverse_features_strategy as irfs
    import shexer.core.profiling.class_profiler as cp
    import shexer.io.graph.yielder.filter.filter_namespaces_triple_yielder as fnty
    import shexer.core.instances.annotators.strategy_mode.target_classes_mode as tcm
    import shexer.core.instances.annotators.strategy_mode.instance_cap_mode as icm
    from shexer.model.statement import Statement
    from shexer.model.shape import Shape
    from shexer.utils.shapes import build_shapes_name_for_class_uri

    def setattr_patch(obj, name, new):
        def patch():
            old = getattr(obj, name)
            setattr(obj, name, new)
            return lambda: setattr(obj, name, old)
        return patch

    def yield_base(accept):
        def f(self, acceptance_threshold):
            for ck in self._class_profile_dict:
                name = build_shapes_name_for_class_uri(class_uri=ck, shapes_namespace=self._shapes_namespace)
                n = float(self._class_counts_dict[ck])
                sts = []
                for pk in self._class_profile_dict[ck]:
                    for tk in self._class_profile_dict[ck][pk]:
                        for card in self._class_profile_dict[ck][pk][tk]:
                            occ = self._class_profile_dict[ck][pk][tk][card]
                            fr = self._compute_frequency(n, occ)
                            if accept(fr, acceptance_threshold, occ, n):
                                sts.append(Statement(st_property=pk, st_type=tk, cardinality=card, probability=fr, n_occurences=occ))
                yield Shape(name=name, class_uri=ck, statements=sts, n_instances=int(n))
        return f

    orig_subj = afds.AbstractFeatureDirectionStrategy._annotate_target_subject

    def subj_plus_two(self, a_triple):
        orig_subj(self, a_triple)
        orig_subj(self, a_triple)

    orig_obj = irfs.IncludeReverseFeaturesStrategy._annotate_target_object

    def obj_twice(self, a_triple):
        orig_obj(self, a_triple)
        orig_obj(self, a_triple)

    def build_skip_first(self):
        first = True
        for a_triple in self._yield_relevant_triples():
            if first and a_triple[1].iri.endswith("p0") or first and a_triple[1].iri.endswith("/p"):
                first = False
                continue
            self._relevant_triples += 1
            self._annotate_feature_of_target_instance(a_triple)

    def remove_comments_and_more(self, valid_statements):
        for st in valid_statements:
            st.remove_comments()
        if len(valid_statements) > 1:
            valid_statements.pop()

    def belongs_prefix_only(str_prop, namespaces):
        return any(str_prop.startswith(ns) for ns in namespaces)

    def cap_off_by_one(self, a_triple):
        if a_triple[1] != self._instantiation_property:
            return True
        if a_triple[2].iri not in self._class_counts:
            return True
        return self._class_counts[a_triple[2].iri] <= self._instance_limit

    def relevant_any_class(self, a_triple):
        return a_triple[1] == self._instantiation_property

    def relax_all(self, statements):
        for st in statements:
            self._change_statement_cardinality_to_all_compliant(st)

    def freq_truncated(self, statement):
        v = statement.probability * 100
        f = 10 ** self._decimals
        return ("{:.%df} %%" % self._decimals).format(int(v * f) / float(f))

    def direct_statements_strict(self, acceptance_threshold, class_key, number_of_instances):
        out = []
        prof = self._class_profile_dict[class_key][0]
        for pk in prof:
            for tk in prof[pk]:
                for card in prof[pk][tk]:
                    occ = prof[pk][tk][card]
                    fr = self._compute_frequency(number_of_instances, occ)
                    if fr > acceptance_threshold or acceptance_threshold == 0:
                        out.append(Statement(st_property=pk, st_type=tk, cardinality=card, probability=fr, is_inverse=False,
                                             n_occurences=occ))
        return out

    import shexer.io.shex.formater.statement_serializers.frequency_strategy.ratio_freq_serializer as rfs

    def patch_decimals():
        old_init = rfs.RatioFreqSerializer.__init__

        def init(self, decimals=-1):
            old_init(self, decimals)
            if decimals > 0:
                self.serialize_frequency = lambda st: freq_truncated(self, st)
        rfs.RatioFreqSerializer.__init__ = init
        return lambda: setattr(rfs.RatioFreqSerializer, "__init__", old_init)

    def min_occ_builder(pos, inverse):
        def f(self, acceptance_threshold, class_key, number_of_instances):
            out = []
            prof = self._class_profile_dict[class_key][pos]
            min_occurences = acceptance_threshold * number_of_instances
            for pk in prof:
                for tk in prof[pk]:
                    for card in prof[pk][tk]:
                        occ = prof[pk][tk][card]
                        if occ >= min_occurences:
                            out.append(Statement(st_property=pk, st_type=tk, cardinality=card, n_occurences=occ, is_inverse=inverse,
                                                 probability=self._compute_frequency(number_of_instances, occ)))
            return out
        return f

    def patch_min_occurences():
        undo = [setattr_patch(dss.DirectShexingStrategy, "_yield_base_shapes_direction_aware",
                              yield_base(lambda fr, t, occ, n: occ >= t * n))(),
                setattr_patch(diss.DirectAndInverseShexingStrategy, "_build_base_direct_statements", min_occ_builder(0, False))(),
                setattr_patch(diss.DirectAndInverseShexingStrategy, "_build_base_inverse_statements", min_occ_builder(1, True))()]
        return lambda: [u() for u in undo]

    import shexer.core.instances.mix.mixed_instance_tracker as mit

    def integrate_overwrite(self, reference_dict, new_dict, new_tracker):
        original_classes = self._find_all_classes_in_dict(reference_dict)
        for an_instance, classes in new_dict.items():
            reference_dict[an_instance] = [self._get_label_for_ambiguous_class(a_class=c, tracker=new_tracker)
                                           if c in original_classes else c for c in classes]

    def relevant_by_str(self, an_instance):
        return str(an_instance) in self._i_dict

    def target_object_by_str(self, a_triple):
        str_obj = str(a_triple[2])
        str_prop = a_triple[1].iri
        type_subj = self._decide_type_elem(a_triple[0], str_prop)
        subj_shapes = [] if type_subj != "IRI" else self._decide_shapes_elem(a_triple[0].iri)
        self._introduce_needed_elements_in_shape_instances_dict_for_obj(str_obj=str_obj, str_prop=str_prop,
                                                                        type_subj=type_subj, subj_shapes=subj_shapes)
        self._i_dict[str_obj][2][str_prop][type_subj] += 1
        for a_shape in subj_shapes:
            self._i_dict[str_obj][2][str_prop][a_shape] += 1

    def patch_literal_links():
        undo = [setattr_patch(afds.AbstractFeatureDirectionStrategy, "_is_relevant_instance", relevant_by_str)(),
                setattr_patch(irfs.IncludeReverseFeaturesStrategy, "_annotate_target_object", target_object_by_str)()]
        return lambda: [u() for u in undo]

    # ---- second round of seeded changes ---------------------------------------------------------
    import re as _re
    import shexer.shaper as shaper_mod
    import shexer.io.shex.formater.shex_serializer as shex_ser
    import shexer.io.graph.yielder.rdflib_triple_yielder as rty
    import shexer.io.graph.yielder.nt_triples_yielder as nty
    import shexer.utils.factories.class_profiler_factory as cpf
    import shexer.utils.factories.instance_tracker_factory as itf
    import shexer.utils.factories.triple_yielders_factory as tyf
    import shexer.io.shape_map.node_selector.node_selector_parser as nsp
    import shexer.io.shex.formater.statement_serializers.base_statement_serializer as bss
    import shexer.model.shape as shape_mod
    from shexer.io.profile.formater.abstract_profile_serializer import AbstractProfileSerializer
    from shexer.model.node_selector import NodeSelectorNoSparql
    from shexer.utils.uri import add_corners
    RDF_TYPE_STR = "http://www.w3.org/1999/02/22-rdf-syntax-ns#type"

    orig_rules = shex_ser.ShexSerializer._serialize_shape_rules

    def rules_popping(self, a_shape):
        orig_rules(self, a_shape)
        if a_shape.n_statements > 1:
            a_shape.statements.pop()

    def profile_graph_unguarded(self, string_output=False, output_file=None, verbose=False):
        self._check_correct_output_params(string_output, output_file)
        if self._target_classes_dict is None:
            self._launch_instance_tracker(verbose=verbose)
        self._launch_class_profiler(verbose=verbose)
        if string_output:
            return AbstractProfileSerializer(self._profile).get_string_representation()
        return AbstractProfileSerializer(self._profile).write_profile_to_file(target_file=output_file)

    orig_token = rty.RdflibTripleYielder._turn_rdflib_token_into_model_obj
    memo_tokens = {}

    def token_memo(self, rdflib_obj):
        k = str(rdflib_obj)
        if k not in memo_tokens:
            memo_tokens[k] = orig_token(self, rdflib_obj)
        return memo_tokens[k]

    def init_direct_fromkeys(self):
        for an_instance, class_list in self._i_dict.items():
            for a_class in dict.fromkeys(class_list):
                if a_class not in self._c_shapes_dict:
                    self._c_shapes_dict[a_class] = {}
                    self._c_counts[a_class] = 0
                self._c_counts[a_class] += 1

    def bnode_token_regex(self, target_str, first_index):
        m = _re.match(r"_:[\w\-]+", target_str[first_index:])
        return first_index + m.end() - 1

    orig_tune = cpf.tune_target_classes_if_needed
    memo_tune = {}

    def tune_memo(list_target_classes, prefix_namespaces_dict):
        k = tuple(list_target_classes)
        if k not in memo_tune:
            memo_tune[k] = orig_tune(list_target_classes=list_target_classes, prefix_namespaces_dict=prefix_namespaces_dict)
        return memo_tune[k]

    def patch_tune_memo():
        undo = [setattr_patch(m, "tune_target_classes_if_needed", tune_memo)() for m in (cpf, itf, tyf)]
        return lambda: [u() for u in undo]

    def prefixed_node_startswith(self, raw_selector):
        for a_prefix in self._prefix_namespace_dict:
            if raw_selector.startswith(a_prefix):
                return NodeSelectorNoSparql(raw_selector=raw_selector, sgraph=self._sgraph,
                                            target_node=self._unprefix_uri(prefix=a_prefix, uri=raw_selector))

    def uri_focus_startswith(self, token):
        if token == "a":
            return add_corners(RDF_TYPE_STR)
        elif token.endswith(">"):
            if token.startswith("<"):
                return token
        else:
            for a_prefix in self._prefix_namespace_dict:
                if token.startswith(a_prefix):
                    return add_corners(self._unprefix_uri(prefix=a_prefix, uri=token))
        raise ValueError("URI not well formed or with an unknown prefix: " + token)

    def patch_selector_prefix():
        undo = [setattr_patch(nsp.NodeSelectorParser, "_parse_prefixed_node_selector", prefixed_node_startswith)(),
                setattr_patch(nsp.NodeSelectorParser, "_parse_uri_focus_expression", uri_focus_startswith)()]
        return lambda: [u() for u in undo]

    def prefixize_last_segment(uri, namespaces_dict):
        best_match = None
        for a_namespace in namespaces_dict:
            if uri.startswith(a_namespace):
                if "/" not in uri[len(a_namespace):] and "#" not in uri[len(a_namespace):]:
                    best_match = a_namespace
                    break
        return None if best_match is None else namespaces_dict[best_match] + ":" + uri[max(uri.rfind("/"), uri.rfind("#")) + 1:]

    def patch_direct_setter():
        old_prop = shape_mod.Shape.__dict__["direct_statements"]

        def setter(self, statements):
            self._statements = [a_statement for a_statement in statements]
        shape_mod.Shape.direct_statements = property(old_prop.fget, setter)
        return lambda: setattr(shape_mod.Shape, "direct_statements", old_prop)

    orig_build_tracker = shaper_mod.Shaper._build_instance_tracker

    def build_tracker_with_ignored_namespaces(self):
        orig_fn = shaper_mod.get_instance_tracker

        def with_ns(**kw):
            kw["namespaces_to_ignore"] = self._namespaces_to_ignore
            return orig_fn(**kw)
        shaper_mod.get_instance_tracker = with_ns
        try:
            return orig_build_tracker(self)
        finally:
            shaper_mod.get_instance_tracker = orig_fn

    orig_gty = tyf.get_triple_yielder

    def gty_sorted(**kw):
        if kw.get("list_of_source_files") is not None:
            kw["list_of_source_files"] = sorted(set(kw["list_of_source_files"]))
        return orig_gty(**kw)

    def patch_sorted_files():
        undo = [setattr_patch(m, "get_triple_yielder", gty_sorted)() for m in (cpf, itf, tyf)]
        return lambda: [u() for u in undo]

    def yield_base_keep_rdf_type(self, acceptance_threshold):
        for ck in self._class_profile_dict:
            name = build_shapes_name_for_class_uri(class_uri=ck, shapes_namespace=self._shapes_namespace)
            n = float(self._class_counts_dict[ck])
            sts = []
            for pk in self._class_profile_dict[ck]:
                for tk in self._class_profile_dict[ck][pk]:
                    for card in self._class_profile_dict[ck][pk][tk]:
                        occ = self._class_profile_dict[ck][pk][tk][card]
                        fr = self._compute_frequency(n, occ)
                        if fr >= acceptance_threshold or pk == RDF_TYPE_STR:
                            sts.append(Statement(st_property=pk, st_type=tk, cardinality=card, probability=fr, n_occurences=occ))
            yield Shape(name=name, class_uri=ck, statements=sts, n_instances=int(n))

    # ---- third round ------------------------------------------------------------------------------
    import shexer.model.fixed_prop_choice_statement as fpcs
    import shexer.core.instances.mappings.shape_map_instance_tracker as smit
    import shexer.core.shexing.class_shexer as cshex
    import shexer.io.shape_map.shape_map_parser as smp
    import shexer.model.node_selector as nsel
    import shexer.io.shex.formater.statement_serializers.frequency_strategy.mixed_frequency_strategy as mfs
    from shexer.model.shape_map import ShapeMap, ShapeMapItem
    from shexer.io.json.json_loader import load_string_json

    def patch_shared_or_comments():
        shared = []
        old_init = fpcs.FixedPropChoiceStatement.__init__

        def init(self, st_property, st_types, cardinality, n_occurences, probability, comments=None, serializer_object=None,
                 is_inverse=False):
            old_init(self, st_property, st_types, cardinality, n_occurences, probability,
                     comments=shared if comments is None else comments, serializer_object=serializer_object, is_inverse=is_inverse)
        fpcs.FixedPropChoiceStatement.__init__ = init
        return lambda: setattr(fpcs.FixedPropChoiceStatement, "__init__", old_init)

    def most_general_max(self, a_card1, a_card2):
        if "+" in (a_card1, a_card2):
            return "+"
        return max(a_card1, a_card2) if a_card1 != a_card2 else a_card1

    def solve_targets_seen_per_item(self, an_item):
        seen = set()
        for a_node in an_item.node_selector.get_target_nodes():
            if a_node in seen:
                continue
            seen.add(a_node)
            if a_node not in self._instances_dict:
                self._instances_dict[a_node] = []
            self._instances_dict[a_node].append(an_item.shape_label)

    def remove_shapes_and_profile(self, shape_names_to_remove):
        new_shape_list = []
        for a_shape in self._shapes_list:
            if a_shape.name not in shape_names_to_remove:
                new_shape_list.append(a_shape)
            else:
                self._class_profile_dict.pop(a_shape.class_uri, None)
        self._shapes_list = new_shape_list

    def json_one_selector_per_label(self, raw_content):
        by_label = {}
        for a_list_elem in load_string_json(raw_content):
            by_label[a_list_elem["shapeLabel"]] = a_list_elem["nodeSelector"]
        result = ShapeMap()
        for label, selector in by_label.items():
            result.add_item(ShapeMapItem(node_selector=self._node_selector_parser.parse_node_selector(selector),
                                         shape_label=self._label_parser.parse_shape_map_label(label)))
        return result

    memo_selector_answers = {}

    def sparql_targets_memo(self):
        k = self._sparql_query_selector
        if k not in memo_selector_answers:
            memo_selector_answers[k] = self._solve_target_nodes_at_endpoint()
        return memo_selector_answers[k]

    def patch_mixed_decimals():
        old_init = mfs.MixedFrequencyStrategy.__init__

        def init(self, decimals=-1):
            old_init(self, decimals or -1)
        mfs.MixedFrequencyStrategy.__init__ = init
        return lambda: setattr(mfs.MixedFrequencyStrategy, "__init__", old_init)

    def bnode_merging_without_inverse(self):
        if self.has_iri_constraint:
            if len(self._shape_constraints or []) == 1 and self._iri_constraint.n_occurences + self._bnode_constraint.n_occurences \
                    == self._shape_constraints[0].n_occurences:
                self._promote_to_dominant(self._shape_constraints[0])
            else:
                self._add_dominant(Statement(st_property=self._bnode_constraint.st_property, st_type="NONLITERAL",
                                             n_occurences=self._bnode_constraint.n_occurences + self._iri_constraint.n_occurences,
                                             probability=self._bnode_constraint.probability + self._iri_constraint.probability,
                                             cardinality=self._most_general_cardinality(self._bnode_constraint.cardinality,
                                                                                        self._iri_constraint.cardinality),
                                             serializer_object=self._statement_serializer_factory.get_base_serializer(
                                                 is_inverse=self._bnode_constraint.is_inverse)))
        elif len(self._shape_constraints or []) != 0 and self._shape_constraints[0].n_occurences == self._bnode_constraint.n_occurences:
            self._promote_to_dominant(self._shape_constraints[0])
        else:
            self._promote_to_dominant(self._bnode_constraint)

    def build_class_profile_skipping(self):
        for an_instance in self._instances_dict:
            if len(self._instances_dict[an_instance][1]) == 0:
                continue
            self._strategy.annotate_instance_features(an_instance)

    # ---- fourth round -----------------------------------------------------------------------------
    import shexer.utils.uri as uri_mod
    import shexer.utils.shapes as shapes_mod

    def literal_token_find_at(self, target_str, first_index):
        target_substring = target_str[first_index:]
        if uri_mod.there_is_arroba_after_last_quotes(target_substring):
            at = target_str.find("@", first_index)
            return target_str[at:].find(" ") - 1 + at
        return orig_literal_token(self, target_str, first_index)
    orig_literal_token = nty.NtTriplesYielder._look_for_last_index_of_literal_token

    def patch_inverse_setter():
        old_prop = shape_mod.Shape.__dict__["inverse_statements"]

        def setter(self, inverse_statements):
            self._statements = [a_statement for a_statement in self._statements if a_statement.is_inverse]
            for a_statement in inverse_statements:
                self._statements.append(a_statement)
        shape_mod.Shape.inverse_statements = property(old_prop.fget, setter)
        return lambda: setattr(shape_mod.Shape, "inverse_statements", old_prop)

    def shex_classes_clean_first(self, acceptance_threshold=0, verbose=False):
        self._build_shapes(acceptance_threshold)
        self._sort_shapes()
        self._clean_empty_shapes()
        self._set_valid_constraints_of_shapes()
        return self._shapes_list

    def prefixize_loose(target_uri, namespaces_prefix_dict, corners=True):
        best_match = None
        candidate_uri = uri_mod.remove_corners(target_uri) if corners else target_uri
        for a_namespace in namespaces_prefix_dict:
            if candidate_uri.startswith(a_namespace):
                local_name = candidate_uri[len(a_namespace):]
                if not ("/" in local_name and "#" in local_name):
                    best_match = a_namespace
                    break
        return target_uri if best_match is None else candidate_uri.replace(best_match, namespaces_prefix_dict[best_match] + ":")

    def patch_prefixize_loose():
        undo = [setattr_patch(m, "prefixize_uri_if_possible", prefixize_loose)() for m in (uri_mod, shapes_mod)]
        return lambda: [u() for u in undo]

    orig_serialize_statement = bss.BaseStatementSerializer.serialize_statement_with_indent_level

    def serialize_without_caret_for_pi(self, a_statement, is_last_statement_of_shape, namespaces_dict):
        out = orig_serialize_statement(self, a_statement, is_last_statement_of_shape, namespaces_dict)
        if a_statement.st_property == self._instantiation_property_str and out and out[0][0].startswith("^"):
            out[0] = (out[0][0][1:].lstrip(), out[0][1])
        return out

    def lcp_returns_uri2(uri1, uri2):
        if len(uri1) == 0 or len(uri2) == 0:
            return ""
        for a, b in zip(uri1, uri2):
            if a != b:
                return uri1[:[x == y for x, y in zip(uri1, uri2)].index(False)]
        return uri2

    # ---- fifth round ------------------------------------------------------------------------------
    import shexer.model.IRI as iri_mod
    from shexer.model.fixed_prop_choice_statement import FixedPropChoiceStatement

    def unspaced_token_space_only(self, target_str, first_index):
        index = target_str.find(" ", first_index)
        if index == -1:
            index = len(target_str)
        index -= 1
        if index == len(target_str) - 1 and target_str[index] == "." and index > first_index:
            index -= 1
        return index

    def read_classes_break_on_blank(file_target_classes, prefix_namespaces_dict):
        result = []
        with open(file_target_classes, "r") as in_stream:
            for a_line in in_stream:
                candidate = a_line.strip()
                if candidate == "":
                    break
                result.append(candidate)
        return tyf.tune_target_classes_if_needed(list_target_classes=result, prefix_namespaces_dict=prefix_namespaces_dict)

    def patch_read_classes():
        undo = [setattr_patch(m, "read_target_classes_from_file", read_classes_break_on_blank)() for m in (tyf, itf)
                if hasattr(m, "read_target_classes_from_file")]
        return lambda: [u() for u in undo]

    def iri_eq_lower(self, other):
        if type(other) != type(self):
            return False
        return str(self).lower() == str(other).lower()

    def useless_closure_without_abs(self, list_of_candidate_sentences):
        if len(list_of_candidate_sentences) != 2:
            return False
        if list_of_candidate_sentences.get(1).probability - list_of_candidate_sentences.get(0).probability > self._tolerance:
            return False
        flag = -1
        for a_statement in list_of_candidate_sentences.constraints():
            if "+" == a_statement.cardinality:
                flag *= -1
        return flag == 1

    def tune_or_not_iri(self):
        if self._disable_or:
            return
        st_types = []
        if self._redundant_or_enabled:
            if self._dominant_constraint not in self._shape_constraints:
                st_types.append(self._dominant_constraint.st_type)
            st_types = st_types + [c.st_type for c in self._shape_constraints]
        elif self._dominant_constraint.st_type != "IRI":
            st_types = st_types + [c.st_type for c in self._shape_constraints]
        if len(st_types) > 1:
            d = self._dominant_constraint
            self._dominant_constraint = FixedPropChoiceStatement(
                st_property=d.st_property, st_types=st_types, cardinality=d.cardinality, probability=d.probability,
                n_occurences=d.n_occurences, is_inverse=d.is_inverse,
                serializer_object=self._statement_serializer_factory.get_choice_serializer(is_inverse=d.is_inverse))

    round5 = [
        ("C01", "[5.1] _look_for_last_index_of_unspaced_token ends a token at the next SPACE only (a tab no longer ends it)",
         setattr_patch(nty.NtTriplesYielder, "_look_for_last_index_of_unspaced_token", unspaced_token_space_only)),
        ("C10", "[5.2a] read_target_classes_from_file stops at the first blank line", patch_read_classes),
        ("C10", "[5.2b] IRI.__eq__ compares case-insensitively", setattr_patch(iri_mod.IRI, "__eq__", iri_eq_lower)),
        ("C12", "[5.3] _is_a_group_of_statements_with_useless_positive_closure lost its abs()",
         setattr_patch(ass.AbstractShexingStrategy, "_is_a_group_of_statements_with_useless_positive_closure", useless_closure_without_abs)),
        ("C13", "[5.4] disjunction built whenever the dominant constraint is not IRI (BNode / NONLITERAL dominants replaced)",
         setattr_patch(ass.MergeableConstraints, "_tune_dominant_constraint_wrt_or_config", tune_or_not_iri)),
    ]

    round4 = [
        ("C01", "[4.1] N-Triples literal token: language-tag branch uses find('@') instead of rfind('@')",
         setattr_patch(nty.NtTriplesYielder, "_look_for_last_index_of_literal_token", literal_token_find_at)),
        ("C02", "[4.2] Shape.inverse_statements setter lost its 'not' (drops direct statements, doubles the inverse ones)",
         patch_inverse_setter),
        ("C12", "[4.3] ClassShexer.shex_classes cleans empty shapes BEFORE selecting the valid constraints",
         setattr_patch(cshex.ClassShexer, "shex_classes", shex_classes_clean_first)),
        ("C13", "[4.4] prefixize_uri_if_possible accepts local names containing '/' or '#' (not both)", patch_prefixize_loose),
        ("C14", "[4.5] the '^' of an incoming constraint on the instantiation property is not printed",
         setattr_patch(bss.BaseStatementSerializer, "serialize_statement_with_indent_level", serialize_without_caret_for_pi)),
        ("C09", "[4.6] longest_common_prefix returns uri2 when the shorter IRI is a prefix of the other",
         setattr_patch(cp, "longest_common_prefix", lcp_returns_uri2)),
    ]

    round3 = [
        ("C01", "[3.1] FixedPropChoiceStatement: every disjunction shares ONE comments list",
         patch_shared_or_comments),
        ("C01", "[3.2] _most_general_cardinality returns max(card1, card2) instead of '+' when the two differ",
         setattr_patch(ass.MergeableConstraints, "_most_general_cardinality", most_general_max)),
        ("C02", "[3.3] _solve_targets_of_an_item de-duplicates per item only (two items, one label: node counted twice)",
         setattr_patch(smit.ShapeMapInstanceTracker, "_solve_targets_of_an_item", solve_targets_seen_per_item)),
        ("C02", "[3.4] _remove_shapes_without_statements also deletes the class from the shared profile dict",
         setattr_patch(cshex.ClassShexer, "_remove_shapes_without_statements", remove_shapes_and_profile)),
        ("C10", "[3.5a] JSON shape map parser keeps one selector per label",
         setattr_patch(smp.JsonShapeMapParser, "_parse_shape_map_from_str", json_one_selector_per_label)),
        ("C10", "[3.5b] class-level memo of selector answers in NodeSelectorSparql keyed by the query text",
         setattr_patch(nsel.NodeSelectorSparql, "get_target_nodes", sparql_targets_memo)),
        ("C13", "[3.6] MixedFrequencyStrategy passes 'decimals or -1' (decimals=0 prints unbounded decimals)", patch_mixed_decimals),
        ("C14", "[3.7a] _bnode_merging_strategy drops is_inverse= on the merged NONLITERAL statement",
         setattr_patch(ass.MergeableConstraints, "_bnode_merging_strategy", bnode_merging_without_inverse)),
        ("C14", "[3.7b] ClassProfiler._build_class_profile skips instances without outgoing features",
         setattr_patch(cp.ClassProfiler, "_build_class_profile", build_class_profile_skipping)),
    ]

    round2 = [
        ("C02", "(1) ShexSerializer._serialize_shape_rules pops a statement off the cached Shape objects",
         setattr_patch(shex_ser.ShexSerializer, "_serialize_shape_rules", rules_popping)),
        ("C12", "(1) Shaper.profile_graph without its 'if self._profile is None' guard",
         setattr_patch(shaper_mod.Shaper, "profile_graph", profile_graph_unguarded)),
        ("C01", "(2) RdflibTripleYielder._turn_rdflib_token_into_model_obj memoised by str(rdflib_obj)",
         setattr_patch(rty.RdflibTripleYielder, "_turn_rdflib_token_into_model_obj", token_memo)),
        ("C02", "(3) get_class_profiler passes the raw (untuned) class list to the profiler",
         setattr_patch(cpf, "tune_target_classes_if_needed", lambda list_target_classes, prefix_namespaces_dict: list(list_target_classes))),
        ("C10", "(3) get_class_profiler passes the raw (untuned) class list to the profiler",
         setattr_patch(cpf, "tune_target_classes_if_needed", lambda list_target_classes, prefix_namespaces_dict: list(list_target_classes))),
        # (4) dict.fromkeys(class_list): only visible on texts with repeated lines, which are outside C01's domain (duplicate-free graphs)
        ("C09", "(5) _look_for_last_index_of_bnode_token rewritten with the regex _:[\\w\\-]+",
         setattr_patch(nty.NtTriplesYielder, "_look_for_last_index_of_bnode_token", bnode_token_regex)),
        ("C10", "(6a) module-level memo in tune_target_classes_if_needed keyed by the class list only", patch_tune_memo),
        ("C10", "(6b) selector prefixes matched with startswith(prefix) instead of startswith(prefix + ':')", patch_selector_prefix),
        ("C13", "(7) _prefixize_uri_if_possible keeps everything after the last '/' or '#'",
         setattr_patch(bss.BaseStatementSerializer, "_prefixize_uri_if_possible", staticmethod(prefixize_last_segment))),
        ("C14", "(8) Shape.direct_statements setter overwrites _statements (drops the '^' constraints)", patch_direct_setter),
        ("C16", "(9a) Shaper passes namespaces_to_ignore to the instance tracker",
         setattr_patch(shaper_mod.Shaper, "_build_instance_tracker", build_tracker_with_ignored_namespaces)),
        ("C16", "(9b) get_triple_yielder reads sorted(set(list_of_source_files))", patch_sorted_files),
        ("C12", "(10) direct strategy keeps every rdf:type candidate regardless of the threshold",
         setattr_patch(dss.DirectShexingStrategy, "_yield_base_shapes_direction_aware", yield_base_keep_rdf_type)),
        ("C02", "(10) direct strategy keeps every rdf:type candidate regardless of the threshold",
         setattr_patch(dss.DirectShexingStrategy, "_yield_base_shapes_direction_aware", yield_base_keep_rdf_type)),
    ]

    return round5 + round4 + round3 + round2 + [
        ("C10", "MixedInstanceTracker._integrate_dicts overwrites the labels the shape map gave a node",
         setattr_patch(mit.MixedInstanceTracker, "_integrate_dicts", integrate_overwrite)),
        ("C14", "_is_relevant_instance without IRI/BNode type check, _annotate_target_object keyed by str(): literals count as links",
         patch_literal_links),
        ("C02", "threshold filter rewritten as n_occurences >= acceptance_threshold * number_of_instances (IEEE boundary)",
         patch_min_occurences),
        ("C13", "decimals=2 truncates instead of rounding", patch_decimals),
        ("C13", "all_instances_are_compliant_mode relaxes every constraint, also those at 100 %",
         setattr_patch(ass.AbstractShexingStrategy, "_modify_cardinalities_of_statements_non_compliant_with_all_instances", relax_all)),
        ("C14", "with inverse_paths the direct candidates are filtered with > instead of >=",
         setattr_patch(diss.DirectAndInverseShexingStrategy, "_build_base_direct_statements", direct_statements_strict)),
        ("C10", "_annotate_target_subject counts every triple twice (shape-map / custom-pi figures)",
         setattr_patch(afds.AbstractFeatureDirectionStrategy, "_annotate_target_subject", subj_plus_two)),
        ("C01", "_annotate_target_subject counts every triple twice",
         setattr_patch(afds.AbstractFeatureDirectionStrategy, "_annotate_target_subject", subj_plus_two)),
        ("C02", "DirectShexingStrategy filters with > instead of >=",
         setattr_patch(dss.DirectShexingStrategy, "_yield_base_shapes_direction_aware", yield_base(lambda fr, t, occ, n: fr > t or t == 0))),
        ("C12", "DirectShexingStrategy ignores the threshold from 0.5 upwards",
         setattr_patch(dss.DirectShexingStrategy, "_yield_base_shapes_direction_aware", yield_base(lambda fr, t, occ, n: t >= 0.5 or fr >= t))),
        ("C09", "ClassProfiler drops the first relevant triple of property p/p0 it meets (order dependent)",
         setattr_patch(cp.ClassProfiler, "_build_shape_of_instances", build_skip_first)),
        ("C13", "disable_comments additionally removes the last constraint of a shape",
         setattr_patch(ass.AbstractShexingStrategy, "_remove_comments_from_statements", remove_comments_and_more)),
        ("C14", "_annotate_target_object counts every incoming triple twice",
         setattr_patch(irfs.IncludeReverseFeaturesStrategy, "_annotate_target_object", obj_twice)),
        ("C16", "namespaces_to_ignore drops every predicate below the namespace (no direct-child test)",
         setattr_patch(fnty, "check_if_property_belongs_to_namespace_list", belongs_prefix_only)),
        ("C16", "instances_cap accepts k+1 instances",
         setattr_patch(icm.InstanceCapMode, "_check_class_counts", cap_off_by_one)),
        ("C10", "TargetClassesMode accepts the instances of every class",
         setattr_patch(tcm.TargetClassesMode, "is_relevant_triple", relevant_any_class)),
    ]


def _selftest(verbose=True):
    ok = True
    t00 = time.time()
    baseline = {}
    for pid, desc, patch in _mutants():
        t0 = time.time()
        if pid not in baseline:                        # finding keys of the unpatched tree at the same size
            baseline[pid] = set(f["key"] for f in run(pid, "selftest", 0)["findings"])
        undo = patch()
        try:
            res = run(pid, "selftest", 0)
        finally:
            undo()
        keys = [f["key"] for f in res["findings"]]
        new = [k for k in keys if k not in baseline[pid]]
        hit = bool(new)
        ok = ok and hit
        if verbose:
            print("%-4s %-4s mutant: %-82s -> %d finding key(s) %s  [%d runs, %.1fs]"
                  % ("ok" if hit else "FAIL", pid, desc, len(new), new[:3], res["evaluations"], time.time() - t0))
    if verbose:
        print("selftest %s in %.1fs" % ("passed: every mutant is detected" if ok else "FAILED", time.time() - t00))
    return ok


def main(argv):
    if len(argv) >= 1 and argv[0] == "selftest":
        return 0 if _selftest() else 1
    if len(argv) >= 2 and argv[0] == "run":
        res = run(argv[1], argv[2] if len(argv) > 2 else "quick", int(argv[3]) if len(argv) > 3 else 0)
        brief = dict((k, v) for k, v in res.items() if k not in ("samples", "findings", "rule", "bounds"))
        print(json.dumps(brief, indent=1, default=str))
        for f in res["findings"]:
            print("FINDING %s (x%d): %s" % (f["key"], f.get("occurrences", 1), f["what"][:700]))
            print("   input: %s" % json.dumps(f["input"], default=str)[:1500])
        return 0
    print(__doc__)
    return 2


if __name__ == "__main__":
    sys.exit(main(sys.argv[1:]))
