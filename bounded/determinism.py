"""Bounded monitor for C19: "extraction is deterministic across processes".

Every case (graph, configuration, delivery of the input) is extracted in FRESH interpreter processes that differ in
PYTHONHASHSEED (str/bytes hashing, hence set and dict-of-str iteration orders) and in the amount of unrelated garbage allocated
before sheXer is imported (object addresses, hence id()-based hashes).  Per case the SHA-256 of the ShExC text and a canonical
digest of the SHACL graph (rdflib to_isomorphic; on a mismatch the parent re-checks with rdflib.compare.isomorphic on the texts)
must be the same for all seeds.  When the user's namespaces occupy all four default shape prefixes ('', 'weso-s', 'shapes',
'w-shapes') sheXer legitimately draws a random prefix: the ShExC texts are then compared after renaming that one prefix.

Finding keys
    C19:shexc-differs:<config-category>          ShExC texts of two seeds differ
    C19:shacl-not-isomorphic:<config-category>   SHACL graphs of two seeds are not isomorphic
    C19:crash-depends-on-seed:<config-category>  some seeds crash, others do not

    run(pid, tier, seed) -> dict      replay(doc) -> (ok, message)
    python -m bounded.determinism run C19 [quick|thorough] [seed]
    python -m bounded.determinism selftest
Label: bounded -- evidence by testing, never a proof.
"""
import collections
import concurrent.futures
import hashlib
import json
import os
import random
import re
import subprocess
import sys
import time

try:
    from . import _pipeline_util as U
except ImportError:                                    # executed as a plain script
    sys.path.insert(0, os.path.dirname(os.path.abspath(__file__)))
    import _pipeline_util as U

PID = "C19"
WORKERS = 12
MAX_FINDINGS = 10
SUBPROCESS_TIMEOUT = 30
MARK = "C19RESULT "
DEFAULT_PREFIXES = ["", "weso-s", "shapes", "w-shapes"]

# The runner: executed with `python -c RUNNER` in a fresh process; job on stdin, result on the last stdout line after MARK.
RUNNER = r'''
import sys, os, json, signal, hashlib, warnings, tempfile, shutil
warnings.simplefilter("ignore")
job = json.loads(sys.stdin.read())
repo = os.environ.get("VERIF_REPO", "/repo")
while repo in sys.path:
    sys.path.remove(repo)
sys.path.insert(0, repo)
junk = [bytearray(17 + (i * 7919) % 257) for i in range(job.get("perturb", 0))]     # shifts the addresses of later objects
import shexer.shaper
got = os.path.realpath(sys.modules["shexer"].__file__)
if not got.startswith(os.path.realpath(repo) + os.sep):
    raise RuntimeError("shexer imported from %s, not from VERIF_REPO=%s" % (got, repo))
mode = os.environ.get("VERIF_C19_SELFTEST")
if mode:                                               # selftest only: make the result depend on the hash seed
    import shexer.core.profiling.class_profiler as cp
    _old = cp.ClassProfiler.profile_classes
    def profile_classes(self, verbose):
        prof, counts, feats = _old(self, verbose)
        keys = sorted(prof, key=hash)                  # hash(str) depends on PYTHONHASHSEED
        if mode == "drop" and len(keys) > 1:
            keys = keys[1:]
        ordered = [(k, prof[k]) for k in keys]
        prof.clear()
        prof.update(ordered)
        return prof, counts, feats
    if mode in ("order", "drop"):
        cp.ClassProfiler.profile_classes = profile_classes
    if mode == "shapeset":                             # surviving shapes re-listed from a set difference (hash order)
        import shexer.core.shexing.class_shexer as cs
        def _remove_shapes_without_statements(self, shape_names_to_remove):
            by_name = dict((a_shape.name, a_shape) for a_shape in self._shapes_list)
            self._shapes_list = [by_name[n] for n in (by_name.keys() - set(shape_names_to_remove))]
        cs.ClassShexer._remove_shapes_without_statements = _remove_shapes_without_statements
    if mode == "classset":                             # a node's class list rebuilt from a set when a class is repeated
        import shexer.core.instances.annotators.strategy_mode.base_strategy_mode as bsm
        def annotation_post_parsing(self):
            for a_node, classes in self._instances_dict.items():
                if isinstance(classes, list) and len(set(classes)) != len(classes):
                    self._instances_dict[a_node] = list(set(classes))
        bsm.BaseStrategyMode.annotation_post_parsing = annotation_post_parsing
def on_alarm(signum, frame):
    raise TimeoutError("wall-clock guard")
signal.signal(signal.SIGALRM, on_alarm)
res = {"seed": os.environ.get("PYTHONHASHSEED"), "hash_probe": hash("probe") % 1000}
tmp = tempfile.mkdtemp(prefix="c19_")
try:
    for fmt in ("ShEx", "Shacl"):
        kw = dict(job["cfg"])
        inp = job["input"]
        if inp["how"] == "raw":
            kw["raw_graph"] = job["data"]
        else:
            path = os.path.join(tmp, "g." + {"nt": "nt", "tsv_spo": "tsv"}.get(inp["format"], "ttl"))
            with open(path, "w") as fh:
                fh.write(job["data"])
            kw["graph_file_input"] = path
        signal.alarm(12)
        try:
            shaper = shexer.shaper.Shaper(input_format=inp["format"], namespaces_dict=dict(job["ns"]), **kw)
            text = shaper.shex_graph(string_output=True, output_format=fmt, acceptance_threshold=job["t"])
            res[fmt] = text
        except BaseException as exc:
            import traceback
            tb = traceback.extract_tb(sys.exc_info()[2])
            where = "%s:%s" % (os.path.basename(tb[-1].filename), tb[-1].name) if tb else "?"
            res[fmt + "_error"] = "%s @ %s" % (type(exc).__name__, where)
        finally:
            signal.alarm(0)
    if "Shacl" in res:
        try:
            import rdflib, rdflib.compare
            g = rdflib.Graph().parse(data=res["Shacl"], format="turtle")
            res["shacl_digest"] = [len(g), str(rdflib.compare.to_isomorphic(g).internal_hash())]
        except Exception as exc:
            res["shacl_digest"] = ["unparsable", type(exc).__name__]
finally:
    shutil.rmtree(tmp, ignore_errors=True)
sys.stdout.write("\n" + job["mark"] + json.dumps(res) + "\n")
'''


# ------------------------------------------------------------------------------------------------
# cases
# ------------------------------------------------------------------------------------------------
def _collide(k):
    """User namespaces occupying the first k default shape prefixes."""
    G = U.lib()[2]
    ns = collections.OrderedDict(G.NAMESPACES)
    for i in range(k):
        ns["http://taken%d.org/" % i] = DEFAULT_PREFIXES[i]
    return ns


def _categories():
    """[(category, cfg, namespaces, input, needs IRI-only graph, threshold, tweak of the graph)]"""
    M, S, G = U.lib()
    ns = collections.OrderedDict(G.NAMESPACES)
    raw_nt, file_nt = {"how": "raw", "format": "nt"}, {"how": "file", "format": "nt"}
    raw_ttl, file_ttl = {"how": "raw", "format": "turtle"}, {"how": "file", "format": "turtle"}
    A, B = G.CLASS_A, G.CLASS_B
    # labels: <iri> (sheXer's SHACL serializer rejects them: counted in skipped_crashes) and prefixed (SHACL is produced)
    sm_focus = "{FOCUS a ex:A}@<%sL1>" % U.ALT_SHAPES_NS
    sm_focus_p = "{FOCUS a ex:A}@ex:L1"
    sm_two = "{FOCUS a ex:A}@ex:L1\n{FOCUS a ex:B}@ex:L2"
    sm_sparql = 'SPARQL "select ?s where {?s a ex:B}"@ex:L1'
    allc = {"all_classes_mode": True}
    out = [
        ("target-classes", {"target_classes": [A, B]}, ns, raw_nt, False, 0),
        ("target-classes-t05", {"target_classes": [B, A]}, ns, raw_nt, False, 0.5),
        ("all-classes", allc, ns, raw_nt, False, 0),
        ("all-classes-bnodes", allc, ns, raw_nt, False, 0),
        ("shape-map-focus", {"shape_map_raw": sm_focus}, ns, raw_nt, True, 0),
        ("shape-map-two-labels", {"shape_map_raw": sm_two, "inverse_paths": True}, ns, raw_nt, True, 0),
        ("shape-map-sparql", {"shape_map_raw": sm_sparql}, ns, raw_nt, True, 0),
        ("shape-map-and-all-classes", {"shape_map_raw": sm_focus, "all_classes_mode": True}, ns, raw_nt, True, 0),
        ("inverse-paths", dict(allc, inverse_paths=True), ns, raw_nt, False, 0),
        ("examples-all", dict(allc, examples_mode="all"), ns, raw_nt, False, 0),
        ("examples-all-inverse", dict(allc, examples_mode="all", inverse_paths=True), ns, raw_nt, True, 0.5),
        ("detect-minimal-iri", dict(allc, detect_minimal_iri=True), ns, raw_nt, False, 0),
        ("instances-cap", dict(allc, instances_cap=1), ns, raw_nt, False, 0),
        ("instances-cap-targets", {"target_classes": [A, B], "instances_cap": 2, "inverse_paths": True}, ns, raw_nt, False, 0),
        ("namespaces-to-ignore", dict(allc, namespaces_to_ignore=[G.OTHER]), ns, raw_nt, False, 0),
        ("or-statements", dict(allc, disable_or_statements=False, keep_less_specific=False), ns, raw_nt, False, 0),
        ("switches-off", dict(allc, all_instances_are_compliant_mode=False, disable_exact_cardinality=True,
                              discard_useless_constraints_with_positive_closure=False), ns, raw_nt, False, 0.5),
        ("no-namespaces", allc, collections.OrderedDict(), raw_nt, False, 0),
        ("input-nt-file", allc, ns, file_nt, False, 0),
        ("input-turtle-raw", allc, ns, raw_ttl, True, 0),
        ("input-turtle-file", dict(allc, inverse_paths=True), ns, file_ttl, True, 0),
        ("input-turtle-targets", {"target_classes": [A, B], "examples_mode": "all"}, ns, file_ttl, True, 0),
        ("input-turtle-shape-map", {"shape_map_raw": sm_focus_p}, ns, raw_ttl, True, 0),
    ]
    out = [c + (None,) for c in out]
    # a shape that reaches the shexer with zero constraints (removed there; the survivors are re-listed): a shape-map node without
    # outgoing triples, a selector without solutions, a threshold that empties a label whose two nodes share no property
    five = "{FOCUS a ex:A}@ex:L1\n{FOCUS a ex:B}@ex:L2\n{FOCUS a ex:C}@ex:L3\n{FOCUS ex:p0 _}@ex:L4\n{FOCUS o:p1 _}@ex:L5\n"
    ghost = five + "<http://ex.org/ghost>@ex:Ghost\n{FOCUS a ex:Nothing}@ex:Void"
    ghost_iri = ghost.replace("@ex:", "@<%s" % U.ALT_SHAPES_NS).replace("\n", ">\n") + ">"
    mixed = five + "<http://ex.org/g1>@ex:Mixed\n<http://ex.org/g2>@ex:Mixed"
    out += [("shape-map-ghost", {"shape_map_raw": ghost}, ns, raw_nt, True, 0, "ghost"),
            ("shape-map-ghost-inverse", {"shape_map_raw": ghost, "inverse_paths": True}, ns, file_nt, True, 0.5, None),
            ("shape-map-ghost-iri-labels", {"shape_map_raw": ghost_iri}, ns, raw_nt, True, 0, "ghost"),
            ("shape-map-emptied-by-threshold", {"shape_map_raw": mixed}, ns, raw_nt, True, 1, "mixed"),
            ("shape-map-emptied-and-all-classes", {"shape_map_raw": mixed, "all_classes_mode": True}, ns, raw_nt, True, 1, "mixed"),
            # a type triple stated twice for a subject with >= 2 classes (native reader; a repeated line is a valid document)
            ("repeated-type-all-classes", allc, ns, raw_nt, False, 0, "repeat"),
            ("repeated-type-targets", {"target_classes": [A, B, G.EX + "C"]}, ns, file_nt, False, 0, "repeat"),
            ("repeated-type-inverse", dict(allc, inverse_paths=True), ns, raw_nt, False, 0.5, "repeat"),
            ("repeated-type-tsv", allc, ns, {"how": "raw", "format": "tsv_spo"}, False, 0, "repeat")]
    for k in range(5):
        out.append(("ns-collide-%d" % k, allc if k % 2 == 0 else {"target_classes": [A, B]}, _collide(k), raw_nt, False, 0, None))
    out.append(("input-turtle-ns-collide-4", allc, _collide(4), raw_ttl, True, 0, None))
    return out


SIZES = {"selftest": (1, 4), "quick": (2, 4), "thorough": (3, 16)}       # graphs per category, seeds


def _turtle(nt):
    G = U.lib()[2]
    return "@prefix ex: <%s> .\n@prefix o: <%s> .\n@prefix foaf: <http://xmlns.com/foaf/0.1/> .\n\n%s" % (G.EX, G.OTHER, nt)


def gen_cases(tier, seed):
    M, S, G = U.lib()
    rng = random.Random("C19|%s|%s" % (tier, seed))
    per_cat, _ = SIZES[tier]
    cases = []
    for ci, (cat, cfg, ns, inp, iri_only, t, tweak) in enumerate(_categories()):
        for gi in range(per_cat):
            pb = 0.0 if iri_only else (0.35 if "bnodes" in cat else (0.2 if (ci + gi) % 2 else 0.0))
            T = U.rand_graph(rng, n_nodes=rng.randint(5, 9), n_triples=rng.randint(10, 24), n_classes=3, n_props=rng.randint(3, 4),
                             p_bnode=pb)
            if not any(o == M.IRI(G.CLASS_A) for (_, p, o) in T if p == M.RDF_TYPE):
                T.append(M.Triple(M.IRI(G.EX + "n0"), M.RDF_TYPE, M.IRI(G.CLASS_A)))
            if tweak == "ghost":                         # the node of the shape map occurs, but only as an object
                T.insert(len(T) // 2, M.Triple(T[0][0], G.EX + "sees", M.IRI(G.EX + "ghost")))
            if tweak == "mixed":                         # two nodes without a common property: nothing reaches t = 1
                T += [M.Triple(M.IRI(G.EX + "g1"), G.EX + "only1", M.Lit("x")), M.Triple(M.IRI(G.EX + "g2"), G.EX + "only2", M.Lit("y"))]
                rng.shuffle(T)
            if tweak == "repeat":                        # nodes with three classes, one or two of their type triples stated twice
                subjects = U.dedup([s for (s, p, o) in T if p == M.RDF_TYPE]) + [M.IRI(G.EX + "r%d" % gi)]
                for x in subjects[-3:]:
                    for C in ("A", "B", "C"):
                        T.append(M.Triple(x, M.RDF_TYPE, M.IRI(G.EX + C)))
                T = U.dedup(T)
                rng.shuffle(T)
                for x in subjects[-3:]:
                    mine = [tr for tr in T if tr[0] == x and tr[1] == M.RDF_TYPE]
                    for tr in rng.sample(mine, rng.randint(1, 2)):
                        T.insert(rng.randint(0, len(T)), tr)
            if inp["format"] == "nt":
                data = U.to_nt(T)
            elif inp["format"] == "tsv_spo":
                data = "".join("%s\t<%s>\t%s\n" % (M.node_to_nt(s_), p_, M.node_to_nt(o_)) for (s_, p_, o_) in T)
            else:
                data = _turtle(U.to_nt(T))
            cases.append({"cat": cat, "cfg": cfg, "ns": list(ns.items()), "input": inp, "t": t, "data": data, "perturb_step": 1500})
    return cases


def seeds_for(tier, seed):
    n = SIZES[tier][1]
    base = [0, 1, 2, 3, 7, 42, 99, 1234, 4242, 31337, 65535, 100003, 999983, 2147483647, 4294967295, 123456789]
    out = base[:n]
    if seed:
        out = out[:2] + [(int(seed) * 7919 + 17 * i) % 4294967296 for i in range(n - 2)]
    return out


# ------------------------------------------------------------------------------------------------
# subprocesses
# ------------------------------------------------------------------------------------------------
def run_job(case, hashseed, index=0, selftest=None):
    """One extraction (ShExC + SHACL, two fresh Shapers) in a fresh interpreter.  -> result dict."""
    env = dict(os.environ)
    repo = U.repo_path()
    env["VERIF_REPO"] = repo
    env["PYTHONHASHSEED"] = str(hashseed)
    env["PYTHONPATH"] = os.pathsep.join([repo] + [p for p in env.get("PYTHONPATH", "").split(os.pathsep) if p and p != repo])
    env.pop("VERIF_C19_SELFTEST", None)
    if selftest:
        env["VERIF_C19_SELFTEST"] = selftest
    job = {"cfg": case["cfg"], "ns": case["ns"], "input": case["input"], "t": case["t"], "data": case["data"],
           "perturb": index * case.get("perturb_step", 0), "mark": MARK}
    try:
        p = subprocess.run([sys.executable, "-c", RUNNER], input=json.dumps(job), capture_output=True, text=True,
                           timeout=SUBPROCESS_TIMEOUT, env=env, cwd="/")
    except subprocess.TimeoutExpired:
        return {"fatal": "timeout"}
    for line in reversed(p.stdout.split("\n")):
        if line.startswith(MARK):
            return json.loads(line[len(MARK):])
    return {"fatal": "runner failed (exit %s): %s" % (p.returncode, (p.stderr or "")[-300:].replace("\n", " | "))}


_RE_PREFIX = re.compile(r"^PREFIX ([^:\s]*): <([^>]*)>\s*$", re.M)


def normalise_shapes_prefix(text, shapes_ns=U.SHAPES_NS):
    """ShExC text with the prefix bound to the shapes namespace renamed to 'SHAPESPREFIX'."""
    pfx = None
    for m in _RE_PREFIX.finditer(text):
        if m.group(2) == shapes_ns:
            pfx = m.group(1)
    if pfx is None:
        return text
    return re.sub(r"(?<![\w\-.:<])%s:" % re.escape(pfx), "SHAPESPREFIX:", text)


def _all_defaults_taken(case):
    return set(DEFAULT_PREFIXES) <= set(p for _, p in case["ns"])


def _first_diff(a, b):
    la, lb = a.split("\n"), b.split("\n")
    for i in range(max(len(la), len(lb))):
        x = la[i] if i < len(la) else "<end of text>"
        y = lb[i] if i < len(lb) else "<end of text>"
        if x != y:
            return "line %d: %r vs %r" % (i + 1, x[:150], y[:150])
    return "identical"


def _canon(text):
    """Order-insensitive content of a ShExC text: sorted shapes (label, count, minimal IRI, example) with sorted constraints
    (incl. figures) and their sorted comment lines (None: unparsable)."""
    U.lib()
    import shexc_parse
    try:
        doc = shexc_parse.parse_shexc(text)
    except Exception:
        return None
    return sorted((sh.label_iri, sh.n_instances, sh.min_iri, sh.example, sorted(
        (bool(c.inverse), c.predicate, repr(c.value), str(c.cardinality), c.ratio_text, c.count,
         tuple(sorted(k.raw for k in c.comments))) for c in sh.constraints)) for sh in doc.shapes)


def _kind_of_difference(a, b):
    ca, cb = _canon(a), _canon(b)
    if ca is None or cb is None:
        return "at least one text does not parse"
    if ca == cb:
        return "same shapes, constraints, figures and comments in another order"
    if [(x[0], x[1]) for x in ca] != [(x[0], x[1]) for x in cb]:
        return "different shapes or instance counts"
    return "different constraints / figures / comments, not only another order"


def compare(case, results, seeds):
    """-> (findings, crash signatures, nontrivial?) for the results of one case under all seeds."""
    findings, crashes = [], collections.Counter()
    ok = [(s, r) for s, r in zip(seeds, results) if "fatal" not in r]
    for s, r in zip(seeds, results):
        if "fatal" in r:
            crashes["runner: " + r["fatal"][:80]] += 1
    cat = case["cat"]
    random_prefix = _all_defaults_taken(case)
    nontrivial = False
    for fmt in ("ShEx", "Shacl"):
        good = [(s, r) for s, r in ok if fmt in r]
        bad = [(s, r) for s, r in ok if fmt + "_error" in r]
        for s, r in bad:
            crashes[r[fmt + "_error"]] += 1
        if good and bad:
            findings.append({"key": "C19:crash-depends-on-seed:%s" % cat,
                             "what": "%s: PYTHONHASHSEED=%s returns normally, PYTHONHASHSEED=%s raises %s"
                                     % (fmt, good[0][0], bad[0][0], bad[0][1][fmt + "_error"]),
                             "input": {"case": case, "seeds": [good[0][0], bad[0][0]]}})
        if len(good) < 2:
            continue
        s0, r0 = good[0]
        if fmt == "ShEx":
            nontrivial = nontrivial or "{\n   " in r0[fmt]
            norm = (lambda x: normalise_shapes_prefix(x)) if random_prefix else (lambda x: x)
            h0 = hashlib.sha256(norm(r0[fmt]).encode("utf-8")).hexdigest()
            for s, r in good[1:]:
                if hashlib.sha256(norm(r[fmt]).encode("utf-8")).hexdigest() != h0:
                    findings.append({"key": "C19:shexc-differs:%s" % cat,
                                     "what": "the ShExC texts of PYTHONHASHSEED=%s and PYTHONHASHSEED=%s differ%s (%s): %s"
                                             % (s0, s, " (after renaming the random shapes prefix)" if random_prefix else "",
                                                _kind_of_difference(norm(r0[fmt]), norm(r[fmt])),
                                                _first_diff(norm(r0[fmt]), norm(r[fmt]))),
                                     "input": {"case": case, "seeds": [s0, s], "observed": r[fmt][:600], "expected": r0[fmt][:600]}})
                    break
        else:
            for s, r in good[1:]:
                if r.get("shacl_digest") == r0.get("shacl_digest") and r0.get("shacl_digest", ["unparsable"])[0] != "unparsable":
                    continue
                if _isomorphic(r0[fmt], r[fmt]):
                    continue
                findings.append({"key": "C19:shacl-not-isomorphic:%s" % cat,
                                 "what": "the SHACL graphs of PYTHONHASHSEED=%s and PYTHONHASHSEED=%s are not isomorphic (digests %r / %r)"
                                         % (s0, s, r0.get("shacl_digest"), r.get("shacl_digest")),
                                 "input": {"case": case, "seeds": [s0, s], "observed": r[fmt][:600], "expected": r0[fmt][:600]}})
                break
    return findings, crashes, nontrivial


def _isomorphic(a, b):
    import rdflib
    import rdflib.compare
    try:
        ga = rdflib.Graph().parse(data=a, format="turtle")
        gb = rdflib.Graph().parse(data=b, format="turtle")
    except Exception:
        return a == b
    return rdflib.compare.isomorphic(ga, gb)


RULE = ("one evaluation = one extraction (fresh Shaper, ShExC or SHACL) in a fresh interpreter process. Per case all seeds must give the "
        "same SHA-256 of the ShExC text and isomorphic SHACL graphs (canonical digest, re-checked with rdflib.compare.isomorphic). "
        "Processes differ in PYTHONHASHSEED and in the garbage allocated before importing sheXer. Categories: target classes, all "
        "classes (with blank nodes), shape maps ({FOCUS a ex:A}, two labels, SPARQL selector, with all_classes_mode), inverse paths, "
        "examples_mode='all', detect_minimal_iri, instances_cap, namespaces_to_ignore, OR statements, inference switches, empty "
        "namespaces, shape maps with a label that reaches the shexer without constraints (node without triples, selector without "
        "solutions, threshold 1 on two nodes sharing no property), documents repeating a type triple of a node with three classes "
        "(nt, tsv_spo), input as raw N-Triples / N-Triples file / raw Turtle / Turtle file (rdflib), user namespaces taking 0..4 of the "
        "default shape prefixes (4: the random prefix is renamed before comparing). A crash is counted in skipped_crashes; a crash "
        "for some seeds only is a finding.")


def run(pid=PID, tier="quick", seed=0, _selftest=None):
    if pid != PID:
        raise ValueError("bounded.determinism has no check for %r" % pid)
    if tier not in SIZES:
        tier = "quick"
    t0 = time.time()
    cases = gen_cases(tier, int(seed or 0))
    seeds = seeds_for(tier, int(seed or 0))
    jobs = [(ci, si) for ci in range(len(cases)) for si in range(len(seeds))]
    results = {}
    with concurrent.futures.ThreadPoolExecutor(WORKERS) as ex:
        futs = dict((ex.submit(run_job, cases[ci], seeds[si], si, _selftest), (ci, si)) for ci, si in jobs)
        for fut in concurrent.futures.as_completed(futs):
            results[futs[fut]] = fut.result()
    evaluations, crashes, findings, nontrivial = 0, collections.Counter(), [], 0
    probes = set()
    for ci, case in enumerate(cases):
        rs = [results[(ci, si)] for si in range(len(seeds))]
        evaluations += sum(1 for r in rs for fmt in ("ShEx", "Shacl") if fmt in r or fmt + "_error" in r)
        probes.update(r.get("hash_probe") for r in rs if "hash_probe" in r)
        f, c, nt = compare(case, rs, seeds)
        findings += f
        crashes.update(c)
        nontrivial += len(seeds) * 2 if nt else 0
    findings.sort(key=lambda f: (f["key"], len(json.dumps(f["input"]["case"])), json.dumps(f["input"], sort_keys=True, default=str)))
    by_key = collections.OrderedDict()
    for f in findings:
        by_key.setdefault(f["key"], f)
    out_findings = []
    # rdflib-backed inputs (hash-ordered triple iteration) last: at most MAX_FINDINGS are listed and must not hide a line-reader finding
    for key, f in sorted(by_key.items(), key=lambda kf: (":input-turtle" in kf[0], kf[0]))[:MAX_FINDINGS]:
        f = dict(f, input=U.jsonable(f["input"]))
        f["occurrences"] = sum(1 for g in findings if g["key"] == key)
        out_findings.append(f)
    undecided = []
    fatal = [k for k in crashes if k.startswith("runner: ")]
    if fatal:
        undecided.append("determinism monitor C19: %d subprocess(es) gave no result, first: %s" % (sum(crashes[k] for k in fatal), fatal[0]))
    if len(probes) < 2:
        undecided.append("determinism monitor C19: the hash seed had no effect on hash('probe') in the subprocesses")
    samples = [U.jsonable(dict(c, data=c["data"][:300] + "...")) for c in cases[:: max(1, len(cases) // 3)][:3]]
    return {"name": "determinism-monitor", "label": "bounded", "property": pid, "tier": tier, "seed": seed,
            "evaluations": evaluations, "distinct_nontrivial": nontrivial, "cases": len(cases), "rule": RULE,
            "bounds": "%d cases (%d configuration categories x %d seeded random graph(s): 5-9 nodes, 10-24 data triples, 3 classes, blank "
                      "nodes only with the line readers, no language-tagged literals) x %d processes with PYTHONHASHSEED in %r and "
                      "0..%d junk allocations; %d s timeout per process"
                      % (len(cases), len(_categories()), SIZES[tier][0], len(seeds), seeds, (len(seeds) - 1) * 1500, SUBPROCESS_TIMEOUT),
            "samples": samples, "skipped_crashes": dict(crashes), "findings": out_findings, "undecided": undecided,
            "distinct_finding_keys": len(by_key), "all_finding_keys": sorted(by_key), "subprocesses": len(jobs), "wall_s": round(time.time() - t0, 2)}


def replay(doc):
    inp = doc.get("input") or {}
    case, seeds = inp.get("case"), inp.get("seeds")
    if not case or not seeds:
        return True, "replay: document carries no determinism case"
    all_seeds = list(seeds) + [s for s in seeds_for("quick", 0) if s not in seeds]
    rs = [run_job(case, s, i) for i, s in enumerate(all_seeds)]
    findings, crashes, _ = compare(case, rs, all_seeds)
    key = doc.get("key")
    hit = [f for f in findings if f["key"] == key]
    if hit:
        return False, "reproduced %s: %s" % (key, hit[0]["what"])
    if findings:
        return False, "reproduced with a different key %s (recorded %s): %s" % (findings[0]["key"], key, findings[0]["what"])
    if crashes:
        return True, "not reproduced: sheXer did not complete (%s)" % dict(crashes)
    return True, "not reproduced on this tree (%d processes, identical ShExC and isomorphic SHACL)" % len(all_seeds)


def _selftest(verbose=True):
    ok = True
    t00 = time.time()
    base = run(PID, "selftest", 0)
    baseline = set(base["all_finding_keys"])
    if verbose:
        print("unpatched tree at selftest size: %d extractions in %d processes, keys %s, undecided %s"
              % (base["evaluations"], base["subprocesses"], sorted(baseline), base["undecided"]))
    ok = ok and not base["undecided"]
    for mode, want, desc in (("order", "C19:shexc-differs:", "runner orders the class profile by hash(str) (VERIF_C19_SELFTEST=order)"),
                             ("drop", "C19:shacl-not-isomorphic:", "runner drops the class with the smallest hash(str) (VERIF_C19_SELFTEST=drop)"),
                             ("shapeset", "C19:shexc-differs:shape-map-", "ClassShexer re-lists the shapes surviving the empty-shape removal "
                                                                          "from a set difference (VERIF_C19_SELFTEST=shapeset)"),
                             ("classset", "C19:shexc-differs:repeated-type-", "BaseStrategyMode rebuilds a class list holding a repeated "
                                                                              "class as list(set(..)) (VERIF_C19_SELFTEST=classset)")):
        t0 = time.time()
        res = run(PID, "selftest", 0, _selftest=mode)
        new = [k for k in res["all_finding_keys"] if k not in baseline]
        hit = any(k.startswith(want) for k in new)
        ok = ok and hit
        if verbose:
            print("%-4s C19 mutant: %-85s -> want %s*, %d new key(s) %s  [%d extractions, %.1fs]"
                  % ("ok" if hit else "FAIL", desc, want, len(new), new[:3], res["evaluations"], time.time() - t0))
    if verbose:
        print("selftest %s in %.1fs" % ("passed: every mutant is detected" if ok else "FAILED", time.time() - t00))
    return ok


def main(argv):
    if len(argv) >= 1 and argv[0] == "selftest":
        return 0 if _selftest() else 1
    if len(argv) >= 2 and argv[0] == "run":
        res = run(argv[1], argv[2] if len(argv) > 2 else "quick", int(argv[3]) if len(argv) > 3 else 0)
        brief = dict((k, v) for k, v in res.items() if k not in ("samples", "findings", "rule"))
        print(json.dumps(brief, indent=1, default=str))
        for f in res["findings"]:
            print("FINDING %s (x%d): %s" % (f["key"], f.get("occurrences", 1), f["what"][:900]))
            print("   input: %s" % json.dumps(f["input"], default=str)[:1500])
        return 0
    print(__doc__)
    return 2


if __name__ == "__main__":
    sys.exit(main(sys.argv[1:]))
