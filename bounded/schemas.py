"""Bounded monitors of the emitted schemas: runs the REAL sheXer (from $VERIF_REPO) and checks

    C03  every instance conforms to its shape in all-compliant mode (independent validator, strict domain)
    C04  totality: no exception / timeout out of shex_graph (ShExC, SHACL) and profile_graph
    C05  ShExC / SHACL documents are well-formed and closed
    C11  ShExC and SHACL of one Shaper state the same constraints
    C15  endpoint (in-process SPARQL substitute) == local extraction; cache only changes the number of queries
    C17  IRI stems and examples come from the data

Label: bounded -- evidence by testing, never a proof.

    run(pid, tier, seed) -> dict      replay(doc) -> (ok, message)
    python -m bounded.schemas selftest
    python -m bounded.schemas run C05 [quick|thorough] [seed]
"""
import collections
import itertools
import json
import multiprocessing
import os
import random
import re
import sys
import time

try:
    from . import _pipeline_util as U
    from . import _schemas_util as SU
    from . import pipeline as PL
except ImportError:                                    # executed as a plain script
    sys.path.insert(0, os.path.dirname(os.path.abspath(__file__)))
    import _pipeline_util as U
    import _schemas_util as SU
    import pipeline as PL

PIDS = ("C03", "C04", "C05", "C11", "C15", "C17")
WORKERS = 12
MAX_FINDINGS = 10
SHEXC, SHACL = SU.SHEXC, SU.SHACL
_merge = PL._merge


def _case_of(case):
    return dict((k, v) for k, v in case.items() if k != "origin")


# ================================================================================================
# C04 -- totality
# ================================================================================================
DEFAULT_CALLS = (("shex", SHEXC), ("shex", SHACL), ("profile", None))


def _is_config_rejection(exc):
    name, fname, func = SU.crash_where(exc)
    return fname in ("shaper.py", "obj_references.py") and (func.startswith("_check_") or func.startswith("check_"))


ONE_SHAPER_CALLS = (("shex", SHEXC), ("profile", None), ("profile", None), ("shex", SHACL), ("shex", SHEXC, "other-threshold"),
                    ("shex", SHEXC), ("profile", None))


def _check_C04_one_shaper(case, B):
    """Call-history slice: all calls on ONE Shaper (shex_graph -> profile_graph -> profile_graph -> SHACL -> other threshold ...)."""
    with SU.input_file(case["input"]) as inp2:
        return _check_C04_one_shaper_(case, B, inp2)


def _check_C04_one_shaper_(case, B, inp2):
    inp, cfg, t = case["input"], case["cfg"], case.get("t", 0)
    box = [None]
    done = []
    for call in case.get("calls", ONE_SHAPER_CALLS):
        call = tuple(call)
        B.evaluations += 1

        def do(call=call):
            if box[0] is None:
                box[0] = SU.new_shaper(inp2, cfg)
            if call[0] == "profile":
                return box[0].profile_graph(string_output=True)
            return SU._shex(box[0], call[1], (1 if t != 1 else 0.5) if len(call) > 2 else t)
        try:
            out = SU.guarded(do)
            done.append(list(call))
            if not isinstance(out, str):
                B.emit("C04:no-result:%s" % "-".join(str(x) for x in call if x), "%r returned %r instead of a string" % (call, type(out).__name__),
                       _merge(_case_of(case), {"calls": done + [list(call)]}))
            continue
        except U.WallClockTimeout as e:
            exc = e
        except Exception as e:
            exc = e
        if box[0] is None and not isinstance(exc, U.WallClockTimeout):
            # an exception of the constructor (whatever its class) is a rejected configuration, as in check_C04
            B.notes[("config-rejected: %s" % str(exc)[:80]) if _is_config_rejection(exc) else "constructor-raised: %s" % type(exc).__name__] += 1
            return
        name, fname, func = SU.crash_where(exc)
        B.crashes["%s @ %s:%s" % (name, fname, func)] += 1
        B.emit("C04:%s:%s:%s" % (name, fname, func),
               "call %r raised %s(%s) in %s:%s after the calls %r on the same Shaper [input format %s]"
               % (call, name, str(exc)[:160], fname, func, done, inp["format"]),
               _merge(_case_of(case), {"calls": done + [list(call)]}))
        done.append(list(call))
        if box[0] is None:
            return


def check_C04(case, B):
    if case.get("one_shaper"):
        return _check_C04_one_shaper(case, B)
    inp, cfg, t = case["input"], case["cfg"], case.get("t", 0)
    for call in case.get("calls", DEFAULT_CALLS):
        call = tuple(call)
        B.evaluations += 1

        phase = ["constructing the Shaper"]

        def do(call=call, phase=phase):
            with SU.input_file(inp) as inp2:
                sh = SU.new_shaper(inp2, cfg)
                phase[0] = "the call"
                if call[0] == "profile":
                    return sh.profile_graph(string_output=True)
                return SU.shex(sh, call[1], t)
        exc = None
        try:
            out = SU.guarded(do)
        except U.WallClockTimeout as e:
            exc = e
        except Exception as e:
            exc = e
        if exc is None:
            if not isinstance(out, str):
                B.emit("C04:no-result:%s" % "-".join(str(x) for x in call if x), "%r returned %r instead of a string" % (call, type(out).__name__),
                       _merge(_case_of(case), {"calls": [list(call)]}))
            elif out.strip():
                B.mark(inp["text"], cfg, t, list(call))
            continue
        if not isinstance(exc, U.WallClockTimeout) and _is_config_rejection(exc):
            B.notes["config-rejected: %s" % str(exc)[:80]] += 1
            continue
        if not isinstance(exc, U.WallClockTimeout) and phase[0] == "constructing the Shaper":
            # C04 speaks about configurations the constructor ACCEPTS: an exception of the constructor (whatever its class) is a
            # rejection.  (That it is not a ValueError is C20's business; recorded in DESIGN.md.)
            B.notes["constructor-raised: %s" % type(exc).__name__] += 1
            continue
        name, fname, func = SU.crash_where(exc)
        B.crashes["%s @ %s:%s" % (name, fname, func)] += 1
        B.emit("C04:%s:%s:%s" % (name, fname, func),
               "%s raised %s(%s) in %s:%s during %s [input format %s]" % (
                   "profile_graph" if call[0] == "profile" else "shex_graph(output_format=%r, acceptance_threshold=%r)" % (call[1], t),
                   name, str(exc)[:160], fname, func, phase[0], inp["format"]),
               _merge(_case_of(case), {"calls": [list(call)]}))


def _c04_graphs(rng, n_mix, n_rand):
    """[(origin, T)] adversarial mixes + random graphs."""
    M, S, G = U.lib()
    ty = M.RDF_TYPE
    A, Bc, Cc = G.CLASS_A, G.CLASS_B, G.EX + "C"
    s1, s2, s4, s5 = M.IRI(G.EX + "s1"), M.IRI(G.EX + "s2"), M.IRI(G.EX + "s4"), M.IRI(G.EX + "s5")
    pool = [("iri-untyped", M.IRI(G.OTHER + "u1"), []), ("iri-untyped2", M.IRI(G.OTHER + "u2"), []),
            ("iri-A", M.IRI(G.EX + "t1"), [A]), ("iri-B", M.IRI(G.EX + "t2"), [Bc]), ("iri-AB", M.IRI(G.EX + "t3"), [A, Bc]),
            ("bnode-untyped", M.BNode("v1"), []), ("bnode-untyped2", M.BNode("v2"), []),
            ("bnode-A", M.BNode("w1"), [A]), ("bnode-B", M.BNode("w2"), [Bc]),
            ("lit", M.Lit("x"), []), ("int", M.Lit("1", dt=M.XSD_INTEGER), [])]
    combos = [c for k in (1, 2, 3, 4) for c in itertools.combinations(range(len(pool)), k)]
    rng.shuffle(combos)
    out = []
    for i, combo in enumerate(combos[:n_mix]):
        T = [M.Triple(s1, ty, M.IRI(A))]
        subjects = [s1]
        if i % 2:
            T.append(M.Triple(s2, ty, M.IRI(A)))
            if i % 4 == 3:
                T.append(M.Triple(s2, ty, M.IRI(Bc)))
            subjects.append(s2)
        for j, idx in enumerate(combo):
            name, node, classes = pool[idx]
            subj = subjects[j % len(subjects)] if i % 3 else subjects[0]
            T.append(M.Triple(subj, G.PROP_P, node))
            if i % 5 == 0 and len(subjects) > 1:
                T.append(M.Triple(subjects[-1], G.PROP_P, node))
            for C in classes:
                T.append(M.Triple(node, ty, M.IRI(C)))
            if classes and not M.is_literal(node) and i % 7 == 0:
                T.append(M.Triple(node, G.PROP_Q, s1))           # back link
        if i % 3 == 0:
            T.append(M.Triple(s4, ty, M.IRI(A)))                  # instance without any other triple
        if i % 4 == 0:
            T.append(M.Triple(s5, ty, M.IRI(Cc)))                 # class with a single, featureless instance
        T = U.dedup(T)
        if i % 2 == 0:
            rng.shuffle(T)
        out.append(("mix", T))
    for i in range(n_rand):
        out.append(("random", U.rand_graph(rng, n_nodes=rng.randint(3, 8), n_triples=rng.randint(4, 20), n_classes=rng.randint(2, 3),
                                           n_props=rng.randint(2, 4), p_bnode=(0.0, 0.25, 0.5)[i % 3])))
    return out


def _c04_cfg(rng, T):
    """(cfg, t): one accepted configuration drawn from the whole switch space."""
    M, S, G = U.lib()
    cfg = {}
    r = rng.random()
    if r < 0.45:
        cfg["all_classes_mode"] = True
    elif r < 0.6:
        cfg["target_classes"] = [G.CLASS_A]
    elif r < 0.75:
        cfg["target_classes"] = [G.CLASS_A, G.CLASS_B]
    elif r < 0.85:
        cfg["target_classes"] = [G.CLASS_A, G.EX + "Nobody"]     # a target class without instances
    elif r < 0.9:
        cfg["target_classes"] = [G.EX + "Nobody"]
    else:
        sm = rng.choice(["{FOCUS a ex:A}@<http://shapes.ex/L1>", "{FOCUS ex:p _}@<http://shapes.ex/L1>",
                         "{_ ex:p FOCUS}@<http://shapes.ex/L1>", "<http://ex.org/s1>@<http://shapes.ex/L1>",
                         "{FOCUS a ex:A}@<http://shapes.ex/L1>\n{FOCUS a ex:B}@<http://shapes.ex/L2>"])
        cfg["shape_map_raw"] = sm
        if rng.random() < 0.3:
            cfg["all_classes_mode"] = True
    if rng.random() < 0.5:
        cfg["inverse_paths"] = True
    cfg.update(PL._switch_combo(rng, 0.5))
    r = rng.random()
    if r < 0.25:
        cfg["disable_or_statements"] = False
    elif r < 0.45:
        cfg["disable_or_statements"] = False
        cfg["allow_redundant_or"] = True
    if rng.random() < 0.3:
        cfg["remove_empty_shapes"] = False
    if rng.random() < 0.3:
        cfg["detect_minimal_iri"] = True
    r = rng.random()
    if r < 0.4:
        cfg["examples_mode"] = rng.choice(["shape", "cons", "all"])
    if rng.random() < 0.25:
        cfg["instances_cap"] = rng.choice([1, 2, 3])
    if rng.random() < 0.15:
        cfg["disable_comments"] = True
    if rng.random() < 0.15:
        cfg["instances_report_mode"] = rng.choice(["ratio", "abs"])
    if rng.random() < 0.1:
        cfg["decimals"] = rng.choice([0, 2])
    if rng.random() < 0.1:
        cfg["namespaces_to_ignore"] = [G.OTHER]
    if rng.random() < 0.1:
        cfg["shapes_namespace"] = U.ALT_SHAPES_NS
    return cfg, rng.choice([0, 0, 0.5, 1])


def _c04_specials():
    """Hand-written valid inputs around the known weak spots (the ONLY place with language tags)."""
    M, S, G = U.lib()
    ty = M.RDF_TYPE
    s1, s2 = M.IRI(G.EX + "s1"), M.IRI(G.EX + "s2")
    base = [M.Triple(s1, ty, M.IRI(G.CLASS_A)), M.Triple(s2, ty, M.IRI(G.CLASS_A)), M.Triple(s1, G.PROP_P, M.Lit("x")),
            M.Triple(s2, G.PROP_Q, s1)]
    lang = base + [M.Triple(s1, G.PROP_P, M.Lit("hola", lang="es")), M.Triple(s2, G.PROP_P, M.Lit("x", lang="en"))]
    out = []
    allc = {"all_classes_mode": True}
    for fmt in ("nt", "turtle", "turtle_iter"):
        out.append(("lang-tag", SU.render_input(lang, fmt), allc, 0))
    out.append(("lang-tag", SU.render_input(lang, "turtle_iter", 1), {"target_classes": [G.CLASS_A]}, 0))
    lit_type = base + [M.Triple(s1, ty, M.Lit("a literal"))]
    for fmt in ("nt", "turtle", "turtle_iter"):
        out.append(("literal-class", SU.render_input(lit_type, fmt), allc, 0))
        out.append(("literal-class", SU.render_input(lit_type, fmt), {"target_classes": [G.CLASS_A]}, 0))
    urn = base + [M.Triple(s1, "urn:x:p", M.Lit("v")), M.Triple(M.IRI("urn:x:s3"), ty, M.IRI(G.CLASS_A)),
                  M.Triple(s1, G.PROP_Q, M.IRI("urn:x:s3"))]
    for fmt in ("nt", "turtle"):
        out.append(("urn-iris", SU.render_input(urn, fmt, 1), allc, 0))
        out.append(("urn-iris", SU.render_input(urn, fmt, 1), _merge(allc, {"inverse_paths": True, "examples_mode": "all", "detect_minimal_iri": True}), 0))
    bclass = base + [M.Triple(s1, ty, M.BNode("c")), M.Triple(s2, ty, M.BNode("c"))]
    for fmt in ("nt", "turtle", "turtle_iter"):
        out.append(("blank-node-class", SU.render_input(bclass, fmt), allc, 0))
    nums = base + [M.Triple(s1, G.EX + "n", M.Lit("5", dt=M.XSD_INTEGER)), M.Triple(s2, G.EX + "n", M.Lit("7", dt=M.XSD_INTEGER))]
    for fmt in ("turtle", "turtle_iter"):
        out.append(("bare-numbers", SU.render_input(nums, fmt, 4), allc, 0))
    # bare numeric tokens at the edges of what float() accepts (valid Turtle doubles / decimals / integers): out of IEEE range, huge
    # integers, signed zero, exponents without fraction
    for toks in (["1e999", "-2.5E400"], ["1E400", "4"], ["123456789012345678901234567890", "0"], ["-0.0", "+7"], ["1e-999", "2.0"], ["0.5", "5.0"]):
        ttl = ("@prefix ex: <%s> .\n<%s> a <%s> .\n<%s> a <%s> .\n<%s> <%sn> %s .\n<%s> <%sn> %s .\n"
               % (G.EX, s1.iri, G.CLASS_A, s2.iri, G.CLASS_A, s1.iri, G.EX, toks[0], s2.iri, G.EX, toks[1]))
        for extra in ({}, {"infer_numeric_types_for_untyped_literals": False}):
            out.append(("bare-number-edges", {"format": "turtle_iter", "text": ttl}, _merge(allc, extra), 0))
        tsv = "".join("<%s>\t<%s>\t<%s>\n" % (x.iri, ty, G.CLASS_A) for x in (s1, s2)) + "<%s>\t<%sn>\t%s\n<%s>\t<%sn>\t%s\n" % (s1.iri, G.EX, toks[0], s2.iri, G.EX, toks[1])
        out.append(("bare-number-edges", {"format": "tsv_spo", "text": tsv}, allc, 0))
    tricky = base + [M.Triple(s1, G.PROP_P, M.Lit("z z")), M.Triple(s2, G.PROP_P, M.Lit('q"uo\\te')), M.Triple(s2, G.PROP_P, M.Lit("50%")),
                     M.Triple(s2, G.PROP_P, M.Lit("a # b")), M.Triple(s1, G.PROP_P, M.Lit("v", dt=U.DT_FOO))]
    for fmt in ("nt", "turtle", "turtle_iter"):
        out.append(("tricky-literals", SU.render_input(tricky, fmt), allc, 0))
    cls_inst = base + [M.Triple(M.IRI(G.CLASS_A), ty, M.IRI(G.CLASS_B)), M.Triple(s1, G.PROP_Q, M.IRI(G.CLASS_A))]
    out.append(("class-as-instance", SU.render_input(cls_inst, "nt"), _merge(allc, {"inverse_paths": True}), 0))
    only_types = [M.Triple(s1, ty, M.IRI(G.CLASS_A)), M.Triple(s2, ty, M.IRI(G.CLASS_B))]
    for cfg in (allc, {"target_classes": [G.CLASS_A], "remove_empty_shapes": False}, _merge(allc, {"inverse_paths": True, "remove_empty_shapes": False})):
        out.append(("only-type-triples", SU.render_input(only_types, "nt"), cfg, 1))
    # non-hierarchical instance IRIs (fewer than two slashes in the common stem) with detect_minimal_iri; predicates and classes are http
    nonhier = [["urn:x:a1", "urn:x:a2"], ["urn:isbn:1"], ["urn:uuid:6e8bc430-9c3a-11d9-9669-0800200c9a66"], ["tag:ex.org,2020:a"],
               ["tag:ex.org,2020:a", "tag:ex.org,2020:b"], ["mailto:a@ex.org"], ["mailto:a@ex.org", "mailto:b@ex.org"], ["tel:+34-600-000"],
               ["urn:x:a1", G.EX + "s1"], ["mailto:a@ex.org", "https://a.org/x/i1"], ["urn:isbn:1", "urn:isbn:2", "http://a.org/x#i3"],
               ["http:/a", "http:/b"], ["a:b", "a:c"]]
    for k, iris in enumerate(nonhier):
        xs = [M.IRI(i) for i in iris]
        Tn = []
        for j, x in enumerate(xs):
            Tn += [M.Triple(x, ty, M.IRI(G.CLASS_A)), M.Triple(x, G.PROP_P, M.Lit("x"))]
            if j % 2 == 0:
                Tn.append(M.Triple(x, ty, M.IRI(G.CLASS_B)))
        Tn += [M.Triple(xs[0], G.PROP_Q, xs[-1]), M.Triple(xs[-1], G.EX + "mbox", M.IRI("mailto:z@ex.org")),
               M.Triple(s1, G.PROP_Q, xs[0]), M.Triple(s1, ty, M.IRI(G.EX + "C"))]
        for fi, fmt in enumerate(("nt", "turtle", "turtle_iter")):
            for ei, em in enumerate((None, "shape", "cons", "all")):
                cfg = _merge(allc if (k + ei) % 3 else {"target_classes": [G.CLASS_A]}, {"detect_minimal_iri": True},
                             {"examples_mode": em} if em else {}, {"inverse_paths": True} if (k + fi + ei) % 2 else {})
                out.append(("non-hierarchical-instance-iris", SU.render_input(Tn, fmt, 1), cfg, (0, 0.5)[(k + ei) % 2]))
    # an incoming-only property whose SUBJECTS mix IRIs and blank nodes (typed / untyped), with inverse_paths and examples
    subj_pool = [M.IRI(G.OTHER + "u1"), M.BNode("v1"), M.IRI(G.EX + "t1"), M.BNode("w1"), M.IRI(G.OTHER + "u2"), M.BNode("v2")]
    typed_subj = {M.IRI(G.EX + "t1"): G.CLASS_B, M.BNode("w1"): G.CLASS_B}
    k = 0
    for size in (2, 3, 4):
        for combo in itertools.combinations(range(len(subj_pool)), size):
            subs = [subj_pool[i] for i in combo]
            if not (any(isinstance(x, M.IRI) for x in subs) and any(isinstance(x, M.BNode) for x in subs)):
                continue
            k += 1
            Tm = [M.Triple(s1, ty, M.IRI(G.CLASS_A)), M.Triple(s2, ty, M.IRI(G.CLASS_A))]
            for j, x in enumerate(subs):
                Tm.append(M.Triple(x, G.EX + "inc", (s1, s2)[j % 2] if k % 2 else s1))
                if k % 3 == 0:
                    Tm.append(M.Triple(x, G.EX + "inc", s2))
                if x in typed_subj:
                    Tm.append(M.Triple(x, ty, M.IRI(typed_subj[x])))
            if k % 4 == 0:
                Tm.append(M.Triple(s1, G.PROP_P, M.Lit("x")))
            em = (None, "cons", "all", "cons", "all")[k % 5]
            cfg = _merge(allc if k % 3 else {"target_classes": [G.CLASS_A]}, {"inverse_paths": True}, {"examples_mode": em} if em else {},
                         {"disable_or_statements": False} if k % 7 == 0 else {}, {"detect_minimal_iri": True} if k % 6 == 0 else {})
            out.append(("mixed-incoming-subjects", SU.render_input(Tm, ("nt", "turtle", "turtle_iter")[k % 3], k), cfg, (0, 0, 0.5, 1)[k % 4]))
    # the empty graph (no triples): as raw text and, as a control, as an empty file
    for fmt in ("nt", "tsv_spo", "turtle_iter", "turtle", "n3"):
        for cfg in ({"target_classes": [G.CLASS_A]}, allc, _merge(allc, {"inverse_paths": True}), {"target_classes": [G.CLASS_A], "remove_empty_shapes": False},
                    _merge(allc, {"detect_minimal_iri": True, "examples_mode": "all"})):
            for as_file in (False, True):
                for text in ("", "\n"):
                    inp_e = {"format": fmt, "text": text}
                    if as_file:
                        inp_e["as_file"] = True
                    out.append(("empty-graph", inp_e, cfg, 0))
    # turtle_iter: a plain string literal is the last token of its line, the closing ';' ',' '.' comes on the next line
    pre = "".join("@prefix %s: <%s> .\n" % (pfx, ns) for ns, pfx in G.NAMESPACES.items())
    layouts = ['ex:s1 a ex:A\n; ex:name "Alice"\n; ex:nick "Al"\n.\nex:s2 a ex:A ;\n ex:name "Bob"\n.\n',
               'ex:s1 a ex:A .\nex:s1 ex:name "Alice"\n.\n', 'ex:s1 a ex:A .\nex:s1 ex:name "Alice"\n, "Alicia"\n.\n',
               'ex:s1 a ex:A ;\n  ex:name "Alice"\n  ; ex:q ex:s2\n  ; ex:note "a b c"\n.\nex:s2 a ex:B\n; ex:name "x"\n.\n',
               'ex:s1\n a ex:A ;\n ex:name "Alice" ;\n ex:name "Al"\n .\n', 'ex:s1 a ex:A ; ex:name "Alice"\n;\nex:name "B"\n.\n']
    for li, txt in enumerate(layouts):
        for cfg in (allc, {"target_classes": [G.CLASS_A]}, _merge(allc, {"inverse_paths": True, "examples_mode": "all"})):
            out.append(("turtle-iter-literal-ends-line", {"format": "turtle_iter", "text": pre + txt}, cfg, 0))
        out.append(("turtle-iter-literal-ends-line", {"format": "turtle", "text": pre + txt}, allc, 0))
    no_types = [M.Triple(s1, G.PROP_P, M.Lit("x")), M.Triple(s1, G.PROP_Q, s2)]
    out.append(("no-type-triples", SU.render_input(no_types, "nt"), allc, 0))
    out.append(("no-type-triples", SU.render_input(no_types, "nt"), {"target_classes": [G.CLASS_A], "inverse_paths": True}, 0))
    return out


def gen_C04(tier, rng):
    n_mix, n_rand, per = {"selftest": (40, 30, 2), "quick": (561, 5000, 9), "thorough": (561, 30000, 12)}[tier]
    cases = []
    for (label, inp, cfg, t) in _c04_specials():
        cases.append({"pid": "C04", "origin": label, "input": inp, "cfg": cfg, "t": t})
    fmts = ("nt", "nt", "turtle", "turtle_iter")
    for gi, (origin, T) in enumerate(_c04_graphs(rng, n_mix, n_rand)):
        for j in range(per):
            cfg, t = _c04_cfg(rng, T)
            fmt = fmts[(gi + j) % len(fmts)]
            cases.append({"pid": "C04", "origin": origin, "input": SU.render_input(T, fmt, rng.randint(0, 3)), "cfg": cfg, "t": t})
    step = 6 if tier == "selftest" else 33                # ~3 %: the same inputs with a call history on ONE Shaper
    for i in range(3, len(cases), step):
        cases.append(dict(cases[i], one_shaper=True, origin="call-history"))
    cases += [dict(c, one_shaper=True, origin="call-history") for c in cases if c["origin"] == "empty-graph"][::5]
    return cases


# ================================================================================================
# C05 -- well-formed and closed documents
# ================================================================================================
def _dangling_cause(cfg, iri):
    sn = cfg.get("shapes_namespace")
    if sn is not None and sn != U.SHAPES_NS and iri.startswith(U.SHAPES_NS):
        return "custom-shapes-namespace"
    return None


def check_C05(case, B):
    e = U.env()
    inp, cfg, t = case["input"], case["cfg"], case.get("t", 0)

    def emit(key, what, **kw):
        B.emit(key, what, _case_of(case), **kw)
    try:
        sh = B.call(lambda: SU.new_shaper(inp, cfg))
        B.evaluations -= 1
    except U.Skipped:
        return
    text = None
    try:
        text = B.call(lambda: SU.shex(sh, SHEXC, t))
    except U.Skipped:
        pass
    if text is not None:
        try:
            doc = e.P.parse_shexc(text)
        except e.P.ShexcParseError as exc:
            doc = None
            bn = "[<_:" in exc.line
            emit("C05:blank-node-in-value-set" if bn else "C05:shexc-parse-error:%s" % SU.slug(exc.msg.split(":")[0]),
                 "the ShExC output does not parse: %s" % exc, output=text[:1500])
        if doc is not None:
            if any(s.constraints for s in doc.shapes):
                B.mark(inp["text"], cfg, t)
            if any("[<_:" in c.raw for s in doc.shapes for c in s.constraints):
                B.notes["value set with a blank-node label printed as [<_:x>] (lexically an IRIREF, parses)"] += 1
            for pr in e.P.check_wellformed(doc):
                if "(in comment)" in pr:
                    B.notes["dangling reference inside a comment (ignored)"] += 1
                    continue
                m = re.search(r"prefix '([^']*)' redeclared", pr)
                if m:
                    emit("C05:prefix-redeclared:%s" % (m.group(1) or "empty"), "ShExC: %s" % pr, output=text[:1500])
                    continue
                m = re.search(r"prefix '([^']*)' is used (but not declared|before its declaration)", pr)
                if m:
                    emit("C05:undeclared-prefix:%s" % (m.group(1) or "empty"), "ShExC: %s" % pr, output=text[:1500])
                    continue
                if "already defined" in pr:
                    emit("C05:duplicate-shape-label:shexc", "ShExC: %s" % pr, output=text[:1500])
                    continue
                m = re.search(r"reference to undefined shape (\S+)", pr)
                if m:
                    cause = _dangling_cause(cfg, m.group(1))
                    emit("C05:dangling-shape-ref:%s" % (cause or "shexc"),
                         "ShExC: %s; shapes defined: %s" % (pr, sorted(s.label_iri for s in doc.shapes)), output=text[:1500])
                    continue
                emit("C05:wellformedness:%s" % SU.slug(pr.split(":", 1)[-1], 40), "ShExC: %s" % pr, output=text[:1500])
    try:
        ttl = B.call(lambda: SU.shex(sh, SHACL, t))
    except U.Skipped:
        return
    try:
        shapes, dangling, problems = SU.parse_shacl(ttl)
    except SU.ShaclError as exc:
        emit("C05:shacl-parse-error", "the SHACL output does not parse as Turtle: %s" % exc, output=ttl[:1500])
        return
    for (s, o) in dangling:
        cause = _dangling_cause(cfg, o)
        emit("C05:dangling-shape-ref:%s" % (cause or "shacl"),
             "SHACL: sh:node %s in shape %s is not declared as sh:NodeShape (declared: %s)" % (o, s, sorted(shapes)), output=ttl[:1500])
    for s, d in shapes.items():
        for p in d["props"]:
            if p["n_direct"] + p["n_inverse"] != 1:
                emit("C05:shacl-path-count:%d-direct-%d-inverse" % (p["n_direct"], p["n_inverse"]),
                     "SHACL: a property shape of %s has %d sh:path and %d nested sh:inversePath" % (s, p["n_direct"], p["n_inverse"]),
                     output=ttl[:1500])
            if not p["typed"]:
                emit("C05:shacl-untyped-property-shape", "SHACL: a property shape of %s is not typed sh:PropertyShape" % s, output=ttl[:1500])
    for pr in problems:
        emit("C05:shacl-structure:%s" % SU.slug(pr, 30), "SHACL: %s" % pr, output=ttl[:1500])


_RENAMES = [{}, {"s1": "s-1", "s2": "s.2", "s3": "3s", "p": "p-x", "q": "q.r", "A": "A-1", "B": "B.b", "u1": "u_1"},
            {"n0": "n-0", "n1": "n.1", "n2": "2n", "n3": "n_3", "p0": "p-0", "p1": "p.1.x", "A": "Alpha", "B": "B-2", "C": "C.3", "u0": "u-0"}]


def _rename(T, mapping):
    M = U.lib()[0]
    if not mapping:
        return T

    def ren(iri):
        ln = U.local_name(iri)
        return iri[:len(iri) - len(ln)] + mapping[ln] if ln in mapping else iri

    def node(n):
        return M.IRI(ren(n.iri)) if isinstance(n, M.IRI) else n
    return U.dedup([M.Triple(node(s), p if p == M.RDF_TYPE else ren(p), node(o)) for (s, p, o) in T])


def _c05_namespaces(i):
    M, S, G = U.lib()
    base = dict(G.NAMESPACES)
    variants = [
        None,
        _merge(base, {"http://foo.org/": ""}),
        dict((ns, ("" if ns == G.EX else pre)) for ns, pre in base.items()),
        _merge(base, {"http://foo.org/": "", "http://bar.org/": "weso-s"}),
        _merge(base, {"http://foo.org/": "", "http://bar.org/": "weso-s", "http://baz.org/": "shapes"}),
        _merge(base, {"http://foo.org/": "", "http://bar.org/": "weso-s", "http://baz.org/": "shapes", "http://qux.org/": "w-shapes"}),
        dict((ns, {"ex": "shapes", "o": "w-shapes"}.get(pre, pre)) for ns, pre in base.items()),
        _merge(base, {U.SHAPES_NS: "mine"}),
        _merge(base, {"http://www.w3.org/ns/shacl#": "sh", "http://foo.org/": "shacl"}),
        _merge(base, {"http://foo.org/": "sh", "http://bar.org/": "shacl", "http://baz.org/": "sha"}),
        {},
    ]
    return variants[i % len(variants)]


_DEFAULT_SHAPE_PREFIXES = ["", "weso-s", "shapes", "w-shapes"]


def _c05_prefix_orders():
    """User dictionaries that use 2..4 of the default shape prefixes for other namespaces, in EVERY order of insertion, with the ordinary
    namespaces inserted before or after them (dict order is what find_adequate_prefix_for_shapes_namespaces iterates)."""
    M, S, G = U.lib()
    base = list(G.NAMESPACES.items())
    out = []
    for k in (2, 3, 4):
        for perm in itertools.permutations(_DEFAULT_SHAPE_PREFIXES, k):
            taken = [("http://taken%d.org/" % _DEFAULT_SHAPE_PREFIXES.index(p), p) for p in perm]
            out.append(collections.OrderedDict(base + taken))
            out.append(collections.OrderedDict(taken + base))
    return out


def gen_C05(tier, rng):
    M, S, G = U.lib()
    n_enum, n_rand = {"selftest": (24, 24), "quick": (4000, 7000), "thorough": (20000, 40000)}[tier]
    cases = []
    modes = ("all", "A", "AB")
    orders = _c05_prefix_orders()
    # every insertion order, deterministically, on one small graph with a shape reference (all tiers)
    f1, f2 = M.IRI(G.EX + "s1"), M.IRI(G.EX + "s2")
    Tf = [M.Triple(f1, M.RDF_TYPE, M.IRI(G.CLASS_A)), M.Triple(f2, M.RDF_TYPE, M.IRI(G.CLASS_B)), M.Triple(f1, G.PROP_P, f2),
          M.Triple(f2, G.PROP_Q, M.Lit("x"))]
    for k, ns in enumerate(orders):
        cases.append({"pid": "C05", "origin": "default-shape-prefixes-taken", "input": {"format": "nt", "text": U.to_nt(Tf)},
                      "cfg": _merge({"all_classes_mode": True, "namespaces_dict": ns}, {"inverse_paths": True} if k % 2 else {}), "t": 0})
    for gi, (origin, T0) in enumerate(U.mixed_family(rng, n_enum, n_rand, big=tier == "thorough")):
        mapping = _RENAMES[gi % 3]
        T = _rename(T0, mapping)
        nt = U.to_nt(T)

        def cls(name):
            return G.EX + mapping.get(name, name)
        for j in range(3):
            mode = modes[(gi + j) % 3]
            cfg = {"all_classes_mode": True} if mode == "all" else {"target_classes": [cls("A")] if mode == "A" else [cls("A"), cls("B")]}
            if (gi + j) % 2:
                cfg["inverse_paths"] = True
            cfg.update(PL._switch_combo(rng, 0.3))
            if j == 0:
                ns = None
            elif (gi + j) % 2:
                ns = _c05_namespaces(gi // 2 + j)
            else:
                ns = orders[(gi // 2 + 7 * j) % len(orders)]
            if ns is not None:
                cfg["namespaces_dict"] = ns
            if rng.random() < 0.35:
                cfg["remove_empty_shapes"] = False
            if gi % 10 == 0 and j == 2:
                cfg["shapes_namespace"] = U.ALT_SHAPES_NS
            elif gi % 10 == 5 and j == 2:
                cfg["shapes_namespace"] = "http://shapes.ex/v1#"
            cases.append({"pid": "C05", "origin": origin, "input": {"format": "nt", "text": nt}, "cfg": cfg, "t": (0, 0.5, 1)[(gi + j) % 3]})
        if gi % 4 == 0:                                   # shape-map labels: full IRIs and prefixed names
            subjects = U.dedup([s.iri for (s, p, o) in T if isinstance(s, M.IRI)])
            node = rng.choice(subjects) if subjects else G.EX + "s1"
            sels = ["<%s>" % node, "{FOCUS a <%s>}" % cls("A"), "{FOCUS <%s> _}" % (rng.choice([p for (s, p, o) in T if p != M.RDF_TYPE] or [G.PROP_P]))]
            labels = ["<http://shapes.ex/L1>", "ex:L-1", "o:L.2", "<http://shapes.ex/deep/L3>", "<http://shapes.ex/v#L4>"]
            sm = "\n".join("%s@%s" % (sels[k], labels[(gi // 4 + k) % len(labels)]) for k in range(rng.randint(1, 3)))
            cfg = {"shape_map_raw": sm}
            if gi % 8 == 0:
                cfg["inverse_paths"] = True
            if gi % 12 == 0:
                cfg["namespaces_dict"] = _c05_namespaces(rng.randint(1, 9))
            cases.append({"pid": "C05", "origin": "shapemap", "input": {"format": "nt", "text": nt}, "cfg": cfg, "t": (0, 0.5)[gi % 8 == 4]})
        if gi % 3 == 1:                                   # shape-map shapes next to class shapes: thresholds can empty the former
            props = U.dedup([p for (s, p, o) in T if p != M.RDF_TYPE]) or [G.PROP_P]
            sm = "{FOCUS <%s> _}@<http://shapes.ex/L1>" % rng.choice(props)
            if gi % 2:
                sm += "\n{_ <%s> FOCUS}@<http://shapes.ex/L2>" % rng.choice(props)
            cases.append({"pid": "C05", "origin": "shapemap+classes", "input": {"format": "nt", "text": nt},
                          "cfg": _merge({"all_classes_mode": True, "shape_map_raw": sm}, {"remove_empty_shapes": False} if gi % 9 == 4 else {}),
                          "t": (1, 0.5, 0.51)[(gi // 3) % 3]})
    # a referenced shape-map shape that a threshold empties (its referrer survives)
    a1, n1, n2 = M.IRI(G.EX + "s1"), M.IRI(G.EX + "n1"), M.IRI(G.EX + "n2")
    Te = [M.Triple(a1, M.RDF_TYPE, M.IRI(G.CLASS_A)), M.Triple(a1, G.PROP_P, n1), M.Triple(a1, G.PROP_P, n2),
          M.Triple(n1, G.PROP_Q, M.Lit("x")), M.Triple(n2, G.PROP_Q, M.Lit("1", dt=M.XSD_INTEGER))]
    for t in (0, 0.5, 0.51, 1):
        for extra in ({}, {"remove_empty_shapes": False}, {"inverse_paths": True}):
            cases.append({"pid": "C05", "origin": "emptied-shape", "input": {"format": "nt", "text": U.to_nt(Te)},
                          "cfg": _merge({"all_classes_mode": True, "shape_map_raw": "{FOCUS o:q _}@<http://shapes.ex/L1>"}, extra), "t": t})
    # a shape-map shape that a threshold empties while a survivor refers to it ONLY through an inverse constraint (and one only directly)
    for n_props in (2, 3, 4):
        As = [M.IRI(G.EX + "a%d" % j) for j in range(n_props)]
        b1, b2, c1 = M.IRI(G.EX + "b1"), M.IRI(G.EX + "b2"), M.IRI(G.EX + "c1")
        Ti = [M.Triple(a, G.EX + "p%d" % j, b1) for j, a in enumerate(As)] + [M.Triple(c1, G.EX + "r", As[0]), M.Triple(b2, G.EX + "k", M.Lit("x")),
                                                                           M.Triple(b1, G.EX + "k", M.Lit("y"))]
        sm = "\n".join(["<%s>@<http://shapes.ex/A>" % a.iri for a in As] + ["<%s>@<http://shapes.ex/B>" % b1.iri, "<%s>@<http://shapes.ex/B>" % b2.iri,
                                                                            "<%s>@<http://shapes.ex/C>" % c1.iri])
        for t in (0, 0.5, 0.51, 1):
            for extra in ({"inverse_paths": True}, {}, {"inverse_paths": True, "remove_empty_shapes": False}):
                cases.append({"pid": "C05", "origin": "emptied-shape-referenced-through-inverse-only", "input": {"format": "nt", "text": U.to_nt(Ti)},
                              "cfg": _merge({"shape_map_raw": sm}, extra), "t": t})
    # all_classes_mode + shape map where a CLASS IRI is itself a tracked instance (typed owl:Class / selected by the map); ontology first
    OWL_CLASS = "http://www.w3.org/2002/07/owl#Class"
    cA, cB = M.IRI(G.CLASS_A), M.IRI(G.CLASS_B)
    onto = [M.Triple(cA, M.RDF_TYPE, M.IRI(OWL_CLASS)), M.Triple(cB, M.RDF_TYPE, M.IRI(OWL_CLASS)), M.Triple(cA, G.PROP_P, M.Lit("the class A")),
            M.Triple(cB, G.OTHER + "sub", cA)]
    k = 0
    for n_a in (1, 2, 3):
        for n_b in (0, 2):
            data = []
            for j in range(n_a):
                x = M.IRI(G.EX + "a%d" % j)
                data += [M.Triple(x, M.RDF_TYPE, cA), M.Triple(x, G.PROP_P, M.Lit("x%d" % j))]
            for j in range(n_b):
                x = M.IRI(G.EX + "b%d" % j)
                data += [M.Triple(x, M.RDF_TYPE, cB), M.Triple(x, G.PROP_Q, M.IRI(G.EX + "a0"))]
            for sm in ("{FOCUS ex:p _}@<http://shapes.ex/L1>", "<%s>@<http://shapes.ex/L1>" % G.CLASS_A,
                       "{FOCUS a <%s>}@<http://shapes.ex/L1>" % OWL_CLASS, "<%s>@<http://shapes.ex/L1>\n<%s>@<http://shapes.ex/L2>" % (G.CLASS_A, G.CLASS_B)):
                for first in ("ontology", "data"):
                    k += 1
                    Tc = onto + data if first == "ontology" else data + onto
                    cases.append({"pid": "C05", "origin": "class-iri-is-an-instance", "input": {"format": "nt", "text": U.to_nt(Tc)},
                                  "cfg": _merge({"all_classes_mode": True, "shape_map_raw": sm}, {"inverse_paths": True} if k % 3 == 0 else {}),
                                  "t": (0, 0, 0.5)[k % 3]})
    # disable_or_statements=False with objects in two or more shapes: `@:A OR @:B` in every position of its shape
    sC, a1, b1, c1 = M.IRI(G.EX + "s1"), M.IRI(G.EX + "a1"), M.IRI(G.EX + "b1"), M.IRI(G.EX + "c1")
    k = 0
    for n_before in (0, 1, 2):
        for n_after in (0, 1, 2):
            for three in (False, True):
                k += 1
                To = [M.Triple(sC, M.RDF_TYPE, M.IRI(G.EX + "C")), M.Triple(a1, M.RDF_TYPE, M.IRI(G.CLASS_A)), M.Triple(b1, M.RDF_TYPE, M.IRI(G.CLASS_B)),
                      M.Triple(sC, G.EX + "m", a1), M.Triple(sC, G.EX + "m", b1)]
                if three:
                    To += [M.Triple(c1, M.RDF_TYPE, M.IRI(G.EX + "D")), M.Triple(sC, G.EX + "m", c1), M.Triple(sC, G.EX + "m", M.BNode("z"))]
                # constraints are sorted by frequency, then by insertion: properties before / after `m` in the document
                pre = [M.Triple(sC, G.EX + "a%d" % j, M.Lit("x")) for j in range(n_before)]
                post = [M.Triple(sC, G.EX + "z%d" % j, M.Lit("y")) for j in range(n_after)]
                Tk = To[:3] + pre + To[3:] + post
                for extra in ({}, {"allow_redundant_or": True}, {"inverse_paths": True}):
                    cases.append({"pid": "C05", "origin": "or-statement-position", "input": {"format": "nt", "text": U.to_nt(Tk)},
                                  "cfg": _merge({"all_classes_mode": True, "disable_or_statements": False}, extra), "t": 0})
    # shape-map labels in a HASH namespace while namespaces_dict only declares the enclosing slash namespace
    for k, (ns_decl, labels) in enumerate([
            ({"http://shapes.example/": "sx"}, ["http://shapes.example/schema#PersonShape", "http://shapes.example/schema#OrgShape"]),
            ({"http://shapes.example/": "sx", "http://shapes.example/schema#": "sch"}, ["http://shapes.example/schema#PersonShape", "http://shapes.example/schema#OrgShape"]),
            ({"http://shapes.example/": "sx"}, ["http://shapes.example/a/PersonShape", "http://shapes.example/b/PersonShape"]),
            ({"http://shapes.example/": "sx", "http://shapes.example/schema": "sy"}, ["http://shapes.example/schema#P", "http://shapes.example/schema/P"]),
            ({"http://shapes.example/schema#": "sch", "http://shapes.example/": "sx"}, ["http://shapes.example/schema#P", "http://shapes.example/Q"])]):
        n1, n2 = M.IRI(G.EX + "s1"), M.IRI(G.EX + "s2")
        Th = [M.Triple(n1, G.PROP_P, n2), M.Triple(n2, G.PROP_Q, M.Lit("x")), M.Triple(n2, G.PROP_P, n1)]
        sm = "<%s>@<%s>\n<%s>@<%s>" % (n1.iri, labels[0], n2.iri, labels[1])
        for extra in ({}, {"inverse_paths": True}, {"all_classes_mode": True}):
            cases.append({"pid": "C05", "origin": "hash-namespace-labels", "input": {"format": "nt", "text": U.to_nt(Th)},
                          "cfg": _merge({"shape_map_raw": sm, "namespaces_dict": _merge(dict(G.NAMESPACES), ns_decl)}, extra), "t": 0})
    # blank-node classes (printed as [<_:x>]): a handful, to observe
    s1, s2 = M.IRI(G.EX + "s1"), M.IRI(G.EX + "s2")
    Tb = [M.Triple(s1, M.RDF_TYPE, M.BNode("c")), M.Triple(s2, M.RDF_TYPE, M.BNode("c")), M.Triple(s1, M.RDF_TYPE, M.IRI(G.CLASS_A)),
          M.Triple(s1, G.PROP_P, M.Lit("x")), M.Triple(s2, G.PROP_Q, s1)]
    for inv in (False, True):
        cases.append({"pid": "C05", "origin": "blank-node-class", "input": {"format": "nt", "text": U.to_nt(Tb)},
                      "cfg": _merge({"all_classes_mode": True}, {"inverse_paths": True} if inv else {}), "t": 0})
    return cases


# ================================================================================================
# C11 -- ShExC and SHACL state the same constraints
# ================================================================================================
def _vclass(value):
    return value[0] if value[0] != "or" else "or"


def check_C11(case, B):
    M, S, G = U.lib()
    nt, cfg, t = case["input"]["text"], case["cfg"], case.get("t", 0)

    def emit(key, what, **kw):
        B.emit(key, what, _case_of(case), **kw)
    xh = case.get("xhistory")                  # [[format, threshold], ...] on ONE Shaper; both formats occur at the final threshold
    try:
        sh = B.call(lambda: SU.new_shaper(case["input"], cfg))
        B.evaluations -= 1
        if xh:
            last = {}
            for fmt, tt in xh:
                last[fmt] = (tt, B.call(lambda fmt=fmt, tt=tt: SU._shex(sh, fmt, tt)))
            t = xh[-1][1]
            if any(last.get(f, (None,))[0] != t for f in (SHEXC, SHACL)):
                B.notes["xhistory without both formats at the final threshold (skipped)"] += 1
                return
            text, ttl = last[SHEXC][1], last[SHACL][1]
            # the expectation from the data at the final threshold: fresh Shapers (both documents may be stale together)
            f_text = B.call(lambda: SU._shex(SU.new_shaper(case["input"], cfg), SHEXC, t))
            f_ttl = B.call(lambda: SU._shex(SU.new_shaper(case["input"], cfg), SHACL, t))
            if text != f_text:
                emit("C11:call-history:stale-shexc", "after the calls %r on one Shaper the ShExC document for threshold %r differs from the one a fresh "
                     "Shaper extracts from the same data at that threshold" % (xh, t), shexc=text[:1200], fresh=f_text[:1200])
            if SU.History.canon(SHACL, ttl) != SU.History.canon(SHACL, f_ttl):
                emit("C11:call-history:stale-shacl", "after the calls %r on one Shaper the SHACL document for threshold %r differs from the one a fresh "
                     "Shaper extracts from the same data at that threshold" % (xh, t), shacl=ttl[:1200], fresh=f_ttl[:1200])
        else:
            text = B.call(lambda: SU.shex(sh, SHEXC, t))
            ttl = B.call(lambda: SU.shex(sh, SHACL, t))
        doc = B.parse(text)
    except U.Skipped:
        return
    try:
        shapes, dangling, problems = SU.parse_shacl(ttl)
    except SU.ShaclError as exc:
        B.crashes["unparsable-shacl"] += 1
        B.notes["SHACL output does not parse (C05's business): %s" % str(exc)[:80]] += 1
        return
    nd = U.norm_doc(doc)
    if any(s["cons"] for s in nd):
        B.mark(nt, cfg, t)
    spec = U.spec_for(U.parse_nt(nt), cfg)
    l2c = PL._l2c(spec, cfg.get("shapes_namespace", U.SHAPES_NS))
    for C in cfg.get("target_classes") or []:              # requested classes without instances (remove_empty_shapes=False) keep their shape
        l2c.setdefault(U.label_of(U.expand_class(C), cfg.get("shapes_namespace", U.SHAPES_NS)), U.expand_class(C))
    labels = [s["label"] for s in nd]
    for lab in sorted(set(labels) - set(shapes)):
        emit("C11:shape-set:missing-in-shacl", "ShExC defines shape %s, SHACL has no such sh:NodeShape (has %s)" % (lab, sorted(shapes)),
             shexc=text[:1200], shacl=ttl[:1200])
    for lab in sorted(set(shapes) - set(labels)):
        emit("C11:shape-set:extra-in-shacl", "SHACL declares node shape %s that ShExC does not define (has %s)" % (lab, sorted(labels)),
             shexc=text[:1200], shacl=ttl[:1200])
    for sh_ in nd:
        lab = sh_["label"]
        if lab not in shapes:
            continue
        d = shapes[lab]
        C = l2c.get(lab)
        if C is not None and d["target"] != [C]:
            emit("C11:target-class:%s" % ("missing" if not d["target"] else "different"),
                 "shape %s: sh:targetClass %s, expected [%s]" % (lab, d["target"], C), shacl=ttl[:1200])
        want = collections.Counter()
        for c in sh_["cons"]:
            mn, mx = SU.expected_counts(c["card"])
            want[("inverse" if c["inv"] else "direct", c["p"], SU.expected_restriction(c["value"]), mn, mx)] += 1
        got = collections.Counter((p["dir"], p["p"], p["restr"], p["min"], p["max"]) for p in d["props"])
        if want == got:
            continue
        missing = list((want - got).elements())
        extra = list((got - want).elements())
        by_line = dict(((("inverse" if c["inv"] else "direct"), c["p"], SU.expected_restriction(c["value"])), c) for c in sh_["cons"])
        for w in missing:
            c = by_line.get(w[:3])
            vc = _vclass(c["value"]) if c else "?"
            cc = U.cclass(c["card"]) if c else "?"
            same_restr = [x for x in extra if x[:3] == w[:3]]
            same_counts = [x for x in extra if x[:2] == w[:2] and x[3:] == w[3:]]
            same_pred = [x for x in extra if x[1] == w[1]]
            if same_restr:
                x = same_restr[0]
                extra.remove(x)
                always_one = w[1] == spec.pi and (x[3], x[4]) == (1, 1)
                emit("C11:cardinality:instantiation-constraint-always-exactly-one" if always_one else "C11:cardinality:%s:%s" % (cc, vc), "shape %s, %s %s %s: ShExC cardinality %r means min/max %r/%r, SHACL has %r/%r [%s]"
                     % (lab, w[0], w[1], w[2], c["card"] if c else None, w[3], w[4], x[3], x[4], c["raw"].strip() if c else ""),
                     shexc=text[:1200], shacl=ttl[:1200])
            elif same_counts:
                x = same_counts[0]
                extra.remove(x)
                emit("C11:value-restriction:%s" % vc, "shape %s, %s %s: ShExC value %r should be %r, SHACL has %r"
                     % (lab, w[0], w[1], c["value"] if c else None, w[2], x[2]), shexc=text[:1200], shacl=ttl[:1200])
            elif same_pred:
                x = same_pred[0]
                extra.remove(x)
                emit("C11:property-shape-differs:%s" % vc, "shape %s: ShExC constraint %r corresponds to %r, closest SHACL property shape is %r"
                     % (lab, c["raw"].strip() if c else w, w, x), shexc=text[:1200], shacl=ttl[:1200])
            else:
                emit("C11:missing-property-shape:%s" % vc, "shape %s: no SHACL property shape for ShExC constraint %r (%r)"
                     % (lab, c["raw"].strip() if c else w, w), shexc=text[:1200], shacl=ttl[:1200])
        for x in extra:
            emit("C11:extra-property-shape:%s" % (x[2][0][0] if x[2] else "unrestricted"),
                 "shape %s: SHACL property shape %r has no ShExC counterpart" % (lab, x), shexc=text[:1200], shacl=ttl[:1200])


def gen_C11(tier, rng):
    M, S, G = U.lib()
    n_enum, n_rand = {"selftest": (24, 24), "quick": (4000, 7000), "thorough": (20000, 40000)}[tier]
    cases = []
    modes = ("all", "A", "AB")
    for gi, (origin, T) in enumerate(U.mixed_family(rng, n_enum, n_rand, big=tier == "thorough")):
        nt = U.to_nt(T)
        for j in range(3):
            cfg = _merge(PL._mode_cfg(modes[(gi + j) % 3]), {"inverse_paths": True} if (gi + j) % 2 else {},
                         {} if j == 0 else PL._switch_combo(rng, 0.5))
            cases.append({"pid": "C11", "origin": origin, "input": {"format": "nt", "text": nt}, "cfg": cfg, "t": (0, 0.5, 1)[(gi + 2 * j) % 3]})
            if j == 1 and gi % (4 if tier == "selftest" else 25) == 2:       # a requested class without instances keeps an empty shape
                cfg2 = _merge(dict((k_, v_) for k_, v_ in cfg.items() if k_ != "all_classes_mode"),
                              {"target_classes": [G.CLASS_A, G.EX + "Robot"] if gi % 2 else [G.EX + "Robot", G.CLASS_B, G.OTHER + "Ghost"],
                               "remove_empty_shapes": False})
                cases.append({"pid": "C11", "origin": "target-class-without-instances", "input": {"format": "nt", "text": nt}, "cfg": cfg2,
                              "t": (0, 0.5, 1)[gi % 3]})
            if j == 0 and gi % (4 if tier == "selftest" else 20) == 3:       # cross-format call history on one Shaper
                t1, t2 = ((0, 0.5), (0, 1), (0.5, 1), (1, 0), (0.5, 0), (1, 0.5))[(gi // 4) % 6]
                seqs = ([[SHACL, t1], [SHACL, t2], [SHEXC, t2]], [[SHEXC, t1], [SHACL, t1], [SHEXC, t2], [SHACL, t2]],
                        [[SHEXC, t1], [SHEXC, t2], [SHACL, t2]], [[SHACL, t1], [SHEXC, t1], [SHACL, t2], [SHEXC, t2]])
                cases.append({"pid": "C11", "origin": "cross-format-history", "input": {"format": "nt", "text": nt}, "cfg": cfg, "t": t2,
                              "xhistory": seqs[(gi // 20 + gi) % 4]})
    return cases


CHECKS = {"C04": check_C04, "C05": check_C05, "C11": check_C11}
GENS = {"C04": gen_C04, "C05": gen_C05, "C11": gen_C11}
RULES = {
    "C04": "one evaluation = one fresh Shaper + one call (shex_graph ShExC / shex_graph SHACL / profile_graph(string_output=True)) on (input text in "
           "nt / turtle (rdflib) / turtle_iter, sampled configuration, threshold in {0,.5,1}); finding = any exception or a 10 s wall-clock timeout, "
           "keyed by exception type and innermost sheXer frame; ValueError of the constructor's own _check_* validation is a rejected configuration",
    "C05": "one Shaper per (graph, config, threshold): ShExC parsed with lib/shexc_parse + check_wellformed (prefixes declared/functional, labels "
           "unique, references resolve; problems inside comments ignored); SHACL parsed by rdflib: every sh:node object typed sh:NodeShape, every "
           "property shape typed and with exactly one sh:path or one nested sh:inversePath",
    "C11": "one Shaper per (graph, config, threshold), shex_graph twice (ShExC then SHACL): same shape IRIs, sh:targetClass == class, and per shape "
           "the multiset of (direction, predicate, value restriction, minCount, maxCount) equal under the table of the statement",
}
BOUNDS = {
    "C04": "adversarial mixes (1-4 value kinds of one property out of untyped/typed IRIs and blank nodes, literals; 1-2 subjects; featureless "
           "instances; single-instance classes) + seeded random graphs (blank nodes 0/25/50 %) + hand-written specials (language tags, literal / "
           "blank-node class, urn: IRIs, bare numbers, escaped literals; "
           "13 sets of non-hierarchical instance IRIs (urn:, tag:, mailto:, tel:, mixed with http) x detect_minimal_iri x examples_mode x 3 formats)",
    "C05": "pipeline graph families with IRIs renamed to local names with '-', inner '.', leading digits; 11 namespaces_dict variants colliding with "
           "'', weso-s, shapes, w-shapes, sh; custom shapes_namespace; shape maps with <IRI> and prefixed labels; remove_empty_shapes on/off",
    "C11": "pipeline graph families (C01) x target modes x inverse on/off x thresholds {0,.5,1} x sampled switch combinations, disable_or_statements default",
}


# ================================================================================================
# C03 -- conformance in all-compliant mode (strict, schema-consistent domain)
# ================================================================================================
def strict_graph(rng):
    """Schema-consistent graph: per (class, property, direction) the non-literal neighbours are homogeneous in node kind
    and either all untyped or all instances of ONE single-typed class.  -> (T, classes)"""
    M, S, G = U.lib()
    ty = M.RDF_TYPE
    n_classes = rng.randint(1, 3)
    classes = []
    for i in range(n_classes):
        kind = "BNode" if rng.random() < 0.2 else "IRI"
        n = rng.randint(1, 4)
        inst = [M.BNode("k%di%d" % (i, j)) if kind == "BNode" else M.IRI((G.EX if (i + j) % 3 else G.OTHER) + "k%di%d" % (i, j)) for j in range(n)]
        classes.append({"iri": G.EX + "K%d" % i, "kind": kind, "inst": inst, "multi": False})
    if rng.random() < 0.3:
        c = rng.choice(classes)
        c["multi"] = True
    single = [c for c in classes if not c["multi"]]
    lits = {M.XSD_STRING: [M.Lit("x"), M.Lit("y"), M.Lit("z")],
            M.XSD_INTEGER: [M.Lit(str(i), dt=M.XSD_INTEGER) for i in (1, 2, 3)],
            U.DT_FOO: [M.Lit("v", dt=U.DT_FOO), M.Lit("w", dt=U.DT_FOO), M.Lit("vv", dt=U.DT_FOO)]}
    untyped = {"IRI": [M.IRI(G.OTHER + "u%d" % i) for i in range(3)], "BNode": [M.BNode("v%d" % i) for i in range(3)]}
    T = []
    for c in classes:
        for x in c["inst"]:
            T.append(M.Triple(x, ty, M.IRI(c["iri"])))
    if any(c["multi"] for c in classes):
        c = [c for c in classes if c["multi"]][0]
        extra = G.EX + "X"
        sub = [x for x in c["inst"] if rng.random() < 0.6] or c["inst"][:1]
        for x in sub:
            T.append(M.Triple(x, ty, M.IRI(extra)))

    def dts():
        return rng.sample(sorted(lits), rng.randint(1, 3))
    plans = []                                          # (class, property, pool of values, presence, max count)
    lit_props = [G.EX + "lp%d" % i for i in range(3)]
    for c in classes:
        for p in rng.sample(lit_props, rng.randint(0, 2)):
            pool = [v for dt in dts() for v in lits[dt]]
            plans.append((c, p, pool))
    n_obj = rng.randint(1, 3)
    for i in range(n_obj):
        p = (G.EX if i % 2 else G.OTHER) + "op%d" % i
        c = rng.choice(classes)
        if single and not c["multi"] and rng.random() < 0.6:
            pool = list(rng.choice(single)["inst"])
        else:
            pool = list(untyped[rng.choice(["IRI", "IRI", "BNode"])])
        if rng.random() < 0.3:
            pool += [v for dt in dts()[:2] for v in lits[dt]]
        plans.append((c, p, pool))
    for (c, p, pool) in plans:
        presence = rng.choice([1.0, 1.0, 0.7, 0.4])
        max_count = rng.choice([1, 1, 2, 3])
        for x in c["inst"]:
            if rng.random() < presence:
                for v in rng.sample(pool, min(len(pool), rng.randint(1, max_count))):
                    T.append(M.Triple(x, p, v))
    if rng.random() < 0.4:                              # untyped subjects pointing to instances of one class (own property)
        c = rng.choice(classes)
        p = G.EX + "ip"
        subs = untyped[rng.choice(["IRI", "BNode"])]
        for x in c["inst"]:
            if rng.random() < 0.7:
                for s in rng.sample(subs, rng.randint(1, 2)):
                    T.append(M.Triple(s, p, x))
    T = U.dedup(T)
    rng.shuffle(T)
    return T, [c["iri"] for c in classes]


def _pre_relaxation(c, cfg):
    """(cardinality before the all-compliant relaxation, problem or None)."""
    card = c["card"]
    if card not in ("?", "*"):
        return card, None
    if not c["comments"]:
        return None, "relaxed constraint without any figure comment"
    k0 = c["comments"][0]
    if k0["value"] != c["value"]:
        return None, "first figure comment of the relaxed constraint is about %r, not about its own value %r" % (k0["value"], c["value"])
    pre = k0["card"]
    if cfg.get("disable_exact_cardinality") and isinstance(pre, int) and pre > 1:
        pre = "+"
    return pre, None


REPORT_DUPLICATE_TYPE_LINES = False      # pre-existing defect of the N-Triples path (see notes): counted, not reported


def check_C03(case, B):
    M, S, G = U.lib()
    nt = case["nt"]
    lines = U.parse_nt(nt)                   # one entry per statement LINE (duplicated lines kept)
    T = U.dedup(lines)
    dup = case.get("duplicates")             # None | "ordinary" | "type"
    inp = {"format": "nt", "text": nt}

    def run(cfg):
        text = B.call(lambda: SU.shex(SU.new_shaper(inp, cfg), SHEXC, 0))
        nd = U.norm_doc(B.parse(text))
        if any(sh["cons"] for sh in nd):
            B.mark(nt, cfg)
        return nd
    for cfg in case["cfgs"]:
        cfg_on = _merge(cfg, {"all_instances_are_compliant_mode": True, "keep_less_specific": True})

        def emit(key, what, cfg=cfg, **kw):
            B.emit(key, what, _merge(_case_of(case), {"cfgs": [cfg]}), **kw)
        try:
            nd = run(cfg_on)
        except U.Skipped:
            continue
        spec = U.spec_for(T, cfg_on)
        l2c = PL._l2c(spec)
        # duplicated ordinary lines: sheXer's N-Triples path counts statement lines, so the validator is given the lines (multiset view);
        # the set view (RDF semantics) is only counted in the notes: the unchanged tree already miscounts there
        V = SU.Validator(lines if dup else T, nd)
        ok = V.solve()
        if dup:
            Vs = SU.Validator(T, nd)
            oks = Vs.solve()
            bad = sum(1 for sh in nd for x in spec.inst.get(l2c.get(sh["label"]), []) if (x, sh["label"]) not in oks)
            if bad:
                B.notes["duplicated %s lines (N-Triples): instance(s) nonconforming under RDF set semantics (pre-existing: lines are counted, "
                        "not triples) -- not reported" % dup] += bad
        for sh in nd:
            C = l2c.get(sh["label"])
            if C is None:
                continue
            for x in spec.inst.get(C, []):
                if (x, sh["label"]) in ok:
                    continue
                rounds, (cat, detail) = V.reason[(x, sh["label"])]
                if cat == "ref-to-nonconforming-node":
                    B.notes["cascade: instance fails only because a referenced instance fails"] += 1
                    continue
                if dup == "type" and not REPORT_DUPLICATE_TYPE_LINES:
                    B.notes["duplicated rdf:type lines (N-Triples): instance nonconforming even when lines are counted (pre-existing: an instance "
                            "typed twice is counted as two instances and doubles shape-reference counts) -- not reported"] += 1
                    continue
                emit("C03:nonconforming:%s" % cat, "node %s (instance of %s) does not conform to %s: %s %r%s"
                     % (M.node_to_nt(x), C, sh["label"], cat, detail, " [input with duplicated %s lines, lines counted]" % dup if dup else ""),
                     node=M.node_to_nt(x), shape=sh["label"], detail=detail)
            for c in sh["cons"]:
                if c["card"] == "?" and cfg_on.get("allow_opt_cardinality") is False:
                    emit("C03:opt-cardinality-although-disallowed", "%s: %r printed with allow_opt_cardinality=False" % (sh["label"], c["raw"].strip()))
        # mode off == pre-relaxation cardinalities
        try:
            nd_off = run(_merge(cfg_on, {"all_instances_are_compliant_mode": False}))
        except U.Skipped:
            continue
        on, off = PL._by_value(nd), PL._by_value(nd_off)
        if on is None or off is None:
            B.notes["two constraints with one (direction, predicate, value): mode-off comparison skipped"] += 1
            continue
        if set(on) != set(off) or any(set(on[lab]) != set(off[lab]) for lab in on):
            emit("C03:mode-off:constraint-set-changed", "all_instances_are_compliant_mode off/on give different shapes or (direction, predicate, value) sets",
                 on=repr(sorted((lab, sorted(on[lab], key=repr)) for lab in on))[:600], off=repr(sorted((lab, sorted(off[lab], key=repr)) for lab in off))[:600])
            continue
        for lab in on:
            for k, c1 in on[lab].items():
                pre, problem = _pre_relaxation(c1, cfg_on)
                if problem:
                    emit("C03:mode-off:no-own-figure-comment", "%s %r: %s" % (lab, k, problem))
                    continue
                c0 = off[lab][k]
                if c0["card"] != pre:
                    emit("C03:mode-off:cardinality-changed:%s" % c1["value"][0],
                         "%s %r: with the mode on the constraint is %r (cardinality before relaxation %r), with the mode off it is %r"
                         % (lab, k, c1["raw"].strip(), pre, c0["raw"].strip()))


def _duplicate_lines(nt, rng, which):
    """Repeats 1-3 statement lines of the N-Triples text (rdf:type lines or ordinary ones) at random positions."""
    M = U.lib()[0]
    lines = [l for l in nt.split("\n") if l.strip()]
    is_type = lambda l: ("<%s>" % M.RDF_TYPE) in l
    pool = [l for l in lines if is_type(l) == (which == "type")]
    if not pool:
        return None
    picked = rng.sample(pool, min(len(pool), rng.randint(1, 3)))
    links = [l for l in pool if not l.rstrip(" .").endswith('"') and '"^^' not in l]
    if which != "type" and links and not any(l in links for l in picked):
        picked[0] = rng.choice(links)                      # at least one repeated line has a non-literal object when there is one
    for l in picked:
        for _ in range(rng.choice([1, 1, 2])):
            lines.insert(rng.randint(0, len(lines)), l)
    return "\n".join(lines) + "\n"


def gen_C03(tier, rng):
    n = {"selftest": 40, "quick": 12000, "thorough": 40000}[tier]
    switches = [dict(zip(("allow_opt_cardinality", "disable_exact_cardinality", "discard_useless_constraints_with_positive_closure", "inverse_paths"), v))
                for v in itertools.product((True, False), repeat=4)]
    cases = []
    for gi in range(n):
        T, classes = strict_graph(rng)
        if gi % 4 == 3 and len(classes) > 1:
            mode = {"target_classes": rng.sample(classes, rng.randint(1, len(classes) - 1))}
        else:
            mode = {"all_classes_mode": True}
        pick = switches if tier == "thorough" else [switches[(gi + k * 5) % 16] for k in range(6)]
        cases.append({"pid": "C03", "origin": "strict", "nt": U.to_nt(T), "cfgs": [_merge(mode, sw) for sw in pick]})
        if gi % (2 if tier == "selftest" else 12) == 1:           # duplicated statement lines
            which = "type" if (gi // (2 if tier == "selftest" else 12)) % 3 == 0 else "ordinary"
            nt2 = _duplicate_lines(U.to_nt(T), rng, which)
            if nt2 is not None:
                cases.append({"pid": "C03", "origin": "duplicated-%s-lines" % which, "nt": nt2, "duplicates": which,
                              "cfgs": [_merge(mode, sw) for sw in pick[:3]]})
    return cases


# ================================================================================================
# C17 -- IRI stems and examples
# ================================================================================================
_C17_NAMESPACES = [
    ["https://a.org/x/"], ["http://a.org/x#"], ["urn:x:"], ["https://a.org/x/", "https://a.org/y/"], ["https://a.org/x/", "https://a.org/x/sub/"],
    ["https://a.org/", "https://b.org/"], ["http://a.org/", "http://b.org/"], ["https://a.org/x", "https://a.org/y"], ["urn:x:", "urn:y:"],
    ["urn:x:a:", "urn:x:b:"], ["https://a.org/x/", "http://a.org/x/"], ["https://a.org/data/item-", "https://a.org/data/item_"],
    ["https://a.org/x/", "https://a.org/y/", "https://a.org/z/"], ["https://a.org/x/", "https://a.org/y/", "https://b.org/x/"],
    ["http://a.org/v#", "http://a.org/v#sub/", "http://a.org/w#"], ["https://a.org/x/", "urn:x:", "http://a.org/"], ["http://a.org/x/", "http://a.org/xy/"],
    ["https://a.org/x/a", "https://a.org/x/a/b"], ["http://h/", "http://i/"], ["https://a.b/", "https://a.c/"],
    # the last separator of the common prefix is a ':' that comes AFTER the last '/' or '#'
    ["http://identifiers.org/taxonomy:"], ["http://localhost:8080/a/", "http://localhost:8081/a/"], ["https://a.org/doc#sec:intro:"],
    ["https://a.org/doc#sec:intro:", "https://a.org/doc#sec:outro:"], ["http://identifiers.org/taxonomy:9", "http://identifiers.org/taxonomy:1"],
    ["https://a.org/x/db:rec:", "https://a.org/x/db:ref:"],
]


def c17_graph(rng, nss):
    """IRI instances drawn from the given namespaces; literal, IRI and instance-to-instance values."""
    M, S, G = U.lib()
    ty = M.RDF_TYPE
    classes = [G.EX + "A", G.EX + "B"][:rng.randint(1, 2)]
    inst = {}
    T = []
    for ci, C in enumerate(classes):
        n = rng.randint(1, 4)
        xs = []
        for j in range(n):
            ns = nss[j % len(nss)] if rng.random() < 0.8 else rng.choice(nss)
            xs.append(M.IRI(ns + rng.choice(["i", "item", "n", ""]) + "%d%d" % (ci, j)))
        inst[C] = xs
        for x in xs:
            T.append(M.Triple(x, ty, M.IRI(C)))
    if len(classes) == 2 and rng.random() < 0.3:
        T.append(M.Triple(inst[classes[0]][0], ty, M.IRI(classes[1])))
    everyone = [x for C in classes for x in inst[C]]
    vals = [M.Lit("x"), M.Lit("y y"), M.Lit("1", dt=M.XSD_INTEGER), M.Lit("v", dt=U.DT_FOO), M.IRI(G.OTHER + "u1"), M.IRI("https://c.org/deep/u2"),
            M.IRI("urn:x:u3"), M.Lit(" Al "), M.Lit("Bobby  "), M.Lit("  Caz")]
    props = [G.EX + "p", G.OTHER + "q", G.EX + "sub/r"]
    for _ in range(rng.randint(2, 10)):
        s = rng.choice(everyone)
        o = rng.choice(everyone) if rng.random() < 0.35 else rng.choice(vals)
        T.append(M.Triple(s, rng.choice(props), o))
    if rng.random() < 0.3:
        T.append(M.Triple(M.IRI(G.OTHER + "w1"), rng.choice(props), rng.choice(everyone)))
    T = U.dedup(T)
    rng.shuffle(T)
    return T


def _example_term(tok, prefixes):
    """('iri', IRI) | ('lit', lexical form) | ('raw', text)."""
    tok = tok.strip()
    if tok.startswith("<") and tok.endswith(">"):
        return ("iri", tok[1:-1])
    if tok.startswith('"') and tok.endswith('"') and len(tok) >= 2:
        return ("lit", tok[1:-1])
    m = re.match(r"^([A-Za-z][\w.\-]*|):(.*)$", tok)
    if m and m.group(1) in prefixes:
        return ("iri", prefixes[m.group(1)] + m.group(2))
    return ("raw", tok)


def _resolve_example(term, values, prefixes):
    """values: nodes.  -> (matched?, rendering problem or None)."""
    M = U.lib()[0]
    iris = set(v.iri for v in values if isinstance(v, M.IRI))
    bnodes = set("_:" + v.label for v in values if isinstance(v, M.BNode))
    lex = set(v.lex for v in values if M.is_literal(v))
    kind, s = term
    if kind == "iri":
        return (s in iris), None
    if kind == "lit":
        if s in lex:
            return True, None
        if s in iris:
            return True, "full-iri"
        t2 = _example_term(s, prefixes)
        if t2[0] == "iri" and t2[1] in iris:
            return True, "prefixed-iri"
        if s in bnodes or "_:" + s in bnodes:
            return True, "blank-node"
        return False, None
    return (s in iris or s in lex), "unquoted"


def check_C17(case, B):
    e = U.env()
    M, S, G = U.lib()
    nt, base, inv = case["nt"], case["base"], bool(case.get("inverse"))
    T = U.parse_nt(nt)
    inp = {"format": case.get("format", "nt"), "text": case.get("text", nt)}      # "text": the same triples in another syntax (rdflib path)
    base = _merge(base, {"inverse_paths": True} if inv else {})
    spec = U.spec_for(T, base)
    l2c = PL._l2c(spec)

    def emit(key, what, **kw):
        B.emit(key, what, _case_of(case), **kw)

    def run(cfg, fmt=SHEXC, shaper=None):
        box = [shaper]

        def go():
            if box[0] is None:
                box[0] = SU.new_shaper(inp, cfg)
            return SU.shex(box[0], fmt, 0)
        text = B.call(go)
        return box[0], text
    try:
        shp0, t0 = run(base)
        d0 = B.parse(t0)
    except U.Skipped:
        return
    s0 = SU.structure(U.norm_doc(d0))
    if any(s0.values()):
        B.mark(nt, base)

    def same_structure(doc, opt, text):
        s1 = SU.structure(U.norm_doc(doc))
        if s1 != s0:
            emit("C17:structure-changed:%s" % opt, "%s changes shapes/constraints/cardinalities: %r" % (opt, SU.structure_diff(s0, s1)[:3]),
                 output=text[:1200], baseline=t0[:1200])

    def check_stems(doc, text, opt):
        stems = {}
        for sh in doc.shapes:
            C = l2c.get(sh.label_iri)
            if C is None:
                if sh.n_instances == 0 or not sh.constraints:          # a shape without instances (remove_empty_shapes=False): no stem
                    stems[sh.label_iri] = sh.min_iri
                    if sh.min_iri is not None:
                        emit("C17:stem-for-shape-without-instances", "stem %r printed for %s, which has no instance" % (sh.min_iri, sh.label_iri),
                             shape=sh.label_iri, printed=sh.min_iri, option=opt, output=text[:1200])
                continue
            iris = [x.iri for x in spec.inst.get(C, []) if isinstance(x, M.IRI)]
            if not iris or len(iris) != len(spec.inst.get(C, [])):
                continue
            st, want, longest = sh.min_iri, SU.expected_stem(iris), SU.longest_stem(iris)
            stems[sh.label_iri] = st
            ctx = dict(shape=sh.label_iri, instances=iris, printed=st, expected=want, option=opt)
            if st is None:
                if want is not None:
                    emit("C17:stem-missing", "no stem printed for %s although every instance starts with %r" % (sh.label_iri, want), output=text[:1200], **ctx)
                continue
            if not all(i.startswith(st) for i in iris):
                emit("C17:stem-not-a-prefix", "stem %r of %s is not a prefix of instance(s) %r" % (st, sh.label_iri, [i for i in iris if not i.startswith(st)]), **ctx)
                continue
            if st[-1:] not in SU.SEPARATORS:
                emit("C17:stem-not-at-separator", "stem %r of %s does not end at ':', '/' or '#'" % (st, sh.label_iri), **ctx)
                continue
            if SU.bare_scheme(st) is not None:
                emit("C17:stem-is-bare-scheme:%s" % SU.bare_scheme(st).lower(), "stem %r of %s is just a scheme (instances %r)" % (st, sh.label_iri, iris), **ctx)
                continue
            if len(st) < 3:
                emit("C17:stem-too-short", "stem %r of %s is shorter than three characters" % (st, sh.label_iri), **ctx)
                continue
            if st != longest:
                emit("C17:stem-not-longest", "stem %r of %s, the longest common stem ending at a separator is %r" % (st, sh.label_iri, longest), **ctx)
        return stems

    def check_examples(doc, text, mode):
        want_shape, want_cons = mode in ("shape", "all"), mode in ("cons", "all")
        for sh in doc.shapes:
            C = l2c.get(sh.label_iri)
            if C is None:
                continue
            insts = spec.inst.get(C, [])
            ctx = dict(shape=sh.label_iri, examples_mode=mode, output=text[:1500])
            if want_shape:
                if sh.example is None:
                    emit("C17:example-missing:shape", "no example printed for shape %s" % sh.label_iri, **ctx)
                else:
                    okx, how = _resolve_example(_example_term(sh.example, doc.prefixes), insts, doc.prefixes)
                    if not okx:
                        emit("C17:example-not-an-instance", "example %r of shape %s is none of its instances %r"
                             % (sh.example, sh.label_iri, [M.node_to_nt(x) for x in insts]), **ctx)
                    elif how:
                        pass   # rendering of the term (IRI written as a string literal) is outside C17's statement: the example IS an instance
            elif sh.example is not None:
                emit("C17:example-unexpected:shape", "shape example %r printed with examples_mode=%r" % (sh.example, mode), **ctx)
            for c in sh.constraints:
                exs = [k.raw for k in c.comments if k.raw.startswith("// rdfs:comment")]
                if c.predicate == spec.pi:
                    continue
                if not want_cons:
                    if exs:
                        emit("C17:example-unexpected:constraint", "constraint example %r printed with examples_mode=%r" % (exs[0], mode), **ctx)
                    continue
                if len(exs) != 1:
                    emit("C17:example-%s:constraint" % ("missing" if not exs else "repeated"), "%d example comments for %r of %s" % (len(exs), c.raw.strip(), sh.label_iri), **ctx)
                    continue
                tok = exs[0][len("// rdfs:comment"):].strip()
                if tok.endswith(";"):
                    tok = tok[:-1].strip()
                if c.inverse:
                    vals = [s for (s, p, o) in T if p == c.predicate and o in insts]
                else:
                    vals = [o for (s, p, o) in T if p == c.predicate and s in insts]
                okx, how = _resolve_example(_example_term(tok, doc.prefixes), vals, doc.prefixes)
                d = "inverse" if c.inverse else "direct"
                if not okx:
                    emit("C17:example-not-a-value:%s" % d, "example %r of %r in %s is no %s value of that property on an instance; values: %r"
                         % (tok, c.raw.strip(), sh.label_iri, d, sorted(set(M.node_to_nt(v) for v in vals))), **ctx)
                elif how:
                    pass       # the example IS an actual value of the property; that an IRI value is rendered as a string literal
                               # ('"o:u1"') is a cosmetic defect outside C17's statement (recorded in DESIGN.md), not reported

    # detect_minimal_iri: ShExC and SHACL of one Shaper
    try:
        shp, t1 = run(_merge(base, {"detect_minimal_iri": True}))
        d1 = B.parse(t1)
        same_structure(d1, "detect_minimal_iri", t1)
        stems = check_stems(d1, t1, "detect_minimal_iri")
        _, ttl = run(None, SHACL, shp)
        try:
            shapes, _, _ = SU.parse_shacl(ttl)
        except SU.ShaclError:
            shapes = None
        if shapes is not None and (case.get("shacl_base") or any(st is None for st in stems.values())):
            # SHACL with the option == SHACL without it, apart from sh:pattern
            try:
                _, ttl0 = run(None, SHACL, shp0)
                shapes0, _, _ = SU.parse_shacl(ttl0)
                flat = lambda sh_: sorted((lab, d["target"], sorted(((p["dir"], p["p"], p["restr"], p["min"], p["max"]) for p in d["props"]), key=repr))
                                          for lab, d in sh_.items())
                if flat(shapes) != flat(shapes0):
                    emit("C17:structure-changed:detect_minimal_iri:shacl", "SHACL: detect_minimal_iri changes node shapes / property shapes (besides "
                         "sh:pattern)", shacl=ttl[:1500], baseline=ttl0[:1500])
            except (U.Skipped, SU.ShaclError):
                pass
        if shapes is not None:
            for lab, st in stems.items():
                pat = shapes.get(lab, {}).get("pattern", [])
                if lab not in l2c and st is None and pat:
                    emit("C17:stem-for-shape-without-instances", "SHACL: sh:pattern %r for %s, which has no instance" % (pat, lab), shape=lab,
                         shacl=ttl[:1200])
                elif pat != (["^" + st] if st is not None else []):
                    emit("C17:shacl-pattern-differs", "shape %s: ShExC stem %r, SHACL sh:pattern %r" % (lab, st, pat), shacl=ttl[:1200], shexc=t1[:1200])
    except U.Skipped:
        pass
    if case.get("stems_only"):
        try:
            _, t3 = run(_merge(base, {"examples_mode": "shape", "detect_minimal_iri": True}))
            d3 = B.parse(t3)
            same_structure(d3, "examples_mode+detect_minimal_iri", t3)
            check_stems(d3, t3, "examples_mode+detect_minimal_iri")
        except U.Skipped:
            pass
        return
    for mode in case.get("modes", ("shape", "cons", "all")):
        try:
            _, t2 = run(_merge(base, {"examples_mode": mode}))
            d2 = B.parse(t2)
        except U.Skipped:
            continue
        same_structure(d2, "examples_mode", t2)
        check_examples(d2, t2, mode)
    try:
        _, t3 = run(_merge(base, {"examples_mode": "all", "detect_minimal_iri": True}))
        d3 = B.parse(t3)
        same_structure(d3, "examples_mode+detect_minimal_iri", t3)
        check_stems(d3, t3, "examples_mode+detect_minimal_iri")
        check_examples(d3, t3, "all")
    except U.Skipped:
        pass
    try:
        _, t4 = run(_merge(base, {"examples_mode": None}))
        check_examples(B.parse(t4), t4, None)
    except U.Skipped:
        pass


_C17_NESTED = [
    ["europe/spain", "europe"], ["europe", "europe/spain", "europe/france"], ["europe/spain", "europe/spain/madrid", "europe"],
    ["a", "ab", "abc"], ["ab", "abc", "a", "b"], ["europe", "europe#capital", "europe/spain"], ["europe/", "europe/spain", "europe/spain/"],
    ["x/y/z", "x/y", "x", "x/y/w"], ["europe/spain", "europe/spa", "europe/s"], ["europe:1", "europe:1:2", "europe"],
]


def _c17_nested_cases():
    """Nested instance IRIs (parent / child paths, a child extending a sibling, identical prefixes of different length) in ALL
    declaration orders of the rdf:type triples (<= 4 instances)."""
    M, S, G = U.lib()
    cases = []
    for k, names in enumerate(_C17_NESTED):
        for base_ns in (("https://a.org/places/", "urn:x:places:")[k % 2], "http://a.org/v#"):
            iris = [base_ns + n for n in names]
            if base_ns.startswith("urn:"):
                iris = [i.replace("/", ":").replace("#", ":") for i in iris]
            if len(set(iris)) != len(iris):
                continue
            for perm in itertools.permutations(iris):
                T = [M.Triple(M.IRI(i), M.RDF_TYPE, M.IRI(G.EX + "A")) for i in perm]
                T += [M.Triple(M.IRI(iris[0]), G.EX + "p", M.Lit("x")), M.Triple(M.IRI(iris[-1]), G.EX + "q", M.IRI(iris[0]))]
                cases.append({"pid": "C17", "origin": "nested-instance-iris", "nt": U.to_nt(T),
                              "base": {"all_classes_mode": True} if k % 3 else {"target_classes": [G.EX + "A"]},
                              "inverse": len(cases) % 2 == 1, "stems_only": True})
    return cases


def _c17_special_cases():
    """(a) the FIRST value seen for a property is a literal padded with blanks (native N-Triples reader); (b) a target class without
    instances with remove_empty_shapes=False and detect_minimal_iri."""
    M, S, G = U.lib()
    A = G.EX + "A"
    i1, i2 = M.IRI("https://a.org/x/i1"), M.IRI("https://a.org/x/i2")
    cases = []
    pads = [" Al ", "Bobby  ", "  Caz", " x", "y ", " two  words "]
    for k in range(12):
        a, b, c = pads[k % 6], pads[(k + 1) % 6], pads[(k + 2) % 6]
        T = [M.Triple(i1, M.RDF_TYPE, M.IRI(A)), M.Triple(i2, M.RDF_TYPE, M.IRI(A)), M.Triple(i1, G.EX + "p", M.Lit(a)),
             M.Triple(i1, G.EX + "p", M.Lit(a.strip())), M.Triple(i2, G.EX + "p", M.Lit(b)), M.Triple(i1, G.OTHER + "q", M.Lit(c)),
             M.Triple(M.IRI(G.OTHER + "w1"), G.EX + "k", i1), M.Triple(i2, G.EX + "k", i1)]
        if k % 3 == 0:
            T = T[:2] + T[4:] + T[2:4]
        cases.append({"pid": "C17", "origin": "padded-literal-examples", "nt": U.to_nt(T), "base": {"all_classes_mode": True},
                      "inverse": k % 2 == 1, "modes": ["cons", "all"]})
    XSD = M.XSD
    typed = [M.Lit("true", dt=XSD + "boolean"), M.Lit("false", dt=XSD + "boolean"), M.Lit("2021-03-04T10:20:30", dt=XSD + "dateTime"),
             M.Lit("2021-03-04", dt=XSD + "date"), M.Lit("1.50", dt=XSD + "decimal"), M.Lit("7", dt=M.XSD_INTEGER), M.Lit("-12", dt=M.XSD_INTEGER),
             M.Lit("1999-12-31T23:59:59", dt=XSD + "dateTime")]
    # (non-canonical lexical forms -- "007", "1.0E2", "...T10:20:30Z" -- are excluded: rdflib itself normalises them while parsing, so the
    #  example of the unchanged tree is "7", "100.0", "...+00:00": pre-existing, reported)
    for k in range(16):                                  # first-seen values are typed literals, read through rdflib (turtle)
        vs = [typed[(k + j) % len(typed)] for j in range(3)]
        T = [M.Triple(i1, M.RDF_TYPE, M.IRI(A)), M.Triple(i1, G.EX + "p", vs[0]), M.Triple(i1, G.OTHER + "q", vs[1]), M.Triple(i2, M.RDF_TYPE, M.IRI(A)),
             M.Triple(i2, G.EX + "p", vs[2]), M.Triple(i2, G.EX + "k", i1)]
        cases.append({"pid": "C17", "origin": "typed-literal-examples-rdflib", "nt": U.to_nt(T), "format": "turtle",
                      "text": SU.to_turtle(T, prefixed=k % 2 == 0, use_a=k % 4 < 2), "base": {"all_classes_mode": True}, "inverse": k % 2 == 1,
                      "modes": ["cons", "all"]})
    for k in range(8):
        T = [M.Triple(i1, M.RDF_TYPE, M.IRI(A)), M.Triple(i1, G.EX + "p", M.Lit("x"))]
        if k % 2:
            T += [M.Triple(i2, M.RDF_TYPE, M.IRI(A)), M.Triple(i2, G.EX + "p", i1)]
        targets = [[A, G.EX + "Nobody"], [G.EX + "Nobody", A], [G.EX + "Nobody"], [A, G.EX + "Nobody", G.OTHER + "Nothing"]][k % 4]
        cases.append({"pid": "C17", "origin": "target-class-without-instances", "nt": U.to_nt(T),
                      "base": {"target_classes": targets, "remove_empty_shapes": False}, "inverse": k >= 4, "stems_only": True})
    return cases


def gen_C17(tier, rng):
    M, S, G = U.lib()
    n = {"selftest": 42, "quick": 12000, "thorough": 90000}[tier]
    cases = _c17_nested_cases()
    if tier == "selftest":
        cases = cases[::4]
    cases += _c17_special_cases()
    for gi in range(n):
        nss = _C17_NAMESPACES[gi % len(_C17_NAMESPACES)]
        T = c17_graph(rng, nss)
        base = {"all_classes_mode": True} if gi % 3 else {"target_classes": [G.EX + "A"]}
        cases.append({"pid": "C17", "origin": "stems", "nt": U.to_nt(T), "base": base, "inverse": gi % 2 == 1})
        if gi % 5 == 0:
            cases[-1]["shacl_base"] = True
    return cases


# ================================================================================================
# C15 -- endpoint == local
# ================================================================================================
def _c15_selection(sel):
    """Shaper keyword arguments of a selection {"kind": targets|all|shapemap, ...}."""
    if sel["kind"] == "targets":
        return {"target_classes": list(sel["classes"])}
    if sel["kind"] == "all":
        return {"all_classes_mode": True}
    return {"shape_map_raw": "\n".join("%s@<%s>" % (PL._selector_text(it["sel"]), it["label"]) for it in sel["items"])}


def _c15_spec(T, sel, inv, extra=None):
    M = U.lib()[0]
    if sel["kind"] != "shapemap":
        cfg = _merge(_c15_selection(sel), {"inverse_paths": inv}, extra or {})
        spec = U.spec_for(T, cfg)
        return spec, PL._l2c(spec)
    inst = {}
    for it in sel["items"]:
        nodes, _ = PL._selector_nodes(it["sel"], T)
        inst[it["label"]] = U.dedup(inst.get(it["label"], []) + [x for x in nodes if not M.is_literal(x)])
    spec = U.spec_for_instances(T, dict((k, v) for k, v in inst.items() if v), inverse=inv)
    return spec, dict((lab, lab) for lab in spec.N)


def _flat(nd):
    return sorted(((sh["label"], sh["N"], tuple(sorted(((c["inv"], c["p"], c["value"], c["card"], c["rt"], c["count"],
                   tuple(sorted(((k["value"], k["card"], k["rt"], k["count"]) for k in c["comments"]), key=repr))) for c in sh["cons"]), key=repr)))
                   for sh in nd), key=repr)


def _compare_evidence(a, b, spec, l2c, t, names):
    """Tie-aware comparison of two normalised outputs of the same extraction (cf. pipeline C09).  -> [(category, text)]"""
    S = U.lib()[1]
    ev0, ev1 = PL._evidence(a, l2c, spec.pi), PL._evidence(b, l2c, spec.pi)
    out = []
    if set(ev0) != set(ev1):
        return [("shape-set", "shapes %s for %s, %s for %s" % (sorted(ev0), names[0], sorted(ev1), names[1]), set())]
    for lab in sorted(ev0):
        x, y = ev0[lab], ev1[lab]
        C = l2c.get(lab)
        tie = U.ties(spec, C, t) if C in spec.N else set()
        if x["N"] != y["N"]:
            out.append(("instance-count", "%s: %r instances (%s) vs %r (%s)" % (lab, x["N"], names[0], y["N"], names[1]), set()))
        if x["keys"] != y["keys"]:
            diff = sorted(x["keys"] ^ y["keys"], key=repr)
            out.append(("key-set", "%s: constraint keys differ by %r" % (lab, diff), set((k[0], k[1]) for k in diff)))
            continue
        diff = [(fk, n) for (fk, n) in (x["facts"] ^ y["facts"]) if S.key_of(fk[0], fk[1], fk[2], spec.pi) not in tie]
        if diff:
            out.append(("figures", "%s: (direction, property, kind, cardinality, count) facts differ by %r" % (lab, sorted(diff, key=repr)[:6]),
                        set((fk[0], fk[1]) for fk, n in diff)))
        for kx in sorted(x["keys"], key=repr):
            if kx in tie:
                continue
            if x["chosen"][kx] != y["chosen"][kx]:
                out.append(("chosen-constraint", "%s: key %r is %r for %s, %r for %s" % (lab, kx, x["chosen"][kx], names[0], y["chosen"][kx], names[1]),
                            set([(kx[0], kx[1])])))
    return out


def check_C15(case, B):
    e = U.env()
    M, S, G = U.lib()
    nt, sel, inv, track = case["nt"], case["sel"], bool(case.get("inverse")), bool(case.get("track"))
    T = U.parse_nt(nt)
    extra = case.get("extra") or {}              # e.g. {"limit_remote_instances": 2, "instances_cap": 4}: given to BOTH runs
    extra_local = case.get("extra_local")        # the local counterpart when it differs ({"instances_cap": k} for limit_remote_instances=k alone)
    selkw = _merge(_c15_selection(sel), extra)
    selkw_local = selkw if extra_local is None else _merge(_c15_selection(sel), extra_local)
    spec, l2c = _c15_spec(T, sel, inv, extra if extra_local is None else extra_local)
    expect = case.get("expect")                  # dedicated families of known root causes: their differences get their own keys
    colliding = case.get("by_class_iri")         # classes with one local name: their shapes share a label (known, C05) and are told apart
    if colliding:                                # by the class IRI of their rdf:type value set
        l2c = dict((("class:" + C) if C in colliding else lab, C) for lab, C in
                   [(U.label_of(C), C) for C in spec.N])

    def relabel(nd):
        if not colliding:
            return nd
        out = []
        for sh in nd:
            cs = [c["value"][1] for c in sh["cons"] if not c["inv"] and c["p"] == spec.pi and c["value"][0] == "valueset" and c["value"][1] in colliding]
            if len(cs) == 1:
                sh = dict(sh, label="class:" + cs[0])
            elif len(cs) > 1:
                B.notes["shape of a colliding class not identifiable by its rdf:type value set"] += 1
            out.append(sh)
        return out

    def emit(key, what, **kw):
        B.emit(key, what, _case_of(case), **kw)

    def local(text):
        def go():
            return SU.shex(SU.new_shaper({"format": "nt", "text": text}, _merge(selkw_local, {"inverse_paths": inv})), SHEXC, 0)
        return relabel(U.norm_doc(B.parse(B.call(go))))
    try:
        lo = local(nt)
    except U.Skipped:
        return
    if any(sh["cons"] for sh in lo):
        B.mark(nt, sel, inv, track)
    res = {}
    with SU.fake_endpoint(nt) as ep:
        for cache_off in (False, True):
            del ep.log[:]
            cfg = _merge(selkw, {"inverse_paths": inv, "disable_endpoint_cache": cache_off, "depth_for_building_subgraph": 1,
                                 "track_classes_for_entities_at_last_depth_level": track})
            try:
                out = relabel(U.norm_doc(B.parse(B.call(lambda cfg=cfg: SU.shex(SU.new_shaper({"endpoint": SU.FAKE_ENDPOINT}, cfg), SHEXC, 0)))))
            except U.Skipped as exc:
                if expect == "url-looking-literal" and "ParseException" in exc.signature and _literal_queries(ep.log, T):
                    emit("C15:url-looking-literal-read-as-iri:%s" % sel["kind"], "a plain string literal whose text starts with http:// or https:// is read "
                         "as an IRI over the endpoint; with track_classes_for_entities_at_last_depth_level sheXer then asks for its classes with %r, "
                         "which is not SPARQL (blank inside <>): the endpoint run fails with %s, the local run succeeds"
                         % (_literal_queries(ep.log, T)[0], exc.signature), queries=list(ep.log)[:8])
                elif expect == "object-focus-literals" and "ParseException" in exc.signature and _literal_queries(ep.log, T):
                    emit("C15:object-focus-selects-literals:invalid-query", "a {_ p FOCUS} selector over the endpoint also selects LITERAL objects; sheXer then "
                         "sends %r, which is not SPARQL (blank inside <>): the endpoint run fails with %s, the local run succeeds"
                         % (_literal_queries(ep.log, T)[0], exc.signature), queries=list(ep.log)[:8])
                else:
                    emit("C15:endpoint-run-fails:%s" % SU.slug(exc.signature, 50), "the endpoint run (disable_endpoint_cache=%r) fails with %s while the "
                         "local run succeeds" % (cache_off, exc.signature), queries=list(ep.log)[:8])
                continue
            res[cache_off] = (out, list(ep.log))
            if expect == "object-focus-literals" and not cache_off and _literal_queries(ep.log, T):
                emit("C15:object-focus-selects-literals:literal-queried-as-iri", "a {_ p FOCUS} selector over the endpoint also selects LITERAL objects "
                     "and asks for their neighbourhood as if they were IRIs: %r" % _literal_queries(ep.log, T)[:3], queries=list(ep.log)[:8])
    if False in res and True in res:
        (a, qa), (b, qb) = res[False], res[True]
        if len(qa) > len(qb):
            emit("C15:cache:more-queries-with-cache", "%d queries with the cache, %d without" % (len(qa), len(qb)), with_cache=qa[:12], without_cache=qb[:12])
        for cat, text, _ in _compare_evidence(a, b, spec, l2c, 0, ("cache on", "cache off")):
            emit("C15:cache-changes-result:%s" % cat, "disable_endpoint_cache changes the result: %s" % text)
    if False not in res:
        return
    ep_out = res[False][0]
    diffs = _compare_evidence(lo, ep_out, spec, l2c, 0, ("local", "endpoint"))
    if not diffs:
        return
    explained = None
    if inv:
        targets = set(spec.classes)
        links = [tr for tr in T if tr[0] in targets and tr[2] in targets]
        if links:
            try:
                if _flat(local(U.to_nt(list(T) + links))) == _flat(ep_out):
                    explained = "the endpoint output equals the local output on the graph in which the %d triple(s) linking two selected nodes are duplicated" % len(links)
            except U.Skipped:
                pass
            if explained is None:
                linked = set(("direct", tr[1]) for tr in links) | set(("inverse", tr[1]) for tr in links)
                if all(d[2] and d[2] <= linked for d in diffs):
                    explained = "every differing (direction, property) has a triple linking two selected nodes (heuristic attribution; frequency ties present)"
    if expect == "url-looking-literal":
        url_props = set(("direct", p) for (s_, p, o) in T if M.is_literal(o) and (o.lex.startswith("http://") or o.lex.startswith("https://")))
        if all(d[2] and d[2] <= url_props for d in diffs):
            emit("C15:url-looking-literal-read-as-iri:%s" % sel["kind"], "a plain string literal whose text starts with http:// or https:// is read as an IRI "
                 "over the endpoint (local: xsd:string): %s" % diffs[0][1], queries=res[False][1][:8])
            return
    if explained:
        emit("C15:inverse-paths:link-between-selected-nodes-counted-twice",
             "inverse_paths over an endpoint: a triple whose subject and object are both selected nodes is fetched by the outgoing AND the incoming query and "
             "counted twice; %s. First difference: %s" % (explained, diffs[0][1]), queries=res[False][1][:12])
        return
    for cat, text, _ in diffs:
        emit("C15:endpoint-vs-local:%s:%s" % (cat, sel["kind"]), "endpoint and local extraction differ (%s, inverse_paths=%r, track=%r): %s"
             % (sel["kind"], inv, track, text), queries=res[False][1][:12])


def _literal_queries(log, T):
    """Queries of the log that ask for the neighbourhood of `<lexical form of a literal of T>` (which is no IRI node of T)."""
    M = U.lib()[0]
    lex = set(o.lex for (s, p, o) in T if M.is_literal(o))
    iris = set(x.iri for (s, p, o) in T for x in (s, o) if isinstance(x, M.IRI))
    out = []
    for q in log:
        body = q[q.upper().rfind("WHERE"):]
        if any(x in lex and x not in iris for x in re.findall(r"<([^>]*)>", body)):
            out.append(q.strip())
    return out


def _c15_known_defect_cases(rng, n):
    """Two small families kept apart from everything else: (a) string literals whose text starts with http:// or https://; (b) {_ p FOCUS}
    selectors on a property that has literal objects (with and without a blank)."""
    M, S, G = U.lib()
    cases = []
    urls = [M.Lit("http://not.an/iri but text"), M.Lit("https://x.org/y"), M.Lit("http://x.org/a b"), M.Lit("https://"), M.Lit("http://ex.org/n0")]
    for i in range(n):
        T = [tr for tr in _c15_graph(rng) if not (tr[1] != M.RDF_TYPE and not M.is_literal(tr[2]))]      # literal-valued and type triples only
        subjects = U.dedup([s for (s, p, o) in T if p == M.RDF_TYPE])
        for x in subjects:
            if rng.random() < 0.8:
                T.append(M.Triple(x, G.EX + "homepage", rng.choice(urls)))
            if rng.random() < 0.4:
                T += [M.Triple(x, G.EX + "see", rng.choice(urls)), M.Triple(x, G.EX + "see", M.IRI(G.OTHER + "u%d" % (i % 2)))]
        T = U.dedup(T)
        classes = U.dedup([o.iri for (s, p, o) in T if p == M.RDF_TYPE])
        sel = ({"kind": "targets", "classes": classes[:2]}, {"kind": "all"},
               {"kind": "shapemap", "items": [{"sel": {"form": "focus-type", "cls": classes[0]}, "label": U.ALT_SHAPES_NS + "L1"}]},
               {"kind": "shapemap", "items": [{"sel": {"form": "focus-subj", "p": G.EX + "homepage"}, "label": U.ALT_SHAPES_NS + "L1"}]})[i % 4]
        cases.append({"pid": "C15", "origin": "url-looking-literals", "nt": U.to_nt(T), "sel": sel, "inverse": False, "track": i % 2 == 1,
                      "expect": "url-looking-literal"})
    words = [M.Lit("two words"), M.Lit("x"), M.Lit("a b c"), M.Lit("y"), M.Lit("7", dt=M.XSD_INTEGER)]
    for i in range(n):
        a, o1 = M.IRI(G.EX + "s%d" % (i % 3)), M.IRI(G.EX + "o1")
        T = [M.Triple(a, M.RDF_TYPE, M.IRI(G.CLASS_A)), M.Triple(a, G.PROP_P, words[i % 5]), M.Triple(o1, G.PROP_Q, M.Lit("1", dt=M.XSD_INTEGER))]
        if i % 2:
            T.append(M.Triple(a, G.PROP_P, o1))
        if i % 3 == 0:
            T.append(M.Triple(M.IRI(G.EX + "t"), G.PROP_P, words[(i + 1) % 5]))
        items = [{"sel": {"form": "focus-obj", "p": G.PROP_P}, "label": U.ALT_SHAPES_NS + "L1"}]
        if i % 4 == 0:
            items.append({"sel": {"form": "focus-type", "cls": G.CLASS_A}, "label": U.ALT_SHAPES_NS + "L2"})
        cases.append({"pid": "C15", "origin": "object-focus-on-literals", "nt": U.to_nt(U.dedup(T)), "sel": {"kind": "shapemap", "items": items},
                      "inverse": False, "track": False, "expect": "object-focus-literals"})
    return cases


def _c15_graph(rng):
    M = U.lib()[0]
    T = U.rand_graph(rng, n_nodes=rng.randint(3, 7), n_triples=rng.randint(4, 16), n_classes=rng.randint(2, 3), n_props=rng.randint(2, 3), p_bnode=0.0)
    return [tr for tr in T if not (M.is_literal(tr[2]) and tr[2].dt not in (None, M.XSD_INTEGER))]


def _c15_nonhttp(T, rng):
    """Renames some object / subject IRIs to non-http schemes (the endpoint substitute returns type "uri" for them)."""
    M = U.lib()[0]
    iris = U.dedup([x.iri for (s, p, o) in T for x in (s, o) if isinstance(x, M.IRI) and not (p == M.RDF_TYPE and x is o)])
    schemes = ["mailto:%s@ex.org", "urn:x:%s", "tel:+34-600-%s", "urn:uuid:0000-%s", "tag:ex.org,2020:%s"]
    mp = {}
    for i, iri in enumerate(iris):
        if rng.random() < 0.5:
            mp[iri] = schemes[(i + len(mp)) % len(schemes)] % U.local_name(iri)
    if not mp and iris:
        mp[iris[0]] = "mailto:%s@ex.org" % U.local_name(iris[0])

    def node(n, is_class=False):
        return M.IRI(mp[n.iri]) if (isinstance(n, M.IRI) and not is_class and n.iri in mp) else n
    return U.dedup([M.Triple(node(s), p, node(o, p == M.RDF_TYPE)) for (s, p, o) in T])


def _c15_numbers(T, rng):
    """Adds negative / signed integers and non-integral signed xsd:float values (the endpoint substitute returns the bare lexical form
    with its datatype; integral floats and other datatypes are excluded: read differently by the result reader, known)."""
    M, S, G = U.lib()
    XSD_FLOAT = M.XSD + "float"
    ints = [M.Lit(x, dt=M.XSD_INTEGER) for x in ("-5", "-12", "-1", "0", "+7", "42")]
    floats = [M.Lit(x, dt=XSD_FLOAT) for x in ("-2.5", "3.25", "-0.75", "+1.5")]
    subjects = U.dedup([s for (s, p, o) in T if p == M.RDF_TYPE])
    out = list(T)
    for x in subjects:
        if rng.random() < 0.8:
            for v in rng.sample(ints, rng.randint(1, 2)):
                out.append(M.Triple(x, G.EX + "num", v))
        if rng.random() < 0.5:
            out.append(M.Triple(x, G.EX + "ratio", rng.choice(floats)))
        if rng.random() < 0.3:
            out.append(M.Triple(x, G.EX + "num", rng.choice(floats)))
    return U.dedup(out)


def _c15_httpish(T, rng):
    """Plain string literals that begin with "http" without being URLs.  (Strings that DO start with http:// or https:// are excluded: the
    endpoint path of the unchanged tree already reads them as IRIs -- pre-existing, reported separately.)"""
    M, S, G = U.lib()
    words = [M.Lit(x) for x in ("httpd 2.4", "https only", "http", "https", "httpx", "http:", "https:/x", "http-header", "HTTP/1.1")]
    subjects = U.dedup([s for (s, p, o) in T if p == M.RDF_TYPE])
    out = list(T)
    for x in subjects:
        for v in rng.sample(words, rng.randint(1, 2)):
            out.append(M.Triple(x, G.EX + "server", v))
        if rng.random() < 0.4:
            out.append(M.Triple(x, rng.choice([p for (s, p, o) in T if p != M.RDF_TYPE] or [G.PROP_P]), rng.choice(words)))
    return U.dedup(out)


def _c15_cap_cases(rng, n):
    """limit_remote_instances < instances_cap < number of instances; interchangeable instances (any k of them give the same shape)."""
    M, S, G = U.lib()
    cases = []
    for i in range(n):
        m = rng.randint(5, 8)
        cap = rng.randint(3, m - 1)
        limit = rng.randint(1, cap - 1)
        T = []
        for j in range(m):
            x = M.IRI(G.EX + "a%d" % j)
            T += [M.Triple(x, M.RDF_TYPE, M.IRI(G.CLASS_A)), M.Triple(x, G.PROP_P, M.Lit("x%d" % j)), M.Triple(x, G.PROP_Q, M.IRI(G.OTHER + "u1"))]
            if i % 2:
                T.append(M.Triple(x, G.EX + "num", M.Lit(str(-j - 1), dt=M.XSD_INTEGER)))
        for j in range(2):
            T += [M.Triple(M.IRI(G.EX + "b%d" % j), M.RDF_TYPE, M.IRI(G.CLASS_B)), M.Triple(M.IRI(G.EX + "b%d" % j), G.PROP_P, M.Lit("y"))]
        if i % 3 == 0:
            rng.shuffle(T)
        sel = ({"kind": "targets", "classes": [G.CLASS_A]}, {"kind": "all"}, {"kind": "targets", "classes": [G.CLASS_A, G.CLASS_B]})[i % 3]
        cases.append({"pid": "C15", "origin": "limit-and-cap", "nt": U.to_nt(T), "sel": sel, "inverse": False, "track": i % 2 == 1,
                      "extra": {"limit_remote_instances": limit, "instances_cap": cap}})
        if i % 4 == 0:
            cases.append({"pid": "C15", "origin": "cap-only", "nt": U.to_nt(T), "sel": sel, "inverse": False, "track": False,
                          "extra": {"instances_cap": cap}})
        if i % 2 == 0:                                   # limit_remote_instances alone: the local counterpart is instances_cap
            cases.append({"pid": "C15", "origin": "limit-only", "nt": U.to_nt(T), "sel": sel, "inverse": False, "track": i % 4 == 0,
                          "extra": {"limit_remote_instances": limit}, "extra_local": {"instances_cap": limit}})
    return cases


FOAF_PERSON, SCHEMA_PERSON, DBO_PERSON = "http://xmlns.com/foaf/0.1/Person", "http://schema.org/Person", "http://dbpedia.org/ontology#Person"


def _c15_same_local_name_cases(rng, n):
    """Target classes with different IRIs and ONE local name (foaf:Person, schema:Person, dbo#Person)."""
    M, S, G = U.lib()
    cases = []
    for i in range(n):
        classes = [FOAF_PERSON, SCHEMA_PERSON] + ([DBO_PERSON] if i % 3 == 2 else [])
        T = []
        for ci, C in enumerate(classes):
            for j in range(rng.randint(1, 4)):
                x = M.IRI(G.EX + "c%dp%d" % (ci, j))
                T.append(M.Triple(x, M.RDF_TYPE, M.IRI(C)))
                T.append(M.Triple(x, G.EX + ("name", "label", "title")[ci], M.Lit("n%d" % j)))
                if rng.random() < 0.6:
                    T.append(M.Triple(x, G.EX + "age", M.Lit(str(20 + j), dt=M.XSD_INTEGER) if ci != 1 else M.Lit("old")))
                if rng.random() < 0.5:
                    T.append(M.Triple(x, G.OTHER + "knows", M.IRI(G.OTHER + "u%d" % (j % 2))))
        if i % 2:
            b = M.IRI(G.EX + "b0")
            T += [M.Triple(b, M.RDF_TYPE, M.IRI(G.CLASS_B)), M.Triple(b, G.PROP_P, M.Lit("x"))]
        if i % 4 == 0:
            rng.shuffle(T)
        order = list(classes) if i % 2 == 0 else list(reversed(classes))
        sel = ({"kind": "targets", "classes": order}, {"kind": "all"}, {"kind": "targets", "classes": order + [G.CLASS_B]})[i % 3]
        cases.append({"pid": "C15", "origin": "classes-with-one-local-name", "nt": U.to_nt(T), "sel": sel, "inverse": i % 5 == 4,
                      "track": i % 2 == 1, "by_class_iri": classes})
    return cases


def _c15_unlink(T, sel):
    """Drop the triples that link two selected nodes (the selection is recomputed until stable)."""
    for _ in range(10):
        spec, _l2c = _c15_spec(T, sel, True)
        targets = set(spec.classes)
        T2 = [tr for tr in T if not (tr[0] in targets and tr[2] in targets)]
        if len(T2) == len(T):
            return T
        T = T2
    return T


def gen_C15(tier, rng):
    M, S, G = U.lib()
    n = {"selftest": 30, "quick": 900, "thorough": 6500}[tier]
    cases = []
    n_nonhttp = {"selftest": 14, "quick": 200, "thorough": 1500}[tier]
    n_num = {"selftest": 12, "quick": 150, "thorough": 1200}[tier]
    cases += _c15_cap_cases(rng, {"selftest": 8, "quick": 60, "thorough": 400}[tier])
    cases += _c15_same_local_name_cases(rng, {"selftest": 9, "quick": 60, "thorough": 400}[tier])
    cases += _c15_known_defect_cases(rng, {"selftest": 8, "quick": 40, "thorough": 200}[tier])
    for gi in range(n + n_nonhttp + n_num):
        T = _c15_graph(rng)
        nonhttp = n <= gi < n + n_nonhttp
        if nonhttp:
            T = _c15_nonhttp(T, rng)
        if gi >= n + n_nonhttp:
            T = _c15_numbers(T, rng) if (gi - n - n_nonhttp) % 3 else _c15_httpish(T, rng)
        classes = U.dedup([o.iri for (s, p, o) in T if p == M.RDF_TYPE])
        props = U.dedup([p for (s, p, o) in T if p != M.RDF_TYPE])
        subjects = U.dedup([s.iri for (s, p, o) in T])
        # sheXer's shape-map syntax allows exactly one '@' per line: a node selector never names an IRI containing '@' (mailto:)
        selectable = [x for x in subjects if "@" not in x]
        node_sel = ({"form": "node", "node": rng.choice(selectable)} if selectable else {"form": "focus-type", "cls": rng.choice(classes)})
        sels = [{"kind": "targets", "classes": [G.CLASS_A]}, {"kind": "all"}, {"kind": "targets", "classes": [G.CLASS_A, G.CLASS_B]},
                {"kind": "shapemap", "items": [{"sel": {"form": "focus-type", "cls": rng.choice(classes)}, "label": U.ALT_SHAPES_NS + "L1"}]},
                {"kind": "shapemap", "items": [{"sel": node_sel, "label": U.ALT_SHAPES_NS + "L1"}]},
                {"kind": "shapemap", "items": [{"sel": {"form": "sparql-type", "cls": rng.choice(classes)}, "label": U.ALT_SHAPES_NS + "L1"}]}]
        # {_ p FOCUS} also selects literal objects and sheXer then queries `<literal> ?p ?o`: a blank inside the literal makes that query
        # unparsable (pre-existing, reported) -- such properties are not used in selectors
        props = [p for p in props if not any(M.is_literal(o) and " " in o.lex for (s_, p_, o) in T if p_ == p)]
        if props:
            sels.append({"kind": "shapemap", "items": [{"sel": {"form": "focus-subj", "p": rng.choice(props)}, "label": U.ALT_SHAPES_NS + "L1"}]})
            sels.append({"kind": "shapemap", "items": [{"sel": {"form": "focus-obj", "p": rng.choice(props)}, "label": U.ALT_SHAPES_NS + "L1"},
                                                       {"sel": {"form": "focus-type", "cls": rng.choice(classes)}, "label": U.ALT_SHAPES_NS + "L2"}]})
        for k in range(3):
            sel = sels[(gi + k * 3) % len(sels)] if k else sels[gi % 3]
            inv = (gi + k) % 2 == 1
            family = "general"
            Tk = T
            if inv and ((gi + k) % 4 != 3 or nonhttp):
                Tk, family = _c15_unlink(T, sel), "no-link-between-selected-nodes"
            cases.append({"pid": "C15", "origin": family + ("+non-http-iris" if nonhttp else ""), "nt": U.to_nt(Tk), "sel": sel, "inverse": inv,
                          "track": (gi // 2 + k) % 2 == 1})
            if gi >= n + n_nonhttp:
                cases[-1]["origin"] += "+signed-numbers" if (gi - n - n_nonhttp) % 3 else "+http-like-strings"
    return cases


CHECKS.update({"C03": check_C03, "C17": check_C17, "C15": check_C15})
GENS.update({"C03": gen_C03, "C17": gen_C17, "C15": gen_C15})
RULES.update({
    "C03": "per (schema-consistent graph, switch combination) at threshold 0 with keep_less_specific=True: every instance of every class with a shape is "
           "validated by an independent validator (closed per mentioned predicate and direction, every value matches a constraint, every constraint's "
           "number of matching values satisfies its cardinality, shape references in the greatest fixpoint); '?' never with allow_opt_cardinality=False; "
           "mode off == same constraints with the cardinality read from the first figure comment of each relaxed constraint",
    "C17": "per graph: baseline vs detect_minimal_iri (ShExC + SHACL of one Shaper) vs examples_mode shape/cons/all/None vs both options: constraint "
           "structure identical; printed stem is a prefix of all instances, ends at ':' '/' '#', is the longest such, is not a bare scheme nor < 3 chars, "
           "and is printed whenever such a stem exists; sh:pattern == '^'+stem; shape example is an instance; constraint example is a value of the "
           "property in that direction on an instance and is written as the right kind of term",
    "C15": "per (graph, selection, inverse, track_classes flag): local run on N-Triples vs Shaper(url_endpoint) with the HTTP choke point "
           "io/sparql/query._query_endpoint_json_result replaced in-process by an rdflib SPARQL evaluation; cache on vs off: tie-aware equality of "
           "shapes, instance counts, keys, figures and chosen constraints, and #queries(cache on) <= #queries(cache off); a crash of the endpoint run "
           "while the local run completes is reported as a difference; a difference under inverse_paths that disappears when the triples linking two "
           "selected nodes are duplicated in the local input is attributed to one root cause (fetched by both the outgoing and the incoming query)",
})
BOUNDS.update({
    "C03": "seeded schema-first graphs: 1-3 classes (IRI or blank-node instances, 1-4 each, optionally one multi-typed leaf class), shared literal "
           "properties with 1-3 datatypes, 1-3 object properties with one domain class and an untyped-IRI / untyped-blank-node / single-class range "
           "(literals optionally mixed in), per-instance presence and 1-3 values, optional incoming links from untyped nodes; all_classes or target subsets; "
           "6 of the 16 switch combinations per graph (quick), all 16 (thorough)",
    "C17": "21 namespace layouts (1-3 namespaces: https://, http://, urn:x:, shared / unshared path segments, common prefix exactly 'https://' / 'http://' / "
           "'urn:'), 1-2 classes with 1-4 IRI instances, literal / IRI / instance values, all_classes or one target class, inverse on/off; plus "
           "10 sets of nested instance IRIs (parent/child paths, sibling extensions, prefixes of different length; https, urn:, http#) in every "
           "declaration order (stems only)",
    "C15": "seeded random graphs, IRI nodes only, plain and xsd:integer literals; selections: target classes, all classes, shape maps (node, FOCUS a C, "
           "FOCUS p _, _ p FOCUS, SPARQL); inverse on/off (inverse: 3/4 of the graphs without a triple linking two selected nodes); depth 1; "
           "plus a family in which about half of the subject / object IRIs use mailto:, urn:, tel:, tag: schemes",
})


# ================================================================================================
# driver
# ================================================================================================
def gen_cases(pid, tier, seed):
    rng = random.Random("schemas|%s|%s|%s" % (pid, tier, seed))
    cases = GENS[pid](tier, rng)
    if pid != "C04":                                   # C04 has its own one-Shaper slice
        step = 5 if tier == "selftest" else 33         # ~3 % of the cases run their calls inside a history on the SAME Shaper
        for n, i in enumerate(range(2, len(cases), step)):
            cases[i] = dict(cases[i], history=SU.HISTORY_KINDS[n % len(SU.HISTORY_KINDS)])
    return cases


def _run_case(case, B):
    """The pid's check; with case["history"] every shex_graph call of the check is embedded in a call history on the same Shaper, the
    check's oracle sees the LAST result and results that must be equal are compared (keys <pid>:call-history:<what>)."""
    kind = case.get("history")
    if not kind:
        return CHECKS[case["pid"]](case, B)
    SU.HISTORY = SU.History(kind)
    try:
        CHECKS[case["pid"]](case, B)
        for what, text in SU.HISTORY.problems:
            B.emit("%s:call-history:%s" % (case["pid"], what), "call history %r on one Shaper: %s" % (kind, text[:1500]), _case_of(case))
    finally:
        SU.HISTORY = None


def _init_worker():
    U.env()


def _work(case):
    B = SU.Book()
    t0 = time.time()
    err = None
    try:
        _run_case(case, B)
    except Exception as exc:                           # a bug of the monitor itself must be visible
        import traceback
        err = "%s: %s\n%s" % (type(exc).__name__, exc, traceback.format_exc()[-1500:])
    res = B.result()
    seen, kept = collections.Counter(), []
    for f in res["findings"]:
        seen[f["key"]] += 1
        if seen[f["key"]] <= 2:
            kept.append(f)
    res["findings"] = kept
    res["error"] = err
    res["secs"] = time.time() - t0
    return res


def _size(f):
    return len(json.dumps(f["input"]["case"], sort_keys=True, default=str))


def _reproduces(case, key):
    B = SU.Book()
    try:
        _run_case(case, B)
    except Exception:
        return False
    return any(f["key"] == key for f in B.findings)


def _shrink(f, budget=120):
    """Greedy reduction of a reproducer (statement lines, then configuration keys); keeps the finding key."""
    case = json.loads(json.dumps(f["input"]["case"], default=str))
    key = f["key"]
    U.env()
    if not _reproduces(case, key):
        return f
    spent = [0]

    def attempt(cand):
        if spent[0] >= budget:
            return False
        spent[0] += 1
        return _reproduces(cand, key)

    def get_text(c):
        return c["input"]["text"] if "input" in c else c["nt"]

    def with_text(c, text):
        c2 = json.loads(json.dumps(c))
        if "input" in c2:
            c2["input"]["text"] = text
        else:
            c2["nt"] = text
        return c2
    changed = "text" not in case or "nt" not in case      # two renderings of one graph (nt for the oracle, text for sheXer): lines are kept
    while changed and spent[0] < budget:
        changed = False
        lines = get_text(case).split("\n")
        for i in range(len(lines) - 1, -1, -1):
            if not lines[i].strip() or lines[i].startswith("@prefix"):
                continue
            cand = with_text(case, "\n".join(lines[:i] + lines[i + 1:]))
            if attempt(cand):
                case, changed = cand, True
                lines = get_text(case).split("\n")
    for cfg_field in ("cfg", "base"):
        if isinstance(case.get(cfg_field), dict):
            for k in sorted(case[cfg_field]):
                if k in ("all_classes_mode", "target_classes", "shape_map_raw"):
                    continue
                cand = json.loads(json.dumps(case))
                del cand[cfg_field][k]
                if attempt(cand):
                    case = cand
    B = SU.Book()
    _run_case(case, B)
    same = [g for g in B.findings if g["key"] == key]
    if not same:
        return f
    g = dict(same[0])
    g["input"] = dict(g["input"], case=case)
    return g


def run(pid, tier="quick", seed=0):
    if pid not in CHECKS:
        raise ValueError("schemas monitor has no check for %r" % pid)
    if tier not in ("selftest", "quick", "thorough"):
        tier = "quick"
    t0 = time.time()
    cases = gen_cases(pid, tier, int(seed or 0))
    ctx = multiprocessing.get_context("fork")
    evaluations, crashes, nontrivial, findings, errors, notes = 0, collections.Counter(), set(), [], [], collections.Counter()
    pool = ctx.Pool(WORKERS, initializer=_init_worker)
    try:
        for res in pool.imap_unordered(_work, cases, chunksize=4):
            evaluations += res["evaluations"]
            crashes.update(res["crashes"])
            notes.update(res.get("notes", {}))
            nontrivial.update(res["nontrivial"])
            findings.extend(res["findings"])
            if res.get("error"):
                errors.append(res["error"])
    finally:
        pool.close()
        pool.join()
    findings.sort(key=lambda f: (f["key"], _size(f), json.dumps(f["input"], sort_keys=True, default=str)))
    by_key = collections.OrderedDict()
    for f in findings:
        by_key.setdefault(f["key"], f)
    out_findings = []
    for key, f in list(by_key.items())[:MAX_FINDINGS]:
        try:
            f = _shrink(f)
        except BaseException:
            pass
        f = dict(f)
        f["input"] = U.jsonable(dict(f["input"], case=_case_of(f["input"]["case"])))
        f["occurrences"] = sum(1 for g in findings if g["key"] == key)
        out_findings.append(f)
    samples = []
    for c in cases[:: max(1, len(cases) // 3)][:3]:
        s = _case_of(c)
        for k in ("cfgs",):
            if k in s and isinstance(s[k], list) and len(s[k]) > 2:
                s[k] = s[k][:2] + ["... %d more" % (len(s[k]) - 2)]
        samples.append(U.jsonable(s))
    undecided = []
    if errors:
        undecided.append("schemas monitor %s: %d case(s) raised inside the monitor, first: %s" % (pid, len(errors), errors[0]))
    return {"name": "schemas-monitor", "label": "bounded", "property": pid, "tier": tier, "seed": seed,
            "evaluations": evaluations, "distinct_nontrivial": len(nontrivial), "cases": len(cases),
            "rule": RULES[pid], "bounds": "%s; %d cases; seed %s; wall-clock guard %d s per sheXer call" % (BOUNDS[pid], len(cases), seed, U.TIMEOUT),
            "samples": samples, "skipped_crashes": dict(crashes) if pid != "C04" else {}, "crash_signatures": dict(crashes) if pid == "C04" else {},
            "notes": dict(notes), "findings": out_findings, "undecided": undecided,
            "distinct_finding_keys": len(by_key), "all_finding_keys": sorted(by_key), "wall_s": round(time.time() - t0, 2)}


def replay(doc):
    """doc["input"] as stored by run(); ok=False iff the violation reproduces on the current tree."""
    inp = doc.get("input") or {}
    case = inp.get("case")
    if not case or case.get("pid") not in CHECKS:
        return True, "replay: document carries no schemas case"
    U.env()
    B = SU.Book()
    _run_case(case, B)
    key = doc.get("key")
    same = [f for f in B.findings if f["key"] == key]
    if same:
        return False, "reproduced %s: %s" % (key, same[0]["what"])
    if B.findings:
        return False, "reproduced with a different key %s (recorded %s): %s" % (B.findings[0]["key"], key, B.findings[0]["what"])
    if B.crashes:
        return True, "not reproduced: sheXer did not complete (%s)" % dict(B.crashes)
    return True, "not reproduced on this tree (%d sheXer calls, no disagreement)" % B.evaluations


# ================================================================================================
# selftest: every check must be able to fail
# ================================================================================================
def _mutants():
    U.env()
    import shexer.core.shexing.strategy.abstract_shexing_strategy as ass
    import shexer.core.shexing.class_shexer as cs
    import shexer.core.shexing.strategy.minimal_iri_strategy.annotate_min_iri_strategy as amis
    import shexer.core.profiling.strategy.direct_features_strategy as dfs
    import shexer.core.profiling.strategy.include_reverse_features_strategy as irfs
    import shexer.io.shacl.formater.shacl_serializer as shs
    import shexer.io.shex.formater.shex_serializer as sxs
    import shexer.model.graph.endpoint_sgraph as eg
    import shexer.shaper as shp
    from shexer.core.profiling.consts import _S, _P, POS_CLASSES

    def setattr_patch(obj, name, new):
        def patch():
            old = obj.__dict__[name] if name in getattr(obj, "__dict__", {}) else getattr(obj, name)    # keeps staticmethod descriptors
            setattr(obj, name, new)
            return lambda: setattr(obj, name, old)
        return patch

    def always_opt(self, statement):
        statement.add_comment(comment=self._turn_statement_into_comment(statement, self._namespaces_dict), insert_first=True)
        statement.cardinality = "?"
        statement.probability = 1

    orig_tune = ass.AbstractShexingStrategy._tune_list_of_valid_statements

    def tune_off_generalises(self, valid_statements):
        orig_tune(self, valid_statements)
        if not self._all_compliant_mode:
            for st in valid_statements:
                if isinstance(st.cardinality, int) and st.cardinality > 1:
                    st.cardinality = "+"

    def instance_count_div(self, a_shape):
        return "   # %d" % (10 // (a_shape.n_instances - 2))

    def keep_statements_to_gone_shapes(self, shape_names_to_remove):
        return None

    def always_empty_prefix(current_namespace_prefix_dict):
        return ""

    def max_occurs_no_opt(self, cardinality):
        if cardinality in ("*", "+", "?"):
            return None
        return cardinality

    def datatype_as_literal_kind(self, r_constraint_node, target_type):
        self._add_triple(r_constraint_node, shs._R_SHACL_NODEKIND_PROP, shs._R_SHACL_NODEKIND_LITERAL)

    def pattern_not_cut(self, longest_common_prefix):
        return longest_common_prefix if len(longest_common_prefix) >= 3 else None

    def example_is_subject(self, a_triple):
        for a_class_key in self._i_dict[str(a_triple[_S])][POS_CLASSES]:
            if not self._shape_feature_examples.has_constraint_example(shape_id=a_class_key, prop_id=str(a_triple[_P])):
                self._shape_feature_examples.set_constraint_example(shape_id=a_class_key, prop_id=str(a_triple[_P]),
                                                                    example=str(a_triple[_S]))

    orig_store = eg.EndpointSGraph._store_triple_locally

    def store_drops_literals(self, a_triple):
        if not str(a_triple[2]).startswith("<"):
            return
        orig_store(self, a_triple)

    def local_po_never_tracked(self, target_node):
        for a_triple in self._yield_remote_p_o_triples_of_an_s(target_node):
            self._store_triple_locally(a_triple)
        for a_triple in self._yield_remote_p_o_triples_of_an_s(target_node):
            pass
        for a_triple in self._local_sgraph.yield_p_o_triples_of_an_s(target_node):
            yield a_triple

    import shexer.io.sparql.query as spq
    import shexer.core.profiling.class_profiler as cpr

    def pattern_split_rewrite(self, longest_common_prefix):
        if longest_common_prefix is None:
            return None
        backwards_str = longest_common_prefix[::-1]
        last_sep_char = amis._SEP_CHARS.search(backwards_str)
        if last_sep_char is None:
            return None
        candidate_min_iri = backwards_str[last_sep_char.start():][::-1]
        if len(candidate_min_iri) < 3:
            return None
        if candidate_min_iri.split("/")[2] == "":          # seeded rewrite: IndexError with fewer than two slashes
            return None
        return candidate_min_iri

    def corners_http_only(target_elem, elem_type):
        if elem_type == spq._URI_TYPE and (target_elem.startswith("http://") or target_elem.startswith("https://")):
            return "<" + target_elem + ">"
        return target_elem

    def lcp_zip_rewrite(uri1, uri2):
        for i, (c1, c2) in enumerate(zip(uri1, uri2)):
            if c1 != c2:
                return uri1[:i]
        return uri2

    import shexer.io.graph.yielder.remote.sgraph_from_selectors_triple_yielder as sfs
    orig_shex_graph = shp.Shaper.shex_graph
    orig_profile_graph = shp.Shaper.profile_graph
    orig_init = shp.Shaper.__init__
    orig_tune_token = sfs.tune_token

    def shex_graph_keeps_shexer(self, string_output=False, output_file=None, output_format=SHEXC, acceptance_threshold=0, verbose=False,
                                to_uml_path=None):
        # seeded: no `self._class_shexer = None` before re-launching for another threshold
        if self._shape_list is not None and self._shape_list_threshold != acceptance_threshold and self._class_shexer is not None:
            self._check_correct_output_params(string_output, output_file, to_uml_path)
            self._launch_class_shexer(acceptance_threshold=acceptance_threshold, verbose=verbose)
            self._shape_list_threshold = acceptance_threshold
        return orig_shex_graph(self, string_output=string_output, output_file=output_file, output_format=output_format,
                               acceptance_threshold=acceptance_threshold, verbose=verbose, to_uml_path=to_uml_path)

    def profile_graph_unguarded(self, string_output=False, output_file=None, verbose=False):
        # seeded: the `if self._profile is None` guard is gone
        self._check_correct_output_params(string_output, output_file)
        if self._target_classes_dict is None:
            self._launch_instance_tracker(verbose=verbose)
        self._launch_class_profiler(verbose=verbose)
        from shexer.io.profile.formater.abstract_profile_serializer import AbstractProfileSerializer
        return AbstractProfileSerializer(self._profile).get_string_representation()

    def prefix_with_generator(current_namespace_prefix_dict):
        curr_prefixes = (p for p in current_namespace_prefix_dict.values())       # seeded: a generator consumed by `in`
        for a_prefix in ["", "weso-s", "shapes", "w-shapes"]:
            if a_prefix not in curr_prefixes:
                return a_prefix
        return "zzz"

    def tune_token_digit_only(a_token, allow_untyped_numbers=False, **kw):
        if allow_untyped_numbers and not a_token[:1].isdigit():                    # seeded: `-5` is no longer a number
            allow_untyped_numbers = False
        return orig_tune_token(a_token, allow_untyped_numbers=allow_untyped_numbers, **kw)

    def init_limit_wins(self, *a, **kw):
        lim, cap = kw.get("limit_remote_instances", -1), kw.get("instances_cap", -1)
        if lim == -1 or cap == -1:
            return orig_init(self, *a, **kw)
        g = shp.get_shape_map_if_needed                                            # seeded: precedence of the two limits swapped
        shp.get_shape_map_if_needed = lambda **k: g(**dict(k, limit_remote_instances=lim))
        try:
            orig_init(self, *a, **kw)
        finally:
            shp.get_shape_map_if_needed = g
        self._limit_remote_instances = lim

    def pattern_colon_last_resort(self, longest_common_prefix):
        if longest_common_prefix is None:
            return None
        cut = max(longest_common_prefix.rfind("/"), longest_common_prefix.rfind("#"))
        if cut < 0:
            cut = longest_common_prefix.rfind(":")
        if cut < 0:
            return None
        candidate = longest_common_prefix[:cut + 1]
        if len(candidate) < 3 or amis._BARE_SCHEME.match(candidate):
            return None
        return candidate

    orig_add_dominant = ass.MergeableConstraints._add_dominant

    import shexer.core.profiling.strategy.abstract_feature_direction_strategy as afds
    from shexer.core.profiling.consts import POS_FEATURES_DIRECT, _O
    orig_annotate_subject = afds.AbstractFeatureDirectionStrategy._annotate_target_subject

    def annotate_subject_repeated_line_half(self, a_triple):
        # a repeated statement line is counted for the node kind but not for the shape references of its object
        key = (str(a_triple[_S]), str(a_triple[_P]), str(a_triple[_O]), type(a_triple[_O]).__name__)
        seen = self.__dict__.setdefault("_seen_lines", set())
        if key in seen:
            str_prop = a_triple[_P].iri
            self._i_dict[a_triple[_S].iri][POS_FEATURES_DIRECT][str_prop][self._decide_type_elem(a_triple[_O], str_prop)] += 1
            return
        seen.add(key)
        orig_annotate_subject(self, a_triple)

    import shexer.utils.translators.list_of_classes_to_shape_map as lcm
    import shexer.utils.triple_yielders as tyl
    import shexer.io.graph.yielder.nt_triples_yielder as nty

    def shex_graph_output_cache(self, string_output=False, output_file=None, output_format=SHEXC, acceptance_threshold=0, verbose=False,
                                to_uml_path=None):
        cache = self.__dict__.setdefault("_string_outputs", {})                    # seeded: per-format cache, fast path before the threshold test
        if string_output and output_format in cache:
            return cache[output_format]
        out = orig_shex_graph(self, string_output=string_output, output_file=output_file, output_format=output_format,
                              acceptance_threshold=acceptance_threshold, verbose=verbose, to_uml_path=to_uml_path)
        if string_output:
            cache[output_format] = out
        return out

    def selectors_by_local_name(self, str_list, instantiation_property, limit_remote_instances):
        result = lcm.ShapeMap()
        by_name = {}
        for str_class in str_list:                                                 # seeded: keyed by the class's local name
            by_name[self._get_shape_label_for_class_uri(str_class)] = str_class
        for str_class in by_name.values():
            raw = self._get_raw_selector_to_catch_instances_of_class_uri(class_uri=str_class, instantiation_property=str(instantiation_property),
                                                                         limit_remote_instances=limit_remote_instances)
            result.add_item(lcm.ShapeMapItem(node_selector=self._get_node_selector_object_for_raw_selector(raw),
                                             shape_label=self._get_shape_label_for_class_uri(str_class)))
        return result

    orig_nt_tune_token = nty.tune_token

    def tune_token_strips_content(a_token, *a, **kw):
        r = orig_nt_tune_token(a_token, *a, **kw)
        if isinstance(r, tyl.Literal):                                             # seeded: Literal(content=content.strip(), ...)
            return tyl.Literal(content=str(r).strip(), elem_type=r.elem_type)
        return r

    orig_yield_base_shapes = ass.AbstractShexingStrategy.yield_base_shapes

    def yield_base_shapes_skips_empty(self, acceptance_threshold):
        for a_shape in self._yield_base_shapes_direction_aware(acceptance_threshold=acceptance_threshold):
            if a_shape.n_instances != 0:                                           # seeded: the '%' placeholder is left for instance-less shapes
                self._strategy_min_iri.annotate_shape_iri(a_shape)
            yield a_shape

    import shexer.io.graph.yielder.base_triples_yielder as bty
    import shexer.core.instances.mix.mixed_instance_tracker as mit
    import shexer.model.graph.rdflib_sgraph as rsg

    def corners_for_anything_http(a_candidate_uri):
        if a_candidate_uri.startswith("http"):                                     # seeded: not "http://" / "https://"
            return "<" + a_candidate_uri + ">"
        return a_candidate_uri

    def patch_corners():
        olds = [(m, m.add_corners_if_it_is_an_uri) for m in (sfs, rsg) if hasattr(m, "add_corners_if_it_is_an_uri")]
        for m, _ in olds:
            m.add_corners_if_it_is_an_uri = corners_for_anything_http

        def undo():
            for m, o in olds:
                m.add_corners_if_it_is_an_uri = o
        return undo

    def decide_line_reader_truthy(self, raw_graph, source_file, compression_mode=None, zip_base_archive=None):
        if raw_graph:                                                              # seeded: `if raw_graph:` instead of `is not None`
            return bty.RawStringLineReader(raw_string=raw_graph)
        return bty.FileLineReader(source_file=source_file)

    def integrate_dicts_wrong_ambiguity(self, reference_dict, new_dict, new_tracker):
        for an_instance, classes in new_dict.items():
            if an_instance not in reference_dict:
                reference_dict[an_instance] = []
            for a_class in classes:
                if a_class in reference_dict:                                      # seeded: a dict keyed by INSTANCES
                    reference_dict[an_instance].append(self._get_label_for_ambiguous_class(a_class=a_class, tracker=new_tracker))
                else:
                    reference_dict[an_instance].append(a_class)

    import shexer.io.shex.formater.statement_serializers.fixed_prop_choice_statement_serializer as fpc
    import shexer.io.graph.yielder.rdflib_triple_yielder as rty
    import shexer.io.graph.yielder.big_ttl_triples_yielder as btt
    import shexer.utils.shapes as ush
    import shexer.utils.factories.instance_tracker_factory as itf
    orig_choice_serialize = fpc.FixedPropChoiceStatementSerializer.serialize_statement_with_indent_level

    def choice_separator_inverted(self, a_statement, is_last_statement_of_shape, namespaces_dict):
        return orig_choice_serialize(self, a_statement, not is_last_statement_of_shape, namespaces_dict)   # seeded: ';' only when LAST

    def prefixize_longest_slash_only(target_uri, namespaces_prefix_dict, corners=True):
        candidate_uri = target_uri[1:-1] if corners and target_uri.startswith("<") else target_uri
        best = None
        for ns in namespaces_prefix_dict:                                          # seeded: longest match, only '/' tested on the remainder
            if candidate_uri.startswith(ns) and "/" not in candidate_uri[len(ns):] and (best is None or len(ns) > len(best)):
                best = ns
        return target_uri if best is None else candidate_uri.replace(best, namespaces_prefix_dict[best] + ":")

    orig_add_shape = shs.ShaclSerializer._add_shape

    def add_shape_skips_empty(self, shape):
        if shape.n_statements == 0:                                                # seeded: early return for a shape without statements
            return
        orig_add_shape(self, shape)

    def add_shape_returns_without_stem(self, shape):
        r_shape_uri = self._generate_shape_uri(shape_name=shape.name)
        self._add_shape_uri(r_shape_uri=r_shape_uri)
        self._add_target_class(r_shape_uri=r_shape_uri, shape=shape)
        if self._detect_minimal_iri:
            if self._shape_example_features.shape_min_iri(shape_id=shape.class_uri) is None:
                return                                                             # seeded: inlined _add_min_iri returns, constraints skipped
            self._add_triple(r_shape_uri, shs._R_SHACL_PATTERN_PROP, self._literal_iri_pattern(shape))
        self._add_shape_constraints(shape=shape, r_shape_uri=r_shape_uri)

    def model_literal_to_python(rdflib_literal):
        content = str(rdflib_literal.toPython())                                   # seeded: the Python value instead of the lexical form
        if rdflib_literal.datatype is not None:
            elem_type = str(rdflib_literal.datatype)
        elif rdflib_literal.language is not None:
            content = '"' + content + '"@' + rdflib_literal.language
            elem_type = rty.LANG_STRING_TYPE
        else:
            elem_type = rty.STRING_TYPE
        return rty.model_Literal(content=content, elem_type=elem_type)

    orig_get_instance_tracker = shp.get_instance_tracker

    def get_instance_tracker_cap_as_limit(**kw):
        g = itf.get_triple_yielder                                                 # seeded: endpoint yielder built with limit_remote_instances=instances_cap
        itf.get_triple_yielder = lambda **k: g(**dict(k, limit_remote_instances=kw.get("instances_cap", -1)))
        try:
            return orig_get_instance_tracker(**kw)
        finally:
            itf.get_triple_yielder = g

    def literal_ending_off_by_one(self, target_str, start_index):
        next_quotes = self._find_next_unescaped_quotes(target_str=target_str, start_index=start_index + 1)
        if next_quotes + 1 > len(target_str) or target_str[next_quotes + 1] == " ":   # seeded guard: IndexError when the quote ends the line
            return next_quotes
        elif target_str[next_quotes + 1] == "^":
            return self._find_next_blank(target_str, next_quotes) - 1
        raise ValueError("Malformed literal? " + target_str)

    def feature_dicts_not_split(self, shape_label):
        return [self._c_shapes_dict[shape_label]]                                  # seeded: the (direct, inverse) tuple itself

    def add_dominant_loses_inverse(self, statement):
        statement.is_inverse = False                                               # seeded: merged NONLITERAL statement loses is_inverse
        orig_add_dominant(self, statement)

    return [
        ("C05", "seeded: shex_graph keeps the class shexer for a new threshold (shapes accumulate)",
         setattr_patch(shp.Shaper, "shex_graph", shex_graph_keeps_shexer)),
        ("C04", "seeded: profile_graph re-runs the class profiler on every call (no `if self._profile is None`)",
         setattr_patch(shp.Shaper, "profile_graph", profile_graph_unguarded)),
        ("C05", "seeded: find_adequate_prefix_for_shapes_namespaces iterates a generator consumed by `in`",
         setattr_patch(shp, "find_adequate_prefix_for_shapes_namespaces", prefix_with_generator)),
        ("C15", "seeded: tune_token accepts untyped numbers only when the first character is a digit",
         setattr_patch(sfs, "tune_token", tune_token_digit_only)),
        ("C15", "seeded: limit_remote_instances takes precedence over instances_cap",
         setattr_patch(shp.Shaper, "__init__", init_limit_wins)),
        ("C17", "seeded: the stem is cut at the last '/' or '#', at ':' only when neither exists",
         setattr_patch(amis.AnnotateMinIriStrategy, "_determine_suitable_iri_pattern", pattern_colon_last_resort)),
        ("C15", "seeded: add_corners_if_it_is_an_uri tests startswith('http')", patch_corners),
        ("C04", "seeded: _decide_line_reader tests `if raw_graph:` (empty raw graph -> file reader with source_file=None)",
         setattr_patch(bty.BaseTriplesYielder, "_decide_line_reader", decide_line_reader_truthy)),
        ("C05", "seeded: MixedInstanceTracker._integrate_dicts tests the class against the dict of instances",
         setattr_patch(mit.MixedInstanceTracker, "_integrate_dicts", integrate_dicts_wrong_ambiguity)),
        ("C05", "seeded: the OR-constraint serializer inverted its ';' logic",
         setattr_patch(fpc.FixedPropChoiceStatementSerializer, "serialize_statement_with_indent_level", choice_separator_inverted)),
        ("C05", "seeded: prefixize_uri_if_possible (shape labels) picks the longest namespace and only tests '/' on the remainder",
         setattr_patch(ush, "prefixize_uri_if_possible", prefixize_longest_slash_only)),
        ("C11", "seeded: ShaclSerializer._add_shape returns early for a shape without statements",
         setattr_patch(shs.ShaclSerializer, "_add_shape", add_shape_skips_empty)),
        ("C17", "seeded: rdflib literals are converted with str(toPython())",
         setattr_patch(rty.RdflibTripleYielder, "_turn_into_model_literal", staticmethod(model_literal_to_python))),
        ("C17", "seeded: ShaclSerializer._add_shape returns before the constraints when the shape has no stem",
         setattr_patch(shs.ShaclSerializer, "_add_shape", add_shape_returns_without_stem)),
        ("C15", "seeded: the endpoint yielder of the instance tracker is built with limit_remote_instances=instances_cap",
         setattr_patch(shp, "get_instance_tracker", get_instance_tracker_cap_as_limit)),
        ("C04", "seeded: turtle_iter literal-ending guard off by one (IndexError when a plain literal ends its line)",
         setattr_patch(btt.BigTtlTriplesYielder, "_find_next_quoted_literal_ending", literal_ending_off_by_one)),
        ("C04", "seeded: IncludeReverseFeaturesStrategy.feature_dicts_of_shape returns the tuple itself",
         setattr_patch(irfs.IncludeReverseFeaturesStrategy, "feature_dicts_of_shape", feature_dicts_not_split)),
        ("C11", "seeded: shex_graph returns a per-format cached string before looking at the threshold",
         setattr_patch(shp.Shaper, "shex_graph", shex_graph_output_cache)),
        ("C15", "seeded: class selectors for the endpoint are collected in a dict keyed by the class's local name",
         setattr_patch(lcm.ListOfClassesToShapeMap, "str_class_list_to_shape_map_sparql_selectors", selectors_by_local_name)),
        ("C17", "seeded: the N-Triples reader strips the lexical form of literals",
         setattr_patch(nty, "tune_token", tune_token_strips_content)),
        ("C17", "seeded: yield_base_shapes does not annotate the stem of a shape without instances ('%' placeholder printed)",
         setattr_patch(ass.AbstractShexingStrategy, "yield_base_shapes", yield_base_shapes_skips_empty)),
        ("C03", "duplicated lines: a repeated statement line counts for the node kind but not for the shape reference",
         setattr_patch(afds.AbstractFeatureDirectionStrategy, "_annotate_target_subject", annotate_subject_repeated_line_half)),
        ("C04", "seeded: the merged NONLITERAL statement loses is_inverse",
         setattr_patch(ass.MergeableConstraints, "_add_dominant", add_dominant_loses_inverse)),
        ("C04", "seeded: _determine_suitable_iri_pattern tests candidate.split('/')[2] (IndexError on urn:/tag:/mailto: stems)",
         setattr_patch(amis.AnnotateMinIriStrategy, "_determine_suitable_iri_pattern", pattern_split_rewrite)),
        ("C15", "seeded: _add_corners_if_needed recognises only http(s) IRIs in result cells",
         setattr_patch(spq, "_add_corners_if_needed", corners_http_only)),
        ("C17", "seeded: longest_common_prefix rewritten with zip, returns uri2 when no mismatch is found",
         setattr_patch(cpr, "longest_common_prefix", lcp_zip_rewrite)),
        ("C03", "relaxation always uses '?' (also when an instance has several values)",
         setattr_patch(ass.AbstractShexingStrategy, "_change_statement_cardinality_to_all_compliant", always_opt)),
        ("C03", "with the mode off exact cardinalities are generalised to '+'",
         setattr_patch(ass.AbstractShexingStrategy, "_tune_list_of_valid_statements", tune_off_generalises)),
        ("C04", "ShExC serializer divides by (n_instances - 2)",
         setattr_patch(sxs.ShexSerializer, "_instance_count", instance_count_div)),
        ("C05", "statements pointing to removed (empty) shapes are kept",
         setattr_patch(cs.ClassShexer, "_remove_statements_to_gone_shapes", keep_statements_to_gone_shapes)),
        ("C05", "the shapes prefix is always the empty prefix, also when the user took it",
         setattr_patch(shp, "find_adequate_prefix_for_shapes_namespaces", always_empty_prefix)),
        ("C11", "SHACL: no sh:maxCount for '?'",
         setattr_patch(shs.ShaclSerializer, "_max_occurs_from_cardinality", max_occurs_no_opt)),
        ("C11", "SHACL: datatypes written as sh:nodeKind sh:Literal",
         setattr_patch(shs.ShaclSerializer, "_add_dataType_literal", datatype_as_literal_kind)),
        ("C17", "the IRI stem is the raw common prefix (not cut back to a separator)",
         setattr_patch(amis.AnnotateMinIriStrategy, "_determine_suitable_iri_pattern", pattern_not_cut)),
        ("C17", "constraint examples store the subject instead of the object",
         setattr_patch(dfs.DirectFeaturesStrategy, "_annotate_example_no_inverse", example_is_subject)),
        ("C15", "the endpoint cache drops literal-valued triples",
         setattr_patch(eg.EndpointSGraph, "_store_triple_locally", store_drops_literals)),
        ("C15", "the cached path queries every subject twice",
         setattr_patch(eg.EndpointSGraph, "_yield_local_p_o_triples_of_an_s", local_po_never_tracked)),
    ]


def _selftest(verbose=True):
    ok = True
    t00 = time.time()
    baseline = {}
    for pid, desc, patch in _mutants():
        t0 = time.time()
        if pid not in baseline:
            baseline[pid] = set(run(pid, "selftest", 0)["all_finding_keys"])
        undo = patch()
        try:
            res = run(pid, "selftest", 0)
        finally:
            undo()
        new = [k for k in res["all_finding_keys"] if k not in baseline[pid]]
        hit = bool(new)
        ok = ok and hit
        if verbose:
            print("%-4s %-4s mutant: %-78s -> %d new finding key(s) %s  [%d calls, %.1fs]"
                  % ("ok" if hit else "FAIL", pid, desc, len(new), new[:3], res["evaluations"], time.time() - t0))
    if verbose:
        print("baseline keys on the unpatched tree: %s" % dict((k, sorted(v)) for k, v in baseline.items()))
        print("selftest %s in %.1fs" % ("passed: every mutant is detected" if ok else "FAILED", time.time() - t00))
    return ok


def main(argv):
    if len(argv) >= 1 and argv[0] == "selftest":
        return 0 if _selftest() else 1
    if len(argv) >= 2 and argv[0] == "run":
        res = run(argv[1], argv[2] if len(argv) > 2 else "quick", int(argv[3]) if len(argv) > 3 else 0)
        brief = dict((k, v) for k, v in res.items() if k not in ("samples", "findings", "rule", "bounds"))
        print(json.dumps(brief, indent=1, default=str))
        for f in res["findings"]:
            print("FINDING %s (x%d): %s" % (f["key"], f.get("occurrences", 1), f["what"][:900]))
            print("   input: %s" % json.dumps(f["input"], default=str)[:1800])
        return 0
    print(__doc__)
    return 2


if __name__ == "__main__":
    sys.exit(main(sys.argv[1:]))
