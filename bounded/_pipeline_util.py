"""Helpers of bounded/pipeline.py: environment set-up (VERIF_REPO first on sys.path), guarded sheXer
runs, N-Triples round trip, graph families, normalisation of the ShExC output and the figure / key
comparison against the oracle (lib/graphspec).  Everything here is bounded testing machinery; nothing
is proved."""
import collections
import hashlib
import itertools
import json
import os
import re
import signal
import sys
import warnings
from decimal import Decimal, ROUND_HALF_EVEN, ROUND_HALF_UP
from fractions import Fraction

HERE = os.path.dirname(os.path.abspath(__file__))
VERIF = os.path.dirname(HERE)
LIB = os.path.join(VERIF, "lib")

warnings.simplefilter("ignore")

SHAPES_NS = "http://weso.es/shapes/"
ALT_SHAPES_NS = "http://shapes.ex/"
DT_FOO = "http://ex.org/dt/foo"
PI_ISA = "http://ex.org/isa"
TIMEOUT = 10


# ------------------------------------------------------------------------------------------------
# environment
# ------------------------------------------------------------------------------------------------
class Env(object):
    pass


_ENV = None


def repo_path():
    return os.environ.get("VERIF_REPO", "/repo")


def env():
    """Import sheXer from $VERIF_REPO (first on sys.path; stale shexer modules purged) and the oracle
    library.  Idempotent per process; a forked worker inherits the parent's state."""
    global _ENV
    repo = repo_path()
    if _ENV is not None and _ENV.repo == repo:
        return _ENV
    real = os.path.realpath(repo)
    for name, mod in list(sys.modules.items()):
        if name == "shexer" or name.startswith("shexer."):
            f = getattr(mod, "__file__", None)
            if f is None:
                paths = list(getattr(mod, "__path__", []) or [])
                f = paths[0] if paths else None
            if f is None or not (os.path.realpath(f) + os.sep).startswith(real + os.sep):
                del sys.modules[name]

    def repo_first():
        while repo in sys.path:
            sys.path.remove(repo)
        sys.path.insert(0, repo)

    if LIB not in sys.path:
        sys.path.insert(0, LIB)
    repo_first()
    import shexer.shaper                      # noqa: F401  (from $VERIF_REPO)
    got = os.path.realpath(sys.modules["shexer"].__file__)
    if not got.startswith(real + os.sep):
        raise RuntimeError("shexer imported from %s, not from VERIF_REPO=%s" % (got, repo))
    import rdfmodel
    import graphspec
    import graphgen
    import shexc_parse
    import validate_oracle                    # imports shexer.shaper: already bound to $VERIF_REPO
    repo_first()                              # validate_oracle re-orders sys.path; restore
    e = Env()
    e.repo = repo
    e.M, e.S, e.G, e.P, e.V = rdfmodel, graphspec, graphgen, shexc_parse, validate_oracle
    _ENV = e
    return e


def lib():
    """Oracle library without sheXer (used by the parent process to generate cases)."""
    if LIB not in sys.path:
        sys.path.insert(0, LIB)
    import rdfmodel
    import graphspec
    import graphgen
    return rdfmodel, graphspec, graphgen


class WallClockTimeout(BaseException):
    pass


def _on_alarm(signum, frame):
    raise WallClockTimeout()


def run_shexer(nt, cfg, t=0):
    """One fresh Shaper on N-Triples text.  cfg: json-able Shaper keyword arguments (defaults:
    namespaces_dict=graphgen.NAMESPACES, instances_report_mode='mixed', disable_comments=False).
    Raises whatever sheXer raises; WallClockTimeout after TIMEOUT seconds."""
    e = env()
    kw = dict(cfg)
    ns = kw.pop("namespaces_dict", None)
    ns = dict(ns) if ns is not None else dict(e.G.NAMESPACES)
    kw.setdefault("instances_report_mode", "mixed")
    kw.setdefault("disable_comments", False)
    if "target_classes" in kw and kw["target_classes"] is not None:
        kw["target_classes"] = list(kw["target_classes"])
    if "namespaces_to_ignore" in kw and kw["namespaces_to_ignore"] is not None:
        kw["namespaces_to_ignore"] = list(kw["namespaces_to_ignore"])
    Shaper = sys.modules["shexer.shaper"].Shaper
    old = signal.signal(signal.SIGALRM, _on_alarm)
    signal.alarm(TIMEOUT)
    try:
        shaper = Shaper(raw_graph=nt, input_format="nt", namespaces_dict=ns, **kw)
        return shaper.shex_graph(string_output=True, acceptance_threshold=t)
    finally:
        signal.alarm(0)
        signal.signal(signal.SIGALRM, old)


class Skipped(Exception):
    """A sheXer run that cannot be judged (crash, timeout, unparsable output)."""

    def __init__(self, signature):
        Exception.__init__(self, signature)
        self.signature = signature


class Runner(object):
    """Runs sheXer, parses and normalises the output, and keeps the book-keeping of one case."""

    def __init__(self):
        self.evaluations = 0
        self.crashes = collections.Counter()
        self.nontrivial = set()
        self.findings = []

    def run(self, nt, cfg, t=0):
        """-> normalised output (list of shape dicts).  Raises Skipped."""
        e = env()
        self.evaluations += 1
        try:
            text = run_shexer(nt, cfg, t)
        except WallClockTimeout:
            self.crashes["timeout"] += 1
            raise Skipped("timeout")
        except Exception as exc:             # crash of sheXer: property C04's business
            sig = e.V.crash_signature(exc)
            self.crashes[sig] += 1
            raise Skipped(sig)
        try:
            doc = e.P.parse_shexc(text)
        except e.P.ShexcParseError as exc:
            sig = "unparsable-output: %s" % exc.msg
            self.crashes[sig] += 1
            raise Skipped(sig)
        nd = norm_doc(doc)
        if any(sh["cons"] for sh in nd):
            self.nontrivial.add(digest(nt, cfg, t))
        return nd

    def emit(self, key, what, case, **detail):
        inp = {"case": case}
        inp.update(detail)
        self.findings.append({"key": key, "what": what, "input": inp})

    def result(self):
        return {"evaluations": self.evaluations, "crashes": dict(self.crashes),
                "nontrivial": sorted(self.nontrivial), "findings": self.findings}


def digest(nt, cfg, t):
    h = hashlib.blake2b(digest_size=8)
    h.update(nt.encode("utf-8"))
    h.update(json.dumps(cfg, sort_keys=True, default=str).encode("utf-8"))
    h.update(repr(t).encode("utf-8"))
    return h.hexdigest()


# ------------------------------------------------------------------------------------------------
# N-Triples round trip (only the dialect written by rdfmodel.to_ntriples)
# ------------------------------------------------------------------------------------------------
_RE_LINE = re.compile(r'^(<[^>]*>|_:\S+) <([^>]*)> (.*) \.$')
_RE_LIT = re.compile(r'^"((?:[^"\\]|\\.)*)"(?:\^\^<([^>]*)>|@([A-Za-z0-9\-]+))?$')


def _unescape(s):
    out, i = [], 0
    while i < len(s):
        ch = s[i]
        if ch == "\\" and i + 1 < len(s):
            nx = s[i + 1]
            out.append({"n": "\n", "r": "\r", '"': '"', "\\": "\\"}.get(nx, nx))
            i += 2
        else:
            out.append(ch)
            i += 1
    return "".join(out)


def parse_nt(nt):
    M = lib()[0]

    def node(tok):
        if tok.startswith("<"):
            return M.IRI(tok[1:-1])
        if tok.startswith("_:"):
            return M.BNode(tok[2:])
        m = _RE_LIT.match(tok)
        if not m:
            raise ValueError("bad object token %r" % tok)
        return M.Lit(_unescape(m.group(1)), dt=m.group(2), lang=m.group(3))

    T = []
    for line in nt.split("\n"):
        if not line.strip():
            continue
        m = _RE_LINE.match(line)
        if not m:
            raise ValueError("bad N-Triples line %r" % line)
        T.append(M.Triple(node(m.group(1)), m.group(2), node(m.group(3))))
    return T


def to_nt(T):
    return lib()[0].to_ntriples(T)


# ------------------------------------------------------------------------------------------------
# graph families (no language-tagged literals)
# ------------------------------------------------------------------------------------------------
def dedup(T):
    seen, out = set(), []
    for t in T:
        if t not in seen:
            seen.add(t)
            out.append(t)
    return out


def enum_small(limit, third="iri", offset=0, pi=None):
    """Deterministic enumerated family, sampled with a stride over the whole space.

    Nodes s1, s2 (IRIs) and a third node (IRI s3, or blank node _:b1 with third='bnode'); every node
    typed with one of [], [A], [B], [A,B] (not all empty); 1..3 data triples over the properties
    ex:p / o:q whose objects are drawn from "x", "1"^^xsd:integer, "v"^^<http://ex.org/dt/foo>, an
    untyped IRI and the other two nodes.  Type triples first for even indices, last for odd ones."""
    M, S, G = lib()
    pi = pi or M.RDF_TYPE
    s1, s2 = M.IRI(G.EX + "s1"), M.IRI(G.EX + "s2")
    n3 = M.IRI(G.EX + "s3") if third == "iri" else M.BNode("b1")
    nodes = (s1, s2, n3)
    typings = [(), (G.CLASS_A,), (G.CLASS_B,), (G.CLASS_A, G.CLASS_B)]
    typing_space = [ty for ty in itertools.product(typings, repeat=3) if any(ty)]
    objs = [M.Lit("x"), M.Lit("1", dt=M.XSD_INTEGER), M.Lit("v", dt=DT_FOO), M.IRI(G.OTHER + "u1")]
    pool = [M.Triple(s, p, o) for s in nodes for p in (G.PROP_P, G.PROP_Q)
            for o in objs + [x for x in nodes if x != s]]
    combos = [c for k in (1, 2, 3) for c in itertools.combinations(range(len(pool)), k)]
    total = len(combos) * len(typing_space)
    limit = min(limit, total)
    stride = max(1, total // max(1, limit))
    if stride % len(typing_space) == 0:
        stride += 1                          # walk through the typings as well
    out = []
    for i in range(limit):
        idx = (offset + i * stride) % total
        typing = typing_space[idx % len(typing_space)]
        combo = combos[idx // len(typing_space)]
        types = [M.Triple(s, pi, M.IRI(C)) for s, cs in zip(nodes, typing) for C in cs]
        data = [pool[j] for j in combo]
        out.append(dedup(types + data if i % 2 == 0 else data + types))
    return out


def rand_graph(rng, n_nodes=6, n_triples=14, n_classes=3, n_props=4, p_bnode=0.0, p_typed=0.75,
               max_types=3, p_literal=0.4, p_link_typed=0.6, pi=None, extra_props=(), shuffle=True,
               bnode_objects=True):
    """Seeded random graph: IRI nodes in two namespaces (blank nodes with probability p_bnode), typed
    with 0..max_types of the classes A..E, data triples with plain / xsd:integer / custom-datatype
    literals, links to typed and untyped nodes; repeated (s, p) pairs give cardinalities > 1."""
    M, S, G = lib()
    pi = pi or M.RDF_TYPE
    classes = [G.EX + c for c in ["A", "B", "C", "D", "E"][:n_classes]]
    props = [(G.EX if i % 2 == 0 else G.OTHER) + "p%d" % i for i in range(n_props)] + list(extra_props)
    nodes = []
    for i in range(n_nodes):
        if rng.random() < p_bnode:
            nodes.append(M.BNode("n%d" % i))
        else:
            nodes.append(M.IRI((G.EX if rng.random() < 0.7 else G.OTHER) + "n%d" % i))
    T, typed = [], []
    for x in nodes:
        if rng.random() < p_typed:
            for C in rng.sample(classes, rng.randint(1, min(max_types, len(classes)))):
                T.append(M.Triple(x, pi, M.IRI(C)))
            typed.append(x)
    if not typed:
        T.append(M.Triple(nodes[0], pi, M.IRI(classes[0])))
        typed.append(nodes[0])
    untyped = [x for x in nodes if x not in typed]
    extra = [M.IRI(G.OTHER + "u%d" % i) for i in range(2)]
    if p_bnode > 0 and bnode_objects:
        extra += [M.BNode("u%d" % i) for i in range(2)]
    lits = [M.Lit("x"), M.Lit("y"), M.Lit("z"), M.Lit("1", dt=M.XSD_INTEGER), M.Lit("2", dt=M.XSD_INTEGER),
            M.Lit("v", dt=DT_FOO), M.Lit("w", dt=DT_FOO)]
    for _ in range(n_triples):
        s = rng.choice(typed) if rng.random() < 0.85 else rng.choice(nodes)
        p = rng.choice(props)
        if rng.random() < p_literal:
            o = rng.choice(lits)
        elif rng.random() < p_link_typed:
            o = rng.choice(typed)
        else:
            o = rng.choice(untyped + extra)
        T.append(M.Triple(s, p, o))
    T = dedup(T)
    if shuffle:
        rng.shuffle(T)
    return T


def mixed_family(rng, n_enum, n_rand, bnodes=True, big=False, pi=None, extra_props=(), offset=0):
    """[(origin, T)]: n_enum enumerated small graphs + n_rand seeded random ones."""
    out = []
    if bnodes:
        k = n_enum // 3
        out += [("enum-bnode", T) for T in enum_small(k, "bnode", offset, pi)]
        out += [("enum-iri", T) for T in enum_small(n_enum - k, "iri", offset, pi)]
    else:
        out += [("enum-iri", T) for T in enum_small(n_enum, "iri", offset, pi)]
    for i in range(n_rand):
        pb = 0.0
        if bnodes and i % 3 == 0:
            pb = 0.2
        hi_nodes, hi_tr = (12, 40) if big else (8, 20)
        out.append(("random", rand_graph(rng, n_nodes=rng.randint(3, hi_nodes), n_triples=rng.randint(4, hi_tr),
                                         n_classes=rng.randint(2, 3), n_props=rng.randint(2, 4), p_bnode=pb,
                                         pi=pi, extra_props=extra_props)))
    return out


def add_url_literals(T, rng, n=2):
    """Append literals whose lexical form is exactly the identity string of a node of T (the IRI of an
    IRI node, '_:label' of a blank node): a URL kept as a plain string must never count as a link."""
    M, S, G = lib()
    nodes = dedup([x for (s, p, o) in T for x in (s, o) if not M.is_literal(x)])
    typed = dedup([s for (s, p, o) in T if p == M.RDF_TYPE])
    subjects = dedup([s for (s, p, o) in T])
    props = dedup([p for (s, p, o) in T if p != M.RDF_TYPE]) + [G.EX + "homepage"]
    out = list(T)
    for i in range(n):
        target = rng.choice(typed if typed and rng.random() < 0.8 else nodes)
        s = rng.choice(subjects)
        p = props[-1] if i == 0 else rng.choice(props)
        dt = None if rng.random() < 0.8 else DT_FOO
        out.insert(rng.randint(0, len(out)), M.Triple(s, p, M.Lit(M.node_id(target), dt=dt)))
    return dedup(out)


def literal_link_hits(T):
    """{predicate: set of node identity strings that occur as the lexical form of a literal object}."""
    M = lib()[0]
    ids = set(M.node_id(x) for (s, p, o) in T for x in (s, o) if not M.is_literal(x))
    hits = {}
    for (s, p, o) in T:
        if M.is_literal(o) and o.lex in ids:
            hits.setdefault(p, set()).add(o.lex)
    return hits


# ---- float-boundary family (C02/C12): class sizes at which (k / N) * N != k in IEEE doubles ---------
FB_SIZES = (25, 41, 50, 100)
FB_PREFERRED = {25: 7, 41: 23, 50: 14, 100: 55}
FB_PROP = "http://ex.org/p"
FB_INC = "http://ex.org/inc"
FB_CTRL = "http://other.org/ns#q"


def _float_boundary_pairs():
    """[(k, N, tag)]: per N one pair whose product (k/N)*N rounds ABOVE k (a filter written as
    n >= t*N drops the boundary case), one pair rounding BELOW k if the sizes offer one, and one
    control pair per N whose product is exact.  Searched at import, nothing hard-wired."""
    out, below = [], None
    for N in FB_SIZES:
        up = [k for k in range(1, N) if (float(k) / N) * N > k]
        dn = [k for k in range(1, N) if (float(k) / N) * N < k]
        ex = [k for k in range(3, N - 1) if (float(k) / N) * N == k]
        if up:
            out.append((FB_PREFERRED[N] if FB_PREFERRED.get(N) in up else up[0], N, "above"))
        if dn:
            below = (dn[-1], N, "below")
        if ex:
            out.append((ex[0], N, "exact"))
    if below:
        out.append(below)
    return out


FLOAT_BOUNDARY_PAIRS = _float_boundary_pairs()


def float_boundary_graph(k, N):
    """One class A with N IRI instances i0..i(N-1); ex:p "x" on the first k of them; o:q (integer) on
    all; k incoming ex:inc triples from untyped IRI subjects to the LAST k instances."""
    M, S, G = lib()
    inst = [M.IRI(G.EX + "i%d" % i) for i in range(N)]
    T = [M.Triple(x, M.RDF_TYPE, M.IRI(G.CLASS_A)) for x in inst]
    T += [M.Triple(x, FB_PROP, M.Lit("x")) for x in inst[:k]]
    T += [M.Triple(x, FB_CTRL, M.Lit("1", dt=M.XSD_INTEGER)) for x in inst]
    T += [M.Triple(M.IRI(G.OTHER + "w%d" % i), FB_INC, x) for i, x in enumerate(inst[N - k:])]
    return T


# ------------------------------------------------------------------------------------------------
# normalised output
# ------------------------------------------------------------------------------------------------
def _freeze(v):
    if v is None:
        return None
    if v[0] == "or":
        return ("or", tuple(_freeze(x) for x in v[1]))
    return tuple(v)


def norm_doc(doc):
    out = []
    for sh in doc.shapes:
        cons = []
        for c in sh.constraints:
            cons.append({"inv": bool(c.inverse), "p": c.predicate, "value": _freeze(c.value), "card": c.cardinality,
                         "ratio": c.ratio, "rt": c.ratio_text, "count": c.count, "raw": c.raw,
                         "comments": [{"value": _freeze(k.value), "card": k.cardinality, "ratio": k.ratio,
                                       "rt": k.ratio_text, "count": k.count, "raw": k.raw}
                                      for k in c.figure_comments()]})
        out.append({"label": sh.label_iri, "N": sh.n_instances, "cons": cons})
    return out


def local_name(iri):
    return iri[max(iri.rfind("#"), iri.rfind("/")) + 1:]


def label_of(C, shapes_ns=SHAPES_NS):
    return shapes_ns + local_name(C)


def expand_class(c, namespaces=None):
    """Full IRI of a target class given as IRI, <IRI> or prefixed name."""
    G = lib()[2]
    if c.startswith("<") and c.endswith(">"):
        return c[1:-1]
    for ns, prefix in (namespaces or G.NAMESPACES).items():
        if c.startswith(prefix + ":") and not c.startswith("http"):
            return ns + c[len(prefix) + 1:]
    return c


def spec_for(T, cfg):
    """Oracle of the figures for the target selection in cfg."""
    M, S, G = lib()
    targets = [expand_class(c, cfg.get("namespaces_dict")) for c in (cfg.get("target_classes") or [])]
    cap = cfg.get("instances_cap", -1)
    return S.compute(T, pi=cfg.get("instantiation_property", M.RDF_TYPE),
                     all_classes=bool(cfg.get("all_classes_mode")), targets=targets,
                     inverse=bool(cfg.get("inverse_paths")), cap=cap if cap and cap > 0 else None)


def spec_for_instances(T, inst, inverse=False, pi=None):
    """Oracle for shapes defined by explicit node sets (shape maps): inst = {label: [nodes]}.
    Same definitions as graphspec.compute with classes(x) = [label | x in inst[label]]; the
    instantiation property keeps its value-set treatment."""
    M, S, G = lib()
    pi = pi or M.RDF_TYPE
    classes = {}
    for L, xs in inst.items():
        for x in xs:
            classes.setdefault(x, []).append(L)

    def kind(o, p):
        if M.is_literal(o):
            return o.datatype
        return M.node_id(o) if p == pi else o.kind

    cnt, icnt = {}, {}
    for (s, p, o) in T:
        if s in classes:
            ks = set([kind(o, p)])
            if p != pi and not M.is_literal(o):
                ks.update(S.shape(L) for L in classes.get(o, []))
            for k in ks:
                cnt[(s, p, k)] = cnt.get((s, p, k), 0) + 1
        if inverse and not M.is_literal(o) and o in classes:
            ks = set([M.node_id(s) if p == pi else s.kind])
            if p != pi and isinstance(s, M.IRI):
                ks.update(S.shape(L) for L in classes.get(s, []))
            for k in ks:
                icnt[(o, p, k)] = icnt.get((o, p, k), 0) + 1
    prof = {}
    for d, table in ((S.DIRECT, cnt), (S.INVERSE, icnt)):
        for (x, p, k), c in table.items():
            for L in classes[x]:
                for cc in ((1,) if p == pi else (c, S.PLUS)):
                    prof[(L, d, p, k, cc)] = prof.get((L, d, p, k, cc), 0) + 1
    return S.Spec(pi, classes, dict((L, list(xs)) for L, xs in inst.items()), prof)


def kind_of(value, l2c):
    """Oracle kind of a printed value; None for NONLITERAL / OR / '.'; ('?', label) for a reference
    to a shape that corresponds to no class."""
    S = lib()[1]
    tag = value[0]
    if tag in ("datatype", "valueset"):
        return value[1]
    if tag in ("IRI", "BNode"):
        return tag
    if tag == "shape":
        C = l2c.get(value[1])
        return S.shape(C) if C is not None else ("?", value[1])
    return None


def kclass(k, p, pi):
    S = lib()[1]
    if isinstance(k, tuple):
        return "unknown-shape"
    if k is None:
        return "NONLITERAL"
    if p == pi:
        return "valueset"
    if k in ("IRI", "BNode"):
        return k
    if S.is_shape(k):
        return "shape"
    return "datatype"


def cclass(card):
    if isinstance(card, int):
        return "1" if card == 1 else "k"
    return str(card)


def con_key(c, l2c, pi):
    """(dir, p, vc) key of a printed constraint."""
    S = lib()[1]
    d = S.INVERSE if c["inv"] else S.DIRECT
    k = kind_of(c["value"], l2c)
    if k is None or isinstance(k, tuple):
        return (d, c["p"], S.NONLIT)
    return S.key_of(d, c["p"], k, pi)


def figures(sh):
    """[(constraint, source, value, card, ratio, ratio_text, count, raw)] of one normalised shape."""
    out = []
    for c in sh["cons"]:
        if c["card"] not in ("*", "?") and (c["count"] is not None or c["ratio"] is not None):
            out.append((c, "line", c["value"], c["card"], c["ratio"], c["rt"], c["count"], c["raw"]))
        for k in c["comments"]:
            out.append((c, "comment", k["value"], k["card"], k["ratio"], k["rt"], k["count"], k["raw"]))
    return out


def close(a, b, rel=1e-6):
    return abs(a - b) <= rel * max(1.0, abs(a), abs(b))


def check_figures(pid, nd, spec, l2c, cfg, report):
    """C01's comparison of every printed figure with the oracle.  report(key, what, observed, expected)."""
    S = lib()[1]
    pi = spec.pi
    gen_exact = bool(cfg.get("disable_exact_cardinality"))
    for sh in nd:
        C = l2c.get(sh["label"])
        if C is None or C not in spec.N:
            report("%s:unexpected-shape" % pid, "shape %s corresponds to no class/label with instances" % sh["label"],
                   sh["label"], sorted(l2c))
            continue
        N = spec.N[C]
        if sh["N"] is not None and sh["N"] != N:
            report("%s:instance-count:%s" % (pid, "more" if sh["N"] > N else "fewer"),
                   "shape %s reports %r instances, the graph has N=%d" % (sh["label"], sh["N"], N), sh["N"], N)
            continue
        for (c, source, value, card, ratio, rt, count, raw) in figures(sh):
            k = kind_of(value, l2c)
            if k is None:
                continue                                   # NONLITERAL-merged figure: skipped
            d = S.INVERSE if c["inv"] else S.DIRECT
            if isinstance(k, tuple):
                report("%s:unknown-shape-ref:%s" % (pid, d), "reference to a shape of no known class: %s" % raw,
                       value[1], sorted(l2c))
                continue
            cards = [card]
            if gen_exact and source == "line" and card == S.PLUS:
                cards += sorted(set(c2 for (C2, d2, p2, k2, c2) in spec.prof
                                    if C2 == C and d2 == d and p2 == c["p"] and k2 == k
                                    and isinstance(c2, int) and c2 > 1))
            ok, exp = False, None
            for cc in cards:
                n = spec.prof.get((C, d, c["p"], k, cc), 0)
                er = 100.0 * n / N
                if exp is None:
                    exp = (n, er)
                if (count is None or count == n) and (ratio is None or close(ratio, er)):
                    ok = True
                    break
            if ratio is not None and ratio > 100.0 * (1 + 1e-9):
                report("%s:ratio-above-100:%s:%s" % (pid, d, kclass(k, c["p"], pi)),
                       "ratio above 100 %%: %s" % raw, ratio, 100.0)
                continue
            if not ok:
                what = "count-mismatch" if (count is not None and count != exp[0]) else "ratio-mismatch"
                report("%s:%s:%s:%s:%s" % (pid, what, d, kclass(k, c["p"], pi), cclass(card)),
                       "%s %s%s kind=%s card=%r: printed n=%r ratio=%r, oracle n=%d ratio=%r [%s: %s]"
                       % (sh["label"], "^" if c["inv"] else "", c["p"], k, card, count, ratio, exp[0], exp[1],
                          source, raw.strip()),
                       {"count": count, "ratio": ratio}, {"count": exp[0], "ratio": exp[1]})


def expected_keys(spec, C, t):
    S = lib()[1]
    return set(S.key_of(e.dir, e.p, e.k, spec.pi) for e in spec.cand(C, t))


def check_keys(pid, nd, spec, l2c, t, report, check_shapes=True):
    """C02's comparison: printed keys == keys of cand(C, t), no duplicates, shape set."""
    S = lib()[1]
    pi = spec.pi
    printed = {}
    for sh in nd:
        C = l2c.get(sh["label"])
        if C is None or C not in spec.N:
            report("%s:extra-shape" % pid, "shape %s printed for a class/label without instances" % sh["label"],
                   sh["label"], sorted(l2c.get(x, x) for x in l2c))
            continue
        if sh["label"] in printed:
            report("%s:duplicate-shape" % pid, "shape %s printed twice" % sh["label"], sh["label"], None)
        printed[sh["label"]] = C
    gone = set(S.shape(C) for C in spec.N if label_of_class(C, l2c) not in printed)
    for sh in nd:
        C = printed.get(sh["label"])
        if C is None:
            continue
        keys = [con_key(c, l2c, pi) for c in sh["cons"]]
        seen = set()
        for kx in keys:
            if kx in seen:
                report("%s:duplicate-key:%s:%s" % (pid, kx[0], vclass(kx, pi)),
                       "shape %s has two constraints for key %r (t=%r)" % (sh["label"], kx, t), kx, None)
            seen.add(kx)
        exp = expected_keys(spec, C, t)
        for kx in sorted(exp - seen, key=repr):
            if kx[2] == S.NONLIT and gone:
                # cascade of empty-shape removal: tolerated when a candidate of the key refers to a removed shape
                if any(e.k in gone for e in spec.cand(C, t) if S.key_of(e.dir, e.p, e.k, pi) == kx):
                    continue
            report("%s:missing-key:%s:%s" % (pid, kx[0], vclass(kx, pi)),
                   "shape %s lacks a constraint for %r although a candidate reaches t=%r" % (sh["label"], kx, t),
                   sorted(seen, key=repr), sorted(exp, key=repr))
        for kx in sorted(seen - exp, key=repr):
            report("%s:extra-key:%s:%s" % (pid, kx[0], vclass(kx, pi)),
                   "shape %s has a constraint for %r but no candidate reaches t=%r" % (sh["label"], kx, t),
                   sorted(seen, key=repr), sorted(exp, key=repr))
    if check_shapes:
        for C in spec.N:
            if spec.N[C] == 0:
                continue
            lab = label_of_class(C, l2c)
            if lab in printed:
                continue
            if any(not S.is_shape(e.k) for e in spec.cand(C, t)):
                report("%s:missing-shape" % pid,
                       "no shape for %s although it has %d instance(s) and candidates at t=%r" % (C, spec.N[C], t),
                       sorted(printed), lab)


def label_of_class(C, l2c):
    for lab, C2 in l2c.items():
        if C2 == C:
            return lab
    return None


def vclass(kx, pi):
    S = lib()[1]
    if kx[2] == S.NONLIT:
        return "NONLIT"
    return "valueset" if kx[1] == pi else "datatype"


def fact_map(sh, l2c, skip_plus_lines=False):
    """{(dir, p, kind, card): (count, ratio_text)} over lines and figure comments (NONLITERAL skipped).
    A fact printed twice with different figures is returned under the key 'conflict'."""
    S = lib()[1]
    out, conflict = {}, []
    for (c, source, value, card, ratio, rt, count, raw) in figures(sh):
        k = kind_of(value, l2c)
        if k is None:
            continue
        if skip_plus_lines and source == "line" and card == S.PLUS:
            continue
        if isinstance(k, tuple):
            k = "?" + k[1]
        fk = (S.INVERSE if c["inv"] else S.DIRECT, c["p"], k, card)
        fv = (count, rt)
        if fk in out and out[fk] != fv:
            conflict.append((fk, out[fk], fv))
        out[fk] = fv
    return out, conflict


def ties(spec, C, t, keep_less_specific=True):
    """Keys of C at which sheXer's selection may legitimately depend on the order of the input:
    two different shape-reference kinds with an equally frequent candidate, or (keep_less_specific
    off) two exact cardinalities of one kind with equal counts."""
    S = lib()[1]
    by_key = {}
    for e in spec.cand(C, t):
        by_key.setdefault(S.key_of(e.dir, e.p, e.k, spec.pi), []).append(e)
    out = set()
    for kx, es in by_key.items():
        hit = False
        for a, b in itertools.combinations(es, 2):
            if a.n != b.n:
                continue
            if a.k != b.k and S.is_shape(a.k) and S.is_shape(b.k):
                hit = True
            if a.k == b.k and not keep_less_specific and a.c != S.PLUS and b.c != S.PLUS:
                hit = True
        if hit:
            out.add(kx)
    return out


def rounded_ok(text, n, N, places):
    """Is `text` the ratio 100*n/N rounded (half-even or half-up) to `places` decimals?"""
    q = Decimal(1).scaleb(-places)
    exact = Decimal(100 * n) / Decimal(N)
    want = set(exact.quantize(q, rounding=m) for m in (ROUND_HALF_EVEN, ROUND_HALF_UP))
    try:
        got = Decimal(text)
    except Exception:
        return False, sorted(str(w) for w in want)
    digits = len(text.split(".")[1]) if "." in text else 0
    return (got in want and digits == places), sorted(str(w) for w in want)


def jsonable(x):
    return json.loads(json.dumps(x, default=str))
