"""Helpers of bounded/pipeline.py: environment set-up (VERIF_REPO first on sys.path), guarded sheXer
runs, N-Triples round trip, graph families, normalisation of the ShExC output and the figure / key
comparison against the oracle (lib/graphspec).  Everything here is bounded testing machinery; nothing
is proved."""
import collections
import hashlib
import itertools
import json
import os
import re
import signal
import sys
import warnings
from decimal import Decimal, ROUND_HALF_EVEN, ROUND_HALF_UP
from fractions import Fraction

HERE = os.path.dirname(os.path.abspath(__file__))
VERIF = os.path.dirname(HERE)
LIB = os.path.join(VERIF, "lib")

warnings.simplefilter("ignore")

SHAPES_NS = "http://weso.es/shapes/"
ALT_SHAPES_NS = "http://shapes.ex/"
DT_FOO = "http://ex.org/dt/foo"
PI_ISA = "http://ex.org/isa"
TIMEOUT = 10


# ------------------------------------------------------------------------------------------------
# environment
# ------------------------------------------------------------------------------------------------
class Env(object):
    pass


_ENV = None


def repo_path():
    return os.environ.get("VERIF_REPO", "/repo")


def env():
    """Import sheXer from $VERIF_REPO (first on sys.path; stale shexer modules purged) and the oracle
    library.  Idempotent per process; a forked worker inherits the parent's state."""
    global _ENV
    repo = repo_path()
    if _ENV is not None and _ENV.repo == repo:
        return _ENV
    real = os.path.realpath(repo)
    for name, mod in list(sys.modules.items()):
        if name == "shexer" or name.startswith("shexer."):
            f = getattr(mod, "__file__", None)
            if f is None:
                paths = list(getattr(mod, "__path__", []) or [])
                f = paths[0] if paths else None
            if f is None or not (os.path.realpath(f) + os.sep).startswith(real + os.sep):
                del sys.modules[name]

    def repo_first():
        while repo in sys.path:
            sys.path.remove(repo)
        sys.path.insert(0, repo)

    if LIB not in sys.path:
        sys.path.insert(0, LIB)
    repo_first()
    import logging
    logging.getLogger("rdflib").setLevel(logging.CRITICAL)      # rdflib logs every odd IRI it is asked to serialise
    logging.getLogger("rdflib.term").setLevel(logging.CRITICAL)
    import shexer.shaper                      # noqa: F401  (from $VERIF_REPO)
    got = os.path.realpath(sys.modules["shexer"].__file__)
    if not got.startswith(real + os.sep):
        raise RuntimeError("shexer imported from %s, not from VERIF_REPO=%s" % (got, repo))
    import rdfmodel
    import graphspec
    import graphgen
    import shexc_parse
    import validate_oracle                    # imports shexer.shaper: already bound to $VERIF_REPO
    repo_first()                              # validate_oracle re-orders sys.path; restore
    e = Env()
    e.repo = repo
    e.M, e.S, e.G, e.P, e.V = rdfmodel, graphspec, graphgen, shexc_parse, validate_oracle
    _ENV = e
    return e


def lib():
    """Oracle library without sheXer (used by the parent process to generate cases)."""
    if LIB not in sys.path:
        sys.path.insert(0, LIB)
    import rdfmodel
    import graphspec
    import graphgen
    return rdfmodel, graphspec, graphgen


class WallClockTimeout(BaseException):
    pass


def _on_alarm(signum, frame):
    raise WallClockTimeout()


def _monitor_keys(cfg):
    return dict((k, v) for k, v in cfg.items() if k.startswith("_")), dict((k, v) for k, v in cfg.items() if not k.startswith("_"))


def to_turtle(T):
    """Small Turtle writer: @prefix table, statements grouped by subject with ';' and ',', 'a' for rdf:type."""
    M, S, G = lib()
    ns = dict(G.NAMESPACES)

    def pn(iri):
        for n, pre in ns.items():
            rest = iri[len(n):]
            if iri.startswith(n) and re.match(r"^[A-Za-z_][A-Za-z0-9_]*$", rest):
                return pre + ":" + rest
        return "<" + iri + ">"

    def term(x):
        if isinstance(x, M.IRI):
            return pn(x.iri)
        if isinstance(x, M.BNode):
            return "_:" + x.label
        lex = '"' + M.escape_lex(x.lex) + '"'
        if x.lang is not None:
            return lex + "@" + x.lang
        return lex + ("^^" + pn(x.dt) if x.dt is not None else "")

    out = ["@prefix %s: <%s> ." % (pre, n) for n, pre in ns.items()]
    by_s = collections.OrderedDict()
    for (s_, p_, o_) in T:
        by_s.setdefault(s_, collections.OrderedDict()).setdefault(p_, []).append(o_)
    for s_, po in by_s.items():
        parts = ["%s %s" % ("a" if p_ == M.RDF_TYPE else pn(p_), " , ".join(term(o_) for o_ in os_)) for p_, os_ in po.items()]
        out.append("%s %s ." % (term(s_), " ;\n    ".join(parts)))
    return "\n".join(out) + "\n"


def build_shaper(nt, cfg):
    """-> (Shaper, cleanup()).  Monitor-level keys of cfg (leading underscore) select the input channel:
    _channel: None (raw N-Triples) | 'turtle' (own Turtle rendering, input_format='turtle', parsed by rdflib) |
    'rdflib_graph' (rdflib.Graph parsed from the N-Triples text) | 'files' (_files = [[name, text], ...] written to a
    temporary directory and passed as graph_list_of_files_input in the listed order)."""
    e = env()
    mk, kw = _monitor_keys(cfg)
    ns = kw.pop("namespaces_dict", None)
    ns = collections.OrderedDict(ns) if ns is not None else dict(e.G.NAMESPACES)
    kw.setdefault("instances_report_mode", "mixed")
    kw.setdefault("disable_comments", False)
    for k in ("target_classes", "namespaces_to_ignore"):
        if kw.get(k) is not None:
            kw[k] = list(kw[k])
    Shaper = sys.modules["shexer.shaper"].Shaper
    channel = mk.get("_channel")
    cleanup = lambda: None
    if channel is None:
        kw.update(raw_graph=nt, input_format="nt")
    elif channel == "turtle":
        kw.update(raw_graph=to_turtle(parse_nt(nt)), input_format="turtle")
    elif channel == "rdflib_graph":
        import rdflib
        g = rdflib.Graph()
        g.parse(data=nt, format="nt")
        kw.update(rdflib_graph=g)
    elif channel == "files":
        import shutil
        import tempfile
        d = tempfile.mkdtemp(prefix="shexer_monitor_")
        paths = []
        for name, text in mk["_files"]:
            with open(os.path.join(d, name), "w") as fh:
                fh.write(text)
            paths.append(os.path.join(d, name))
        kw.update(graph_list_of_files_input=paths, input_format="nt")
        cleanup = lambda: shutil.rmtree(d, ignore_errors=True)
    else:
        raise ValueError("unknown channel %r" % channel)
    if mk.get("_class_file") is not None:          # text of a class file -> file_target_classes
        import shutil
        import tempfile
        d2 = tempfile.mkdtemp(prefix="shexer_monitor_")
        with open(os.path.join(d2, "classes.txt"), "w") as fh:
            fh.write(mk["_class_file"])
        kw["file_target_classes"] = os.path.join(d2, "classes.txt")
        prev = cleanup
        cleanup = lambda: (prev(), shutil.rmtree(d2, ignore_errors=True))
    try:
        return Shaper(namespaces_dict=ns, **kw), cleanup
    except BaseException:
        cleanup()
        raise


def run_shexer(nt, cfg, t=0, history=False):
    """One fresh Shaper.  cfg: json-able Shaper keyword arguments (defaults: namespaces_dict=graphgen.NAMESPACES,
    instances_report_mode='mixed', disable_comments=False) plus monitor keys (see build_shaper).
    Returns (text, events, calls).  With history=True the SAME Shaper is called again: same arguments, another
    threshold and back, SHACL and back, profile_graph and back, and a second Shaper does profile_graph first;
    events = [(category, detail)] for every deviation from the first text; the text returned is the LAST ShExC
    result.  Raises whatever the first call raises; WallClockTimeout after TIMEOUT seconds."""
    old = signal.signal(signal.SIGALRM, _on_alarm)
    signal.alarm(TIMEOUT)
    cleanups = []
    try:
        shaper, cl = build_shaper(nt, cfg)
        cleanups.append(cl)
        first = shaper.shex_graph(string_output=True, acceptance_threshold=t)
        if not history:
            return first, [], 1
        events, last, calls = [], first, 1
        other = 1 if t != 1 else 0            # high enough to empty shapes when the checked threshold is low

        def fresh():
            sh, c = build_shaper(nt, cfg)
            cleanups.append(c)
            return sh

        def step(category, target, call, compare=True):
            """call(shaper) on `target`; a crash counts only if the same call succeeds on a fresh Shaper."""
            nonlocal last, calls
            calls += 1
            try:
                out = call(target)
            except WallClockTimeout:
                raise
            except Exception as exc:
                calls += 1
                try:
                    call(fresh())
                except WallClockTimeout:
                    raise
                except Exception:
                    events.append(("benign", "%s also raises %s on a fresh Shaper" % (category, type(exc).__name__)))
                    return None
                events.append(("crash:%s" % type(exc).__name__, "%s raised %s: %s (the same call succeeds on a fresh Shaper)"
                               % (category, type(exc).__name__, exc)))
                return None
            if compare:
                if out != first:
                    events.append((category, _first_diff(first, out)))
                last = out
            return out

        def shex(th, fmt=None):
            if fmt is None:
                return lambda sh: sh.shex_graph(string_output=True, acceptance_threshold=th)
            return lambda sh: sh.shex_graph(string_output=True, acceptance_threshold=th, output_format=fmt)

        def prof(sh):
            return sh.profile_graph(string_output=True)
        step("second-call-differs", shaper, shex(t))
        step("call with another threshold", shaper, shex(other), compare=False)
        step("after-other-threshold", shaper, shex(t))
        step("SHACL serialisation", shaper, shex(t, "Shacl"), compare=False)
        step("after-other-format", shaper, shex(t))
        step("profile_graph after shex_graph", shaper, prof, compare=False)
        step("after-profile-graph", shaper, shex(t))
        shaper2 = fresh()
        step("profile_graph", shaper2, prof, compare=False)
        step("after-profile-graph", shaper2, shex(t))
        return last, events, calls
    finally:
        signal.alarm(0)
        signal.signal(signal.SIGALRM, old)
        for cl in cleanups:
            cl()


def run_threshold_walk(nt, cfg, thresholds):
    """ONE Shaper asked for shex_graph at the given thresholds in turn; every answer is compared with a fresh
    Shaper's.  -> [(index, t, detail)] deviations, number of calls.  Raises if the very first call raises."""
    old = signal.signal(signal.SIGALRM, _on_alarm)
    signal.alarm(TIMEOUT)
    cleanups, out, calls = [], [], 0
    try:
        shaper, cl = build_shaper(nt, cfg)
        cleanups.append(cl)
        for i, t in enumerate(thresholds):
            fresh_sh, c2 = build_shaper(nt, cfg)
            cleanups.append(c2)
            calls += 2
            try:
                want = fresh_sh.shex_graph(string_output=True, acceptance_threshold=t)
            except WallClockTimeout:
                raise
            except Exception:
                if i == 0:
                    raise
                continue                          # this threshold crashes on a fresh Shaper as well: not comparable
            try:
                got = shaper.shex_graph(string_output=True, acceptance_threshold=t)
            except WallClockTimeout:
                raise
            except Exception as exc:
                out.append((i, t, "crash:%s" % type(exc).__name__, "raised %s: %s" % (type(exc).__name__, exc)))
                continue
            if got != want:
                out.append((i, t, "differs-from-fresh-shaper", _first_diff(want, got)))
        return out, calls
    finally:
        signal.alarm(0)
        signal.signal(signal.SIGALRM, old)
        for cl in cleanups:
            cl()


def run_shacl_paths(nt, cfg, t=0):
    """SHACL output of one fresh Shaper read with rdflib -> set of (node shape IRI, inverse?, predicate IRI)."""
    import rdflib
    SH = "http://www.w3.org/ns/shacl#"
    old = signal.signal(signal.SIGALRM, _on_alarm)
    signal.alarm(TIMEOUT)
    cleanups = []
    try:
        shaper, cl = build_shaper(nt, cfg)
        cleanups.append(cl)
        text = shaper.shex_graph(string_output=True, acceptance_threshold=t, output_format="Shacl")
    finally:
        signal.alarm(0)
        signal.signal(signal.SIGALRM, old)
        for cl in cleanups:
            cl()
    g = rdflib.Graph()
    g.parse(data=text, format="turtle")
    U = rdflib.URIRef
    out = set()
    for shape, _, ps in g.triples((None, U(SH + "property"), None)):
        if not isinstance(shape, rdflib.URIRef):
            continue
        for path in g.objects(ps, U(SH + "path")):
            if isinstance(path, rdflib.URIRef):
                out.add((str(shape), False, str(path)))
            else:
                for q in g.objects(path, U(SH + "inversePath")):
                    out.add((str(shape), True, str(q)))
        for inner in g.objects(ps, U(SH + "property")):          # sheXer's rendering: sh:property [ sh:inversePath p ]
            for q in g.objects(inner, U(SH + "inversePath")):
                out.add((str(shape), True, str(q)))
    return out


def _first_diff(a, b):
    la, lb = a.split("\n"), b.split("\n")
    for i in range(max(len(la), len(lb))):
        x = la[i] if i < len(la) else "<end>"
        y = lb[i] if i < len(lb) else "<end>"
        if x != y:
            return "first differing line %d: %r vs %r (%d vs %d lines)" % (i + 1, x.strip(), y.strip(), len(la), len(lb))
    return "texts differ"


class Skipped(Exception):
    """A sheXer run that cannot be judged (crash, timeout, unparsable output)."""

    def __init__(self, signature):
        Exception.__init__(self, signature)
        self.signature = signature


class Runner(object):
    """Runs sheXer, parses and normalises the output, and keeps the book-keeping of one case."""

    def __init__(self, pid="?", history=False):
        self.pid = pid
        self.history = history
        self.evaluations = 0
        self.crashes = collections.Counter()
        self.nontrivial = set()
        self.findings = []

    def run(self, nt, cfg, t=0):
        """-> normalised output (list of shape dicts).  Raises Skipped."""
        e = env()
        self.evaluations += 1
        try:
            text, events, calls = run_shexer(nt, cfg, t, history=self.history)
        except WallClockTimeout:
            self.crashes["timeout"] += 1
            raise Skipped("timeout")
        except Exception as exc:             # crash of sheXer: property C04's business
            sig = e.V.crash_signature(exc)
            self.crashes[sig] += 1
            raise Skipped(sig)
        self.evaluations += calls - 1
        for (category, detail) in events:
            if category == "benign":
                self.crashes["history step skipped: " + detail] += 1
                continue
            self.emit("%s:call-history:%s" % (self.pid, category),
                      "same Shaper called repeatedly (t=%r): %s" % (t, detail),
                      {"pid": self.pid, "history_call": {"nt": nt, "cfg": cfg, "t": t}})
        try:
            doc = e.P.parse_shexc(text)
        except e.P.ShexcParseError as exc:
            sig = "unparsable-output: %s" % exc.msg
            self.crashes[sig] += 1
            raise Skipped(sig)
        nd = norm_doc(doc)
        if any(sh["cons"] for sh in nd):
            self.nontrivial.add(digest(nt, cfg, t))
        return nd

    def emit(self, key, what, case, **detail):
        inp = {"case": case}
        inp.update(detail)
        self.findings.append({"key": key, "what": what, "input": inp})

    def result(self):
        return {"evaluations": self.evaluations, "crashes": dict(self.crashes),
                "nontrivial": sorted(self.nontrivial), "findings": self.findings}


def digest(nt, cfg, t):
    h = hashlib.blake2b(digest_size=8)
    h.update(nt.encode("utf-8"))
    h.update(json.dumps(cfg, sort_keys=True, default=str).encode("utf-8"))
    h.update(repr(t).encode("utf-8"))
    return h.hexdigest()


# ------------------------------------------------------------------------------------------------
# N-Triples round trip (only the dialect written by rdfmodel.to_ntriples)
# ------------------------------------------------------------------------------------------------
_RE_LINE = re.compile(r'^(<[^>]*>|_:\S+) <([^>]*)> (.*) \.$')
_RE_LIT = re.compile(r'^"((?:[^"\\]|\\.)*)"(?:\^\^<([^>]*)>|@([A-Za-z0-9\-]+))?$')


def _unescape(s):
    out, i = [], 0
    while i < len(s):
        ch = s[i]
        if ch == "\\" and i + 1 < len(s):
            nx = s[i + 1]
            out.append({"n": "\n", "r": "\r", '"': '"', "\\": "\\"}.get(nx, nx))
            i += 2
        else:
            out.append(ch)
            i += 1
    return "".join(out)


def parse_nt(nt):
    M = lib()[0]

    def node(tok):
        if tok.startswith("<"):
            return M.IRI(tok[1:-1])
        if tok.startswith("_:"):
            return M.BNode(tok[2:])
        m = _RE_LIT.match(tok)
        if not m:
            raise ValueError("bad object token %r" % tok)
        return M.Lit(_unescape(m.group(1)), dt=m.group(2), lang=m.group(3))

    T = []
    for line in nt.split("\n"):
        if not line.strip():
            continue
        m = _RE_LINE.match(line)
        if not m:
            raise ValueError("bad N-Triples line %r" % line)
        T.append(M.Triple(node(m.group(1)), m.group(2), node(m.group(3))))
    return T


def to_nt(T):
    return lib()[0].to_ntriples(T)


# ------------------------------------------------------------------------------------------------
# graph families (no language-tagged literals)
# ------------------------------------------------------------------------------------------------
def dedup(T):
    seen, out = set(), []
    for t in T:
        if t not in seen:
            seen.add(t)
            out.append(t)
    return out


def enum_small(limit, third="iri", offset=0, pi=None):
    """Deterministic enumerated family, sampled with a stride over the whole space.

    Nodes s1, s2 (IRIs) and a third node (IRI s3, or blank node _:b1 with third='bnode'); every node
    typed with one of [], [A], [B], [A,B] (not all empty); 1..3 data triples over the properties
    ex:p / o:q whose objects are drawn from "x", "1"^^xsd:integer, "v"^^<http://ex.org/dt/foo>, an
    untyped IRI and the other two nodes.  Type triples first for even indices, last for odd ones."""
    M, S, G = lib()
    pi = pi or M.RDF_TYPE
    s1, s2 = M.IRI(G.EX + "s1"), M.IRI(G.EX + "s2")
    n3 = M.IRI(G.EX + "s3") if third == "iri" else M.BNode("b1")
    nodes = (s1, s2, n3)
    typings = [(), (G.CLASS_A,), (G.CLASS_B,), (G.CLASS_A, G.CLASS_B)]
    typing_space = [ty for ty in itertools.product(typings, repeat=3) if any(ty)]
    objs = [M.Lit("x"), M.Lit("1", dt=M.XSD_INTEGER), M.Lit("v", dt=DT_FOO), M.IRI(G.OTHER + "u1")]
    pool = [M.Triple(s, p, o) for s in nodes for p in (G.PROP_P, G.PROP_Q)
            for o in objs + [x for x in nodes if x != s]]
    combos = [c for k in (1, 2, 3) for c in itertools.combinations(range(len(pool)), k)]
    total = len(combos) * len(typing_space)
    limit = min(limit, total)
    stride = max(1, total // max(1, limit))
    if stride % len(typing_space) == 0:
        stride += 1                          # walk through the typings as well
    out = []
    for i in range(limit):
        idx = (offset + i * stride) % total
        typing = typing_space[idx % len(typing_space)]
        combo = combos[idx // len(typing_space)]
        types = [M.Triple(s, pi, M.IRI(C)) for s, cs in zip(nodes, typing) for C in cs]
        data = [pool[j] for j in combo]
        out.append(dedup(types + data if i % 2 == 0 else data + types))
    return out


def rand_graph(rng, n_nodes=6, n_triples=14, n_classes=3, n_props=4, p_bnode=0.0, p_typed=0.75,
               max_types=3, p_literal=0.4, p_link_typed=0.6, pi=None, extra_props=(), shuffle=True,
               bnode_objects=True, classes=None, extra_literals=()):
    """Seeded random graph: IRI nodes in two namespaces (blank nodes with probability p_bnode), typed
    with 0..max_types of the classes A..E, data triples with plain / xsd:integer / custom-datatype
    literals, links to typed and untyped nodes; repeated (s, p) pairs give cardinalities > 1."""
    M, S, G = lib()
    pi = pi or M.RDF_TYPE
    classes = list(classes) if classes else [G.EX + c for c in ["A", "B", "C", "D", "E"][:n_classes]]
    props = [(G.EX if i % 2 == 0 else G.OTHER) + "p%d" % i for i in range(n_props)] + list(extra_props)
    nodes = []
    for i in range(n_nodes):
        if rng.random() < p_bnode:
            nodes.append(M.BNode("n%d" % i))
        else:
            nodes.append(M.IRI((G.EX if rng.random() < 0.7 else G.OTHER) + "n%d" % i))
    T, typed = [], []
    for x in nodes:
        if rng.random() < p_typed:
            for C in rng.sample(classes, rng.randint(1, min(max_types, len(classes)))):
                T.append(M.Triple(x, pi, M.IRI(C)))
            typed.append(x)
    if not typed:
        T.append(M.Triple(nodes[0], pi, M.IRI(classes[0])))
        typed.append(nodes[0])
    untyped = [x for x in nodes if x not in typed]
    extra = [M.IRI(G.OTHER + "u%d" % i) for i in range(2)]
    if p_bnode > 0 and bnode_objects:
        extra += [M.BNode("u%d" % i) for i in range(2)]
    lits = [M.Lit("x"), M.Lit("y"), M.Lit("z"), M.Lit("1", dt=M.XSD_INTEGER), M.Lit("2", dt=M.XSD_INTEGER),
            M.Lit("v", dt=DT_FOO), M.Lit("w", dt=DT_FOO)] + list(extra_literals)
    for _ in range(n_triples):
        s = rng.choice(typed) if rng.random() < 0.85 else rng.choice(nodes)
        p = rng.choice(props)
        if rng.random() < p_literal:
            o = rng.choice(lits)
        elif rng.random() < p_link_typed:
            o = rng.choice(typed)
        else:
            o = rng.choice(untyped + extra)
        T.append(M.Triple(s, p, o))
    T = dedup(T)
    if shuffle:
        rng.shuffle(T)
    return T


def mixed_family(rng, n_enum, n_rand, bnodes=True, big=False, pi=None, extra_props=(), offset=0):
    """[(origin, T)]: n_enum enumerated small graphs + n_rand seeded random ones."""
    out = []
    if bnodes:
        k = n_enum // 3
        out += [("enum-bnode", T) for T in enum_small(k, "bnode", offset, pi)]
        out += [("enum-iri", T) for T in enum_small(n_enum - k, "iri", offset, pi)]
    else:
        out += [("enum-iri", T) for T in enum_small(n_enum, "iri", offset, pi)]
    for i in range(n_rand):
        pb = 0.0
        if bnodes and i % 3 == 0:
            pb = 0.2
        hi_nodes, hi_tr = (12, 40) if big else (8, 20)
        out.append(("random", rand_graph(rng, n_nodes=rng.randint(3, hi_nodes), n_triples=rng.randint(4, hi_tr),
                                         n_classes=rng.randint(2, 3), n_props=rng.randint(2, 4), p_bnode=pb,
                                         pi=pi, extra_props=extra_props)))
    return out


def same_text_graph(rng):
    """Graph whose objects deliberately share their TEXT while differing in kind: "7" / "7"^^xsd:integer /
    "7"^^<dt/foo>, "chat" / "chat"@fr / "chat"@en, <http://ex.org/home> / "http://ex.org/home", the IRI of a typed node /
    the same text as a string.  A reader that identifies terms by str() collapses them."""
    M, S, G = lib()
    nodes = [M.IRI(G.EX + "n%d" % i) for i in range(rng.randint(3, 6))]
    T = []
    for x in nodes:
        for C in rng.sample([G.CLASS_A, G.CLASS_B], rng.randint(1, 2)):
            T.append(M.Triple(x, M.RDF_TYPE, M.IRI(C)))
    home = G.EX + "home"
    pool = [M.Lit("7"), M.Lit("7", dt=M.XSD_INTEGER), M.Lit("7", dt=DT_FOO), M.Lit("chat"), M.Lit("chat", lang="fr"),
            M.Lit("chat", lang="en"), M.IRI(home), M.Lit(home), nodes[0], M.Lit(nodes[0].iri)]
    props = [G.EX + "p0", G.OTHER + "p1", G.EX + "p2"]
    for _ in range(rng.randint(6, 16)):
        o = rng.choice(pool) if rng.random() < 0.85 else rng.choice(nodes)
        T.append(M.Triple(rng.choice(nodes), rng.choice(props), o))
    T = dedup(T)
    rng.shuffle(T)
    return T


def nonliteral_uniform_graph(rng):
    """One class whose instances reach a property's non-literal values either only through blank nodes (each exactly b of
    them) or only through IRIs (each exactly a of them), never both; the same pattern for an incoming property.  The merged
    NONLITERAL figure is exact in this situation."""
    M, S, G = lib()
    n_b, n_i, n_0 = rng.randint(1, 3), rng.randint(1, 3), rng.randint(0, 2)
    a, b = rng.randint(1, 3), rng.randint(1, 3)
    inst = [M.IRI(G.EX + "i%d" % i) for i in range(n_b + n_i + n_0)]
    T = [M.Triple(x, M.RDF_TYPE, M.IRI(G.CLASS_A)) for x in inst]
    typed_targets = rng.random() < 0.4
    k = 0
    for x in inst[:n_b]:
        for j in range(b):
            k += 1
            T.append(M.Triple(x, G.PROP_P, M.BNode("v%d" % k)))
            T.append(M.Triple(M.BNode("w%d" % k), G.EX + "inc", x))
    for x in inst[n_b:n_b + n_i]:
        for j in range(a):
            k += 1
            o = M.IRI(G.OTHER + "t%d" % k)
            T.append(M.Triple(x, G.PROP_P, o))
            if typed_targets and j == 0:
                T.append(M.Triple(o, M.RDF_TYPE, M.IRI(G.CLASS_B)))
            T.append(M.Triple(M.IRI(G.OTHER + "s%d" % k), G.EX + "inc", x))
    for x in inst:
        if rng.random() < 0.5:
            T.append(M.Triple(x, G.PROP_Q, M.Lit("x")))
    T = dedup(T)
    rng.shuffle(T)
    return T


def add_duplicate_lines(T, rng, kind, n=1):
    """Repeat n statements of T (kind 'type': instantiation triples, 'data': others) at a later position."""
    M = lib()[0]
    cands = [t for t in T if (t[1] == M.RDF_TYPE) == (kind == "type")]
    if not cands:
        return None
    out = list(T)
    for t in rng.sample(cands, min(n, len(cands))):
        first = out.index(t)
        out.insert(rng.randint(first + 1, len(out)), t)
    return out


def tabify(nt):
    """The same N-Triples document with a TAB (instead of the blank) directly after every whitespace-delimited token:
    blank-node labels (subject or object), language tags and ^^<datatype> suffixes."""
    out = []
    for line in nt.split("\n"):
        if line.startswith("_:"):
            line = re.sub(r"^(_:\S+) ", lambda m: m.group(1) + "\t", line)
        line = re.sub(r"( _:\S+| \"(?:[^\"\\]|\\.)*\"(?:@[A-Za-z0-9\-]+|\^\^<[^>]*>)) \.$", lambda m: m.group(1) + "\t.", line)
        out.append(line)
    return "\n".join(out)


def add_url_literals(T, rng, n=2):
    """Append literals whose lexical form is exactly the identity string of a node of T (the IRI of an
    IRI node, '_:label' of a blank node): a URL kept as a plain string must never count as a link."""
    M, S, G = lib()
    nodes = dedup([x for (s, p, o) in T for x in (s, o) if not M.is_literal(x)])
    typed = dedup([s for (s, p, o) in T if p == M.RDF_TYPE])
    subjects = dedup([s for (s, p, o) in T])
    props = dedup([p for (s, p, o) in T if p != M.RDF_TYPE]) + [G.EX + "homepage"]
    out = list(T)
    for i in range(n):
        target = rng.choice(typed if typed and rng.random() < 0.8 else nodes)
        s = rng.choice(subjects)
        p = props[-1] if i == 0 else rng.choice(props)
        dt = None if rng.random() < 0.8 else DT_FOO
        out.insert(rng.randint(0, len(out)), M.Triple(s, p, M.Lit(M.node_id(target), dt=dt)))
    return dedup(out)


def literal_link_hits(T):
    """{predicate: set of node identity strings that occur as the lexical form of a literal object}."""
    M = lib()[0]
    ids = set(M.node_id(x) for (s, p, o) in T for x in (s, o) if not M.is_literal(x))
    hits = {}
    for (s, p, o) in T:
        if M.is_literal(o) and o.lex in ids:
            hits.setdefault(p, set()).add(o.lex)
    return hits


# ---- float-boundary family (C02/C12): class sizes at which (k / N) * N != k in IEEE doubles ---------
FB_SIZES = (25, 41, 50, 100)
FB_PREFERRED = {25: 7, 41: 23, 50: 14, 100: 55}
FB_PROP = "http://ex.org/p"
FB_INC = "http://ex.org/inc"
FB_CTRL = "http://other.org/ns#q"


def _float_boundary_pairs():
    """[(k, N, tag)]: per N one pair whose product (k/N)*N rounds ABOVE k (a filter written as
    n >= t*N drops the boundary case), one pair rounding BELOW k if the sizes offer one, and one
    control pair per N whose product is exact.  Searched at import, nothing hard-wired."""
    out, below = [], None
    for N in FB_SIZES:
        up = [k for k in range(1, N) if (float(k) / N) * N > k]
        dn = [k for k in range(1, N) if (float(k) / N) * N < k]
        ex = [k for k in range(3, N - 1) if (float(k) / N) * N == k]
        if up:
            out.append((FB_PREFERRED[N] if FB_PREFERRED.get(N) in up else up[0], N, "above"))
        if dn:
            below = (dn[-1], N, "below")
        if ex:
            out.append((ex[0], N, "exact"))
    if below:
        out.append(below)
    return out


FLOAT_BOUNDARY_PAIRS = _float_boundary_pairs()


def float_boundary_graph(k, N):
    """One class A with N IRI instances i0..i(N-1); ex:p "x" on the first k of them; o:q (integer) on
    all; k incoming ex:inc triples from untyped IRI subjects to the LAST k instances."""
    M, S, G = lib()
    inst = [M.IRI(G.EX + "i%d" % i) for i in range(N)]
    T = [M.Triple(x, M.RDF_TYPE, M.IRI(G.CLASS_A)) for x in inst]
    T += [M.Triple(x, FB_PROP, M.Lit("x")) for x in inst[:k]]
    T += [M.Triple(x, FB_CTRL, M.Lit("1", dt=M.XSD_INTEGER)) for x in inst]
    T += [M.Triple(M.IRI(G.OTHER + "w%d" % i), FB_INC, x) for i, x in enumerate(inst[N - k:])]
    return T


# ------------------------------------------------------------------------------------------------
# normalised output
# ------------------------------------------------------------------------------------------------
def _freeze(v):
    if v is None:
        return None
    if v[0] == "or":
        return ("or", tuple(_freeze(x) for x in v[1]))
    return tuple(v)


def norm_doc(doc):
    out = []
    for sh in doc.shapes:
        cons = []
        for c in sh.constraints:
            cons.append({"inv": bool(c.inverse), "p": c.predicate, "value": _freeze(c.value), "card": c.cardinality,
                         "ratio": c.ratio, "rt": c.ratio_text, "count": c.count, "raw": c.raw,
                         "comments": [{"value": _freeze(k.value), "card": k.cardinality, "ratio": k.ratio,
                                       "rt": k.ratio_text, "count": k.count, "raw": k.raw}
                                      for k in c.figure_comments()]})
        out.append({"label": sh.label_iri, "N": sh.n_instances, "cons": cons, "min_iri": sh.min_iri})
    return out


def local_name(iri):
    return iri[max(iri.rfind("#"), iri.rfind("/")) + 1:]


def label_of(C, shapes_ns=SHAPES_NS):
    return shapes_ns + local_name(C)


def expand_class(c, namespaces=None):
    """Full IRI of a target class given as IRI, <IRI> or prefixed name."""
    G = lib()[2]
    if c.startswith("<") and c.endswith(">"):
        return c[1:-1]
    for ns, prefix in (namespaces or G.NAMESPACES).items():
        if c.startswith(prefix + ":") and not c.startswith("http"):
            return ns + c[len(prefix) + 1:]
    return c


def spec_for(T, cfg):
    """Oracle of the figures for the target selection in cfg."""
    M, S, G = lib()
    targets = [expand_class(c, cfg.get("namespaces_dict")) for c in (cfg.get("target_classes") or [])]
    cap = cfg.get("instances_cap", -1)
    return S.compute(T, pi=cfg.get("instantiation_property", M.RDF_TYPE),
                     all_classes=bool(cfg.get("all_classes_mode")), targets=targets,
                     inverse=bool(cfg.get("inverse_paths")), cap=cap if cap and cap > 0 else None)


def spec_for_instances(T, inst, inverse=False, pi=None):
    """Oracle for shapes defined by explicit node sets (shape maps): inst = {label: [nodes]}.
    Same definitions as graphspec.compute with classes(x) = [label | x in inst[label]]; the
    instantiation property keeps its value-set treatment."""
    M, S, G = lib()
    pi = pi or M.RDF_TYPE
    classes = {}
    for L, xs in inst.items():
        for x in xs:
            classes.setdefault(x, []).append(L)

    def kind(o, p):
        if M.is_literal(o):
            return o.datatype
        return M.node_id(o) if p == pi else o.kind

    cnt, icnt = {}, {}
    for (s, p, o) in T:
        if s in classes:
            ks = set([kind(o, p)])
            if p != pi and not M.is_literal(o):
                ks.update(S.shape(L) for L in classes.get(o, []))
            for k in ks:
                cnt[(s, p, k)] = cnt.get((s, p, k), 0) + 1
        if inverse and not M.is_literal(o) and o in classes:
            ks = set([M.node_id(s) if p == pi else s.kind])
            if p != pi and isinstance(s, M.IRI):
                ks.update(S.shape(L) for L in classes.get(s, []))
            for k in ks:
                icnt[(o, p, k)] = icnt.get((o, p, k), 0) + 1
    prof = {}
    for d, table in ((S.DIRECT, cnt), (S.INVERSE, icnt)):
        for (x, p, k), c in table.items():
            for L in classes[x]:
                for cc in ((1,) if p == pi else (c, S.PLUS)):
                    prof[(L, d, p, k, cc)] = prof.get((L, d, p, k, cc), 0) + 1
    return S.Spec(pi, classes, dict((L, list(xs)) for L, xs in inst.items()), prof)


def kind_of(value, l2c):
    """Oracle kind of a printed value; None for NONLITERAL / OR / '.'; ('?', label) for a reference
    to a shape that corresponds to no class."""
    S = lib()[1]
    tag = value[0]
    if tag in ("datatype", "valueset"):
        return value[1]
    if tag in ("IRI", "BNode"):
        return tag
    if tag == "shape":
        C = l2c.get(value[1])
        return S.shape(C) if C is not None else ("?", value[1])
    return None


def kclass(k, p, pi):
    S = lib()[1]
    if isinstance(k, tuple):
        return "unknown-shape"
    if k is None:
        return "NONLITERAL"
    if p == pi:
        return "valueset"
    if k in ("IRI", "BNode"):
        return k
    if S.is_shape(k):
        return "shape"
    return "datatype"


def cclass(card):
    if isinstance(card, int):
        return "1" if card == 1 else "k"
    return str(card)


def con_key(c, l2c, pi):
    """(dir, p, vc) key of a printed constraint."""
    S = lib()[1]
    d = S.INVERSE if c["inv"] else S.DIRECT
    k = kind_of(c["value"], l2c)
    if k is None or isinstance(k, tuple):
        return (d, c["p"], S.NONLIT)
    return S.key_of(d, c["p"], k, pi)


def figures(sh):
    """[(constraint, source, value, card, ratio, ratio_text, count, raw)] of one normalised shape."""
    out = []
    for c in sh["cons"]:
        if c["card"] not in ("*", "?") and (c["count"] is not None or c["ratio"] is not None):
            out.append((c, "line", c["value"], c["card"], c["ratio"], c["rt"], c["count"], c["raw"]))
        for k in c["comments"]:
            out.append((c, "comment", k["value"], k["card"], k["ratio"], k["rt"], k["count"], k["raw"]))
    return out


def close(a, b, rel=1e-6):
    return abs(a - b) <= rel * max(1.0, abs(a), abs(b))


def _nonlit_table(T, spec, C, d, p):
    """For the instances of C: {cardinality or '+': count} of non-literal values of p, or None when the merged
    IRI+BNode figure is not exact (an instance has both kinds, or a kind has no uniform cardinality)."""
    M, S, G = lib()
    inst = set(spec.inst.get(C, ()))
    a, b = collections.Counter(), collections.Counter()
    for (s_, p_, o_) in T:
        if p_ != p or M.is_literal(o_):
            continue
        x, other = (s_, o_) if d == S.DIRECT else (o_, s_)
        if x in inst:
            (a if isinstance(other, M.IRI) else b)[x] += 1
    if set(a) & set(b) or len(set(a.values())) > 1 or len(set(b.values())) > 1:
        return None
    out = collections.Counter()
    for cnt in list(a.values()) + list(b.values()):
        out[cnt] += 1
        out[S.PLUS] += 1
    return out


def check_figures(pid, nd, spec, l2c, cfg, report, T=None):
    """C01's comparison of every printed figure with the oracle.  report(key, what, observed, expected).
    Disjunctions (OR) must carry the figure of one of their members; with T given, NONLITERAL-merged figures are
    checked exactly when no instance mixes IRI and blank-node values and each kind has one uniform cardinality."""
    S = lib()[1]
    pi = spec.pi
    gen_exact = bool(cfg.get("disable_exact_cardinality"))
    for sh in nd:
        C = l2c.get(sh["label"])
        if C is None or C not in spec.N:
            report("%s:unexpected-shape" % pid, "shape %s corresponds to no class/label with instances" % sh["label"],
                   sh["label"], sorted(l2c))
            continue
        N = spec.N[C]
        if sh["N"] is not None and sh["N"] != N:
            report("%s:instance-count:%s" % (pid, "more" if sh["N"] > N else "fewer"),
                   "shape %s reports %r instances, the graph has N=%d" % (sh["label"], sh["N"], N), sh["N"], N)
            continue
        for (c, source, value, card, ratio, rt, count, raw) in figures(sh):
            k = kind_of(value, l2c)
            d = S.INVERSE if c["inv"] else S.DIRECT
            if k is None and value[0] == "or":
                members = [kind_of(v, l2c) for v in value[1]]
                hit = False
                for km in members:
                    if km is None or isinstance(km, tuple):
                        continue
                    n = spec.prof.get((C, d, c["p"], km, card), 0)
                    if (count is None or count == n) and (ratio is None or close(ratio, 100.0 * n / N)):
                        hit = True
                if not hit:
                    report("%s:count-mismatch:%s:or:%s" % (pid, d, cclass(card)),
                           "%s %s%s: the disjunction %r with cardinality %r reports n=%r ratio=%r, which is the figure of none of "
                           "its members [%s: %s]" % (sh["label"], "^" if c["inv"] else "", c["p"], members, card, count, ratio,
                                                     source, raw.strip()), {"count": count, "ratio": ratio}, None)
                continue
            if k is None and value[0] == "NONLITERAL" and T is not None:
                tab = _nonlit_table(T, spec, C, d, c["p"])
                if tab is not None:
                    cards = [card] + ([x for x in tab if isinstance(x, int) and x > 1]
                                      if gen_exact and source == "line" and card == S.PLUS else [])
                    if not any((count is None or count == tab.get(cc, 0)) and (ratio is None or close(ratio, 100.0 * tab.get(cc, 0) / N))
                               for cc in cards):
                        report("%s:nonliteral-merge:%s-mismatch" % (pid, "count" if count is not None and count != tab.get(card, 0) else "ratio"),
                               "%s %s%s NONLITERAL card=%r: printed n=%r ratio=%r, but %d of %d instances have exactly that many "
                               "non-literal values (no instance mixes IRIs and blank nodes) [%s: %s]"
                               % (sh["label"], "^" if c["inv"] else "", c["p"], card, count, ratio, tab.get(card, 0), N, source, raw.strip()),
                               {"count": count, "ratio": ratio}, {"count": tab.get(card, 0), "ratio": 100.0 * tab.get(card, 0) / N})
                continue
            if k is None:
                continue                                   # NONLITERAL-merged figure with mixed instances: skipped
            if isinstance(k, tuple):
                report("%s:unknown-shape-ref:%s" % (pid, d), "reference to a shape of no known class: %s" % raw,
                       value[1], sorted(l2c))
                continue
            cards = [card]
            if gen_exact and source == "line" and card == S.PLUS:
                cards += sorted(set(c2 for (C2, d2, p2, k2, c2) in spec.prof
                                    if C2 == C and d2 == d and p2 == c["p"] and k2 == k
                                    and isinstance(c2, int) and c2 > 1))
            ok, exp = False, None
            for cc in cards:
                n = spec.prof.get((C, d, c["p"], k, cc), 0)
                er = 100.0 * n / N
                if exp is None:
                    exp = (n, er)
                if (count is None or count == n) and (ratio is None or close(ratio, er)):
                    ok = True
                    break
            if ratio is not None and ratio > 100.0 * (1 + 1e-9):
                report("%s:ratio-above-100:%s:%s" % (pid, d, kclass(k, c["p"], pi)),
                       "ratio above 100 %%: %s" % raw, ratio, 100.0)
                continue
            if not ok:
                what = "count-mismatch" if (count is not None and count != exp[0]) else "ratio-mismatch"
                report("%s:%s:%s:%s:%s" % (pid, what, d, kclass(k, c["p"], pi), cclass(card)),
                       "%s %s%s kind=%s card=%r: printed n=%r ratio=%r, oracle n=%d ratio=%r [%s: %s]"
                       % (sh["label"], "^" if c["inv"] else "", c["p"], k, card, count, ratio, exp[0], exp[1],
                          source, raw.strip()),
                       {"count": count, "ratio": ratio}, {"count": exp[0], "ratio": exp[1]})


def expected_keys(spec, C, t):
    S = lib()[1]
    return set(S.key_of(e.dir, e.p, e.k, spec.pi) for e in spec.cand(C, t))


def check_keys(pid, nd, spec, l2c, t, report, check_shapes=True):
    """C02's comparison: printed keys == keys of cand(C, t), no duplicates, shape set."""
    S = lib()[1]
    pi = spec.pi
    printed = {}
    for sh in nd:
        C = l2c.get(sh["label"])
        if C is None or C not in spec.N:
            report("%s:extra-shape" % pid, "shape %s printed for a class/label without instances" % sh["label"],
                   sh["label"], sorted(l2c.get(x, x) for x in l2c))
            continue
        if sh["label"] in printed:
            report("%s:duplicate-shape" % pid, "shape %s printed twice" % sh["label"], sh["label"], None)
        printed[sh["label"]] = C
    gone = set(S.shape(C) for C in spec.N if label_of_class(C, l2c) not in printed)
    for sh in nd:
        C = printed.get(sh["label"])
        if C is None:
            continue
        keys = [con_key(c, l2c, pi) for c in sh["cons"]]
        seen = set()
        for kx in keys:
            if kx in seen:
                report("%s:duplicate-key:%s:%s" % (pid, kx[0], vclass(kx, pi)),
                       "shape %s has two constraints for key %r (t=%r)" % (sh["label"], kx, t), kx, None)
            seen.add(kx)
        exp = expected_keys(spec, C, t)
        for kx in sorted(exp - seen, key=repr):
            if kx[2] == S.NONLIT and gone:
                # cascade of empty-shape removal: tolerated when a candidate of the key refers to a removed shape
                if any(e.k in gone for e in spec.cand(C, t) if S.key_of(e.dir, e.p, e.k, pi) == kx):
                    continue
            report("%s:missing-key:%s:%s" % (pid, kx[0], vclass(kx, pi)),
                   "shape %s lacks a constraint for %r although a candidate reaches t=%r" % (sh["label"], kx, t),
                   sorted(seen, key=repr), sorted(exp, key=repr))
        for kx in sorted(seen - exp, key=repr):
            report("%s:extra-key:%s:%s" % (pid, kx[0], vclass(kx, pi)),
                   "shape %s has a constraint for %r but no candidate reaches t=%r" % (sh["label"], kx, t),
                   sorted(seen, key=repr), sorted(exp, key=repr))
    if check_shapes:
        for C in spec.N:
            if spec.N[C] == 0:
                continue
            lab = label_of_class(C, l2c)
            if lab in printed:
                continue
            by_key = {}
            for e in spec.cand(C, t):
                by_key.setdefault(S.key_of(e.dir, e.p, e.k, pi), []).append(e)
            # a key with a candidate that refers to a removed shape may vanish with it (cascade of the empty-shape
            # removal); the class must be printed if some key is free of such references and has a non-reference kind
            if any(all(e.k not in gone for e in es) and any(not S.is_shape(e.k) for e in es) for es in by_key.values()):
                report("%s:missing-shape" % pid,
                       "no shape for %s although it has %d instance(s) and candidates at t=%r" % (C, spec.N[C], t),
                       sorted(printed), lab)


def label_of_class(C, l2c):
    for lab, C2 in l2c.items():
        if C2 == C:
            return lab
    return None


def vclass(kx, pi):
    S = lib()[1]
    if kx[2] == S.NONLIT:
        return "NONLIT"
    return "valueset" if kx[1] == pi else "datatype"


def fact_map(sh, l2c, skip_plus_lines=False):
    """{(dir, p, kind, card): (count, ratio_text)} over lines and figure comments (NONLITERAL skipped).
    A fact printed twice with different figures is returned under the key 'conflict'."""
    S = lib()[1]
    out, conflict = {}, []
    for (c, source, value, card, ratio, rt, count, raw) in figures(sh):
        k = kind_of(value, l2c)
        if k is None:
            continue
        if skip_plus_lines and source == "line" and card == S.PLUS:
            continue
        if isinstance(k, tuple):
            k = "?" + k[1]
        fk = (S.INVERSE if c["inv"] else S.DIRECT, c["p"], k, card)
        fv = (count, rt)
        if fk in out and out[fk] != fv:
            conflict.append((fk, out[fk], fv))
        out[fk] = fv
    return out, conflict


def ties(spec, C, t, keep_less_specific=True):
    """Keys of C at which sheXer's selection may legitimately depend on the order of the input:
    two different shape-reference kinds with an equally frequent candidate, or (keep_less_specific
    off) two exact cardinalities of one kind with equal counts."""
    S = lib()[1]
    by_key = {}
    for e in spec.cand(C, t):
        by_key.setdefault(S.key_of(e.dir, e.p, e.k, spec.pi), []).append(e)
    out = set()
    for kx, es in by_key.items():
        hit = False
        for a, b in itertools.combinations(es, 2):
            if a.n != b.n:
                continue
            if a.k != b.k and S.is_shape(a.k) and S.is_shape(b.k):
                hit = True
            if a.k == b.k and not keep_less_specific and a.c != S.PLUS and b.c != S.PLUS:
                hit = True
        if hit:
            out.add(kx)
    return out


def rounded_ok(text, n, N, places):
    """Is `text` the ratio 100*n/N rounded (half-even or half-up) to `places` decimals?"""
    q = Decimal(1).scaleb(-places)
    exact = Decimal(100 * n) / Decimal(N)
    want = set(exact.quantize(q, rounding=m) for m in (ROUND_HALF_EVEN, ROUND_HALF_UP))
    try:
        got = Decimal(text)
    except Exception:
        return False, sorted(str(w) for w in want)
    digits = len(text.split(".")[1]) if "." in text else 0
    return (got in want and digits == places), sorted(str(w) for w in want)


def jsonable(x):
    return json.loads(json.dumps(x, default=str))
