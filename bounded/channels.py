"""Bounded monitor for C08: "the extracted shapes do not depend on how the graph is delivered".

One abstract graph (lib/rdfmodel triples) is rendered into every delivery channel of sheXer and the normalised ShExC output of each
channel is compared with the output for the reference channel (raw N-Triples string, input_format='nt'):

    format     nt | tsv_spo | turtle_iter (own house-style writer) | turtle | xml | n3 | json-ld (rdflib serialisations)
    delivery   raw string | one file | 2..4 files (arbitrary partition of the triples) | rdflib Graph object
    compression none | gz | xz | zip (one archive with 1..4 members; several archives)
    (URLs: impossible offline -- skipped)

Normalised output (lib/shexc_parse, prefixes expanded, order-insensitive): per shape the label, the instance count, the multiset of
(inverse, predicate, value, cardinality, ratio, count) and the multiset of figure comments; instances_report_mode='mixed'.
A line-reader delivery in several files is compared with the raw N-Triples string holding the triples in the order of the files
(a non-contiguous partition permutes the document; order dependence is C09's subject).  For rdflib-backed channels the order is
not observable, so the original order is the reference and disagreements that only concern ties are reported with kind 'tie'.
Graphs with blank nodes are compared only among the channels that read the source once per pass with stable labels
(nt, tsv_spo, turtle_iter, rdflib Graph object).

The reference is itself a raw-string delivery, so for nt, tsv_spo and turtle_iter the raw string is additionally compared with the
file holding the same text (key raw-vs-file).  If the raw N-Triples string disagrees with its file AND more rdflib-backed channels
side with the file, the file output becomes the reference for the other channels of that graph (else every channel would be blamed).

Every channel (the reference included) is also checked against the abstract graph: shape labels / references must be <shapes
namespace><local name of a class>, rdf:type values classes of the graph, property IRIs predicates of the graph (key iri-mangled;
a fifth of the graphs carries class, property and instance IRIs with raw non-ASCII characters).  Another fifth is additionally
delivered as a Turtle document whose two halves bind the same prefix labels to different namespaces (key prefix-rebound; rdflib's
Turtle reader gets the same document as a control).

Two more families: a .gz file made of TWO gzip members (key <format>-gz:multi-member; all seven formats) and, in one process, a zip
archive that is REPLACED at the same path by an archive holding another graph between two Shaper runs (key zip:stale-archive).

If NO other format agrees with the raw N-Triples reference while at least two thirds of the other formats agree among themselves,
the reference is outvoted for that graph and the nt channels are the ones reported (C08:channel-differs:nt-raw / nt).

Half of the graphs are also delivered as zip archives whose members lie under a folder of the archive (graph/partN.ext, with the
directory entry `zip -r` writes), alone and mixed with flat members, for nt / tsv_spo / turtle / turtle_iter (key zip:nested-member).

Finding keys
    C08:channel-differs:zip:nested-member                only the archive with members under a folder disagrees
    C08:channel-differs:<format>-gz:multi-member         only the two-member .gz file disagrees (the one-member .gz agrees)
    C08:channel-differs:zip:stale-archive                second run on a replaced archive disagrees with its own graph
    C08:iri-mangled:<channel>                            the output names IRIs that do not occur in the graph
    C08:channel-differs:<turtle_iter|turtle>:prefix-rebound   only the document with re-bound prefix labels disagrees
    C08:channel-differs:raw-vs-file:<kind|crash>         raw_graph=<text> vs graph_file_input=<same text> (nt, tsv_spo, turtle_iter)
    C08:channel-differs:<channel>[:<compression>][:files=<n>]:<kind>
    C08:channel-crashes:<channel>[:<compression>][:files=<n>]
  channel = <format> (file delivery) | <format>-raw | rdflib-graph; compression / files=<n> appear only when the same format agrees
  with the reference for one uncompressed file (i.e. when they matter).  kind says what differs:
    shapes | instance-count | constraints | figures   -- label set / instance counts / (direction, property, value kind) keys / figures
    tie                                                -- only the choice among equally frequent shape references (and the comments
                                                          printed for it) differs: the documented dependence on triple order (C09);
                                                          key without -raw / compression / files detail

    run(pid, tier, seed) -> dict      replay(doc) -> (ok, message)
    python -m bounded.channels run C08 [quick|thorough] [seed]
    python -m bounded.channels selftest
Label: bounded -- evidence by testing, never a proof.
"""
import collections
import gzip
import json
import lzma
import multiprocessing
import os
import random
import shutil
import signal
import sys
import tempfile
import time
import zipfile

try:
    from . import _pipeline_util as U
except ImportError:                                    # executed as a plain script
    sys.path.insert(0, os.path.dirname(os.path.abspath(__file__)))
    import _pipeline_util as U

PID = "C08"
WORKERS = 12
MAX_FINDINGS = 10
FORMATS = ("nt", "tsv_spo", "turtle_iter", "turtle", "xml", "n3", "json-ld")
LINE_FORMATS = ("nt", "tsv_spo", "turtle_iter")         # read line by line, blank-node labels kept
EXT = {"nt": "nt", "tsv_spo": "tsv", "turtle_iter": "ttl", "turtle": "ttl", "xml": "xml", "n3": "n3", "json-ld": "json"}
XSD = "http://www.w3.org/2001/XMLSchema#"


# ------------------------------------------------------------------------------------------------
# rendering
# ------------------------------------------------------------------------------------------------
def _rdflib_graph(T):
    import rdflib
    M = U.lib()[0]
    g = rdflib.Graph()

    def node(x):
        if isinstance(x, M.IRI):
            return rdflib.URIRef(x.iri)
        if isinstance(x, M.BNode):
            return rdflib.BNode(x.label)
        if x.lang is not None:
            return rdflib.Literal(x.lex, lang=x.lang)
        return rdflib.Literal(x.lex, datatype=rdflib.URIRef(x.dt)) if x.dt is not None else rdflib.Literal(x.lex)
    for (s, p, o) in T:
        g.add((node(s), rdflib.URIRef(p), node(o)))
    return g


_RE_LOCAL = None


def render_rebound(T):
    """House-style Turtle in two halves that bind the SAME prefix labels (nsa, nsb) to DIFFERENT namespaces, as `cat a.ttl b.ttl`
    would: first half nsa=ex / nsb=other, second half nsa=other / nsb=ex.  IRIs of those namespaces with a plain local name are
    written as prefixed names, everything else as in N-Triples."""
    import re
    M, S, G = U.lib()
    global _RE_LOCAL
    if _RE_LOCAL is None:
        _RE_LOCAL = re.compile(r"^[^\W\d]\w*$", re.U)

    def tok(x, binding):
        iri = x.iri if isinstance(x, M.IRI) else (x if isinstance(x, str) else None)
        if iri is None:
            return M.node_to_nt(x)
        for ns, label in binding:
            if iri.startswith(ns) and _RE_LOCAL.match(iri[len(ns):]):
                return "%s:%s" % (label, iri[len(ns):])
        return "<%s>" % iri
    half = len(T) // 2
    out = []
    for part, binding in ((T[:half], ((G.EX, "nsa"), (G.OTHER, "nsb"))), (T[half:], ((G.OTHER, "nsa"), (G.EX, "nsb")))):
        out.append("".join("@prefix %s: <%s> .\n" % (label, ns) for ns, label in binding) + "\n")
        for (s, p, o) in part:
            out.append("%s %s %s .\n" % (tok(s, binding), "<%s>" % p if p == M.RDF_TYPE else tok(p, binding), tok(o, binding)))
        out.append("\n")
    return "".join(out)


def render(fmt, T, rebind=False):
    """Text of the triples T in the given input format."""
    M, S, G = U.lib()
    if rebind and fmt in ("turtle", "turtle_iter"):
        return render_rebound(T)
    if fmt == "nt":
        return M.to_ntriples(T)
    if fmt == "tsv_spo":                                 # N-Triples tokens separated by tabs, no final dot
        return "".join("%s\t<%s>\t%s\n" % (M.node_to_nt(s), p, M.node_to_nt(o)) for (s, p, o) in T)
    if fmt == "turtle_iter":                             # house style: one 's p o .' per line, full IRIs, blank before the dot
        head = "@prefix ex: <%s> .\n@prefix xsd: <%s> .\n@prefix rdf: <%s> .\n\n" % (G.EX, XSD, M.RDF)
        return head + M.to_ntriples(T)
    if fmt == "xml":                                     # U+000C is not an XML 1.0 character (rdflib writes it, expat refuses it)
        T = [(s, p, M.Lit(o.lex.replace("\x0c", " "), dt=o.dt, lang=o.lang) if M.is_literal(o) and "\x0c" in o.lex else o)
             for (s, p, o) in T]
    g = _rdflib_graph(T)
    g.bind("ex", G.EX)
    g.bind("o", G.OTHER)
    out = g.serialize(format=fmt)
    return out.decode("utf-8") if isinstance(out, bytes) else out


def _split_point(data, fmt):
    """Where a document is cut into two gzip members: after a line end near the middle for the line-oriented / Turtle texts, at
    an arbitrary byte for RDF/XML and JSON-LD (concatenated members decompress to the whole document anyway)."""
    mid = len(data) // 2
    if fmt in ("xml", "json-ld"):
        return mid
    k = data.find(b"\n", mid)
    return k + 1 if k != -1 and k + 1 < len(data) else (data.rfind(b"\n", 0, mid) + 1 or mid)


def _write(path, text, comp, members=1, fmt=None):
    data = text.encode("utf-8")
    if comp == "gz" and members == 2:
        k = _split_point(data, fmt)
        with gzip.open(path, "wb") as fh:
            fh.write(data[:k])
        with gzip.open(path, "ab") as fh:                 # a second gzip member: `cat a.gz b.gz`
            fh.write(data[k:])
    elif comp == "gz":
        with gzip.open(path, "wb") as fh:
            fh.write(data)
    elif comp == "xz":
        with lzma.open(path, "wb") as fh:
            fh.write(data)
    else:
        with open(path, "wb") as fh:
            fh.write(data)


def deliver(variant, T, tmpdir):
    """-> Shaper keyword arguments for one delivery variant (files are produced in tmpdir)."""
    fmt, how, comp = variant["fmt"], variant["how"], variant.get("comp")
    if how == "graph":
        return {"rdflib_graph": _rdflib_graph(T), "input_format": "turtle"}
    if how == "raw":
        return {"raw_graph": render(fmt, T, variant.get("rebind")), "input_format": fmt}
    parts = variant.get("parts") or [list(range(len(T)))]
    texts = [render(fmt, [T[i] for i in part], variant.get("rebind")) for part in parts]
    base = os.path.join(tmpdir, "v%d" % variant.get("id", 0))
    os.makedirs(base, exist_ok=True)
    kw = {"input_format": fmt}
    if comp == "zip":
        groups = variant.get("archives") or [list(range(len(parts)))]     # which parts go into which archive
        paths = []
        for ai, members in enumerate(groups):
            zpath = os.path.join(base, "a%d.%s.zip" % (ai, EXT[fmt]))
            nested = variant.get("nested") or []
            with zipfile.ZipFile(zpath, "w", zipfile.ZIP_DEFLATED) as z:
                if any(nested[mi] for mi in members if mi < len(nested)):
                    z.writestr("graph/", b"")             # the directory entry `zip -r` writes
                for mi in members:
                    folder = "graph/" if mi < len(nested) and nested[mi] else ""
                    z.writestr("%spart%d.%s" % (folder, mi, EXT[fmt]), texts[mi].encode("utf-8"))
            paths.append(zpath)
        kw["compression_mode"] = "zip"
    else:
        paths = []
        for i, text in enumerate(texts):
            path = os.path.join(base, "p%d.%s%s" % (i, EXT[fmt], "." + comp if comp else ""))
            _write(path, text, comp, variant.get("members", 1), fmt)
            paths.append(path)
        if comp:
            kw["compression_mode"] = comp
    if how == "file":
        kw["graph_file_input"] = paths[0]
    else:
        kw["graph_list_of_files_input"] = paths
    return kw


def channel_name(variant):
    if variant["how"] == "graph":
        return "rdflib-graph"
    return variant["fmt"] + ("-raw" if variant["how"] == "raw" else "")


def n_files(variant):
    return len(variant.get("parts") or [0])


# ------------------------------------------------------------------------------------------------
# running and comparing
# ------------------------------------------------------------------------------------------------
class _Book(object):
    def __init__(self):
        self.evaluations = 0
        self.crashes = collections.Counter()
        self.nontrivial = set()
        self.findings = []
        self.stats = collections.Counter()

    def emit(self, key, what, case, **detail):
        inp = {"case": case}
        inp.update(detail)
        self.findings.append({"key": key, "what": what, "input": inp})


def run_variant(R, variant, T, cfg, t, tmpdir):
    """-> normalised output; raises U.Skipped(signature)."""
    e = U.env()
    Shaper = sys.modules["shexer.shaper"].Shaper
    kw = dict(cfg)
    kw.setdefault("instances_report_mode", "mixed")
    kw.setdefault("disable_comments", False)
    R.evaluations += 1
    old = signal.signal(signal.SIGALRM, U._on_alarm)
    signal.alarm(U.TIMEOUT)
    try:
        kw.update(deliver(variant, T, tmpdir))
        shaper = Shaper(namespaces_dict=dict(e.G.NAMESPACES), **kw)
        text = shaper.shex_graph(string_output=True, acceptance_threshold=t)
    except U.WallClockTimeout:
        raise U.Skipped("timeout")
    except Exception as exc:
        raise U.Skipped(e.V.crash_signature(exc))
    finally:
        signal.alarm(0)
        signal.signal(signal.SIGALRM, old)
    try:
        return U.norm_doc(e.P.parse_shexc(text))
    except e.P.ShexcParseError as exc:
        sk = U.Skipped("unparsable-output: %s" % exc.msg)
        sk.text = text
        raise sk


def canon(nd):
    out = []
    for sh in nd:
        cons = sorted((c["inv"], c["p"], repr(c["value"]), str(c["card"]), c["rt"], c["count"]) for c in sh["cons"])
        comments = sorted((c["inv"], c["p"], repr(k["value"]), str(k["card"]), k["rt"], k["count"])
                          for c in sh["cons"] for k in c["comments"])
        out.append((sh["label"], sh["N"], cons, comments))
    return sorted(out, key=repr)


def _evidence(nd, l2c, pi):
    ev = {}
    for sh in nd:
        facts, _ = U.fact_map(sh, l2c)
        chosen = {}
        for c in sh["cons"]:
            chosen.setdefault(U.con_key(c, l2c, pi), []).append((c["value"], c["card"]))
        ev[sh["label"]] = {"N": sh["N"], "keys": set(chosen), "facts": set((fk, fv[0], fv[1]) for fk, fv in facts.items()),
                           "chosen": dict((k, sorted(v, key=repr)) for k, v in chosen.items())}
    return ev


def difference(ref, nd, T, cfg, t):
    """None if the normalised outputs agree, else (kind, explanation)."""
    ca, cb = canon(ref), canon(nd)
    if ca == cb:
        return None
    S = U.lib()[1]
    la, lb = [x[0] for x in ca], [x[0] for x in cb]
    if la != lb:
        return "shapes", "shape labels %s vs reference %s" % (sorted(lb), sorted(la))
    for x, y in zip(ca, cb):
        if x[1] != y[1]:
            return "instance-count", "shape %s: %r instances vs reference %r" % (x[0], y[1], x[1])
    spec = U.spec_for(T, cfg)
    l2c = dict((U.label_of(C), C) for C in spec.N)
    ea, eb = _evidence(ref, l2c, spec.pi), _evidence(nd, l2c, spec.pi)
    only_tie = True
    notes = []
    for lab in sorted(ea):
        a, b = ea[lab], eb[lab]
        C = l2c.get(lab)
        tie = U.ties(spec, C, t, cfg.get("keep_less_specific", True)) if C is not None else set()
        if a["keys"] != b["keys"]:
            return "constraints", "shape %s: (direction, property, value kind) keys differ: only in reference %s, only in channel %s" % (
                lab, sorted(a["keys"] - b["keys"], key=repr), sorted(b["keys"] - a["keys"], key=repr))
        diff = sorted(a["facts"] ^ b["facts"], key=repr)
        for (fk, n, rt) in diff:
            if S.key_of(fk[0], fk[1], fk[2], spec.pi) not in tie:
                only_tie = False
                notes.append("shape %s: figure %r n=%r ratio=%s printed by only one side" % (lab, fk, n, rt))
        for kx in a["keys"]:
            if a["chosen"][kx] != b["chosen"][kx]:
                if kx not in tie:
                    only_tie = False
                notes.append("shape %s: key %r printed as %r vs reference %r%s" % (lab, kx, b["chosen"][kx], a["chosen"][kx],
                                                                                 " (frequency tie)" if kx in tie else ""))
    if not only_tie:
        return "figures", "; ".join(n for n in notes if "(frequency tie)" not in n)[:700]
    if notes:
        return "tie", "only choices among equally frequent shape references differ (triple order): " + "; ".join(notes)[:600]
    first = [(x, y) for x, y in zip(ca, cb) if x != y][0]
    only_a = [c for c in first[0][2] + first[0][3] if c not in first[1][2] + first[1][3]]
    only_b = [c for c in first[1][2] + first[1][3] if c not in first[0][2] + first[0][3]]
    return "figures", "shape %s: lines only in reference %r, only in channel %r" % (first[0][0], only_a[:3], only_b[:3])


def unexpected_iris(nd, T, cfg):
    """IRIs of an output that the abstract graph cannot explain: shape labels / shape references that are not
    <shapes namespace><local name of a class>, rdf:type values that are no class of the graph, property IRIs that are no predicate."""
    M, S, G = U.lib()
    pi = cfg.get("instantiation_property", M.RDF_TYPE)
    classes = set(o.iri for (s, p, o) in T if p == pi and isinstance(o, M.IRI)) | set(cfg.get("target_classes") or [])
    labels = set(U.label_of(C) for C in classes)
    preds = set(p for (s, p, o) in T)
    bad = []

    def values(v):
        if v is None:
            return
        if v[0] == "or":
            for x in v[1]:
                for y in values(x):
                    yield y
        else:
            yield v
    for sh in nd:
        if sh["label"] not in labels:
            bad.append(("shape label", sh["label"]))
        for c in sh["cons"]:
            if c["p"] not in preds:
                bad.append(("property", c["p"]))
            for v in [x for x in values(c["value"])] + [x for k in c["comments"] for x in values(k["value"])]:
                if v[0] == "shape" and v[1] not in labels:
                    bad.append(("shape reference", v[1]))
                elif v[0] == "valueset" and c["p"] == pi and v[1] not in classes:
                    bad.append(("rdf:type value", v[1]))
    return U.dedup(bad)


def unexpected_tokens(text, T):
    """For an output that lib/shexc_parse rejects: its non-ASCII tokens whose local name occurs nowhere in the graph."""
    import re
    M = U.lib()[0]
    known = set()
    for (s, p, o) in T:
        known.add(p)
        for x in (s, o):
            if isinstance(x, M.IRI):
                known.add(x.iri)
            elif M.is_literal(x) and x.dt:
                known.add(x.dt)
    locals_ = set(U.local_name(i) for i in known)
    bad = []
    for tok in re.findall(r"[^\s\[\]@;]+", text):
        if max(tok) > "\x7f":
            core = tok.strip("<>.,")
            local = U.local_name(core) if core.startswith("http") else core.split(":")[-1]
            if core not in known and local not in locals_:
                bad.append(("token of an unparsable output", core))
    return U.dedup(bad)


def check_zip_replace(case, R):
    """One process, one path: archive holding graph 1 -> run; the file is REPLACED by an archive holding graph 2 -> run again.
    Each run must agree with the raw N-Triples reference of its own graph."""
    cfg, t, fmt = case["cfg"], case["t"], case["fmt"]
    T1, T2 = U.parse_nt(case["nt"]), U.parse_nt(case["nt2"])
    tmp = tempfile.mkdtemp(prefix="c08_")
    try:
        variant = {"fmt": fmt, "how": case.get("how", "file"), "comp": "zip", "id": 0}
        if variant["how"] == "files":
            variant["parts"] = [list(range(len(T1)))]
        outs, refs = [], []
        try:
            for k, T in enumerate((T1, T2)):
                if variant["how"] == "files":
                    variant["parts"] = [list(range(len(T)))]
                refs.append(run_variant(R, {"fmt": "nt", "how": "raw"}, T, cfg, t, tmp))
                as_file = run_variant(R, {"fmt": "nt", "how": "file", "id": 50 + k}, T, cfg, t, tmp)
                as_graph = run_variant(R, {"fmt": "turtle", "how": "graph"}, T, cfg, t, tmp)
                d_graph = difference(refs[-1], as_graph, T, cfg, t)
                if difference(as_file, refs[-1], T, cfg, t) is not None or (d_graph is not None and d_graph[0] != "tie"):
                    R.stats["zip_replace_without_reference"] += 1      # the reference is in doubt (reported by the main family)
                    return
                outs.append(run_variant(R, variant, T, cfg, t, tmp))        # same directory, same file name: overwritten
        except U.Skipped as exc:
            R.crashes[exc.signature] += 1
            return
        if any(sh["cons"] for sh in refs[1]):
            R.nontrivial.add(U.digest(case["nt"] + case["nt2"], cfg, t))
        d1 = difference(refs[0], outs[0], T1, cfg, t)
        d2 = difference(refs[1], outs[1], T2, cfg, t)
        if d1 is not None and d1[0] != "tie":
            R.emit("C08:channel-differs:%s:zip:%s" % (fmt, d1[0]), "channel %s, zip archive (first run of a replace-the-archive "
                   "scenario) yields other shapes than the raw N-Triples string: %s" % (fmt, d1[1]), case)
        elif d2 is not None and d2[0] != "tie":
            stale = canon(outs[1]) == canon(outs[0])
            R.emit("C08:channel-differs:zip:stale-archive",
                   "channel %s, compression_mode='zip': after the archive at the same path was replaced by one holding another graph, "
                   "a new Shaper in the same process %s: %s"
                   % (fmt, "returns the shapes of the FIRST graph again" if stale else "disagrees with the raw N-Triples string of "
                      "the second graph", d2[1]), case)
    finally:
        shutil.rmtree(tmp, ignore_errors=True)


def _same_delivery(v, **changes):
    w = dict(v)
    w.update(changes)
    return w


def check_case(case, R):
    if case.get("family") == "zip-replace":
        return check_zip_replace(case, R)
    nt, cfg, t = case["nt"], case["cfg"], case["t"]
    T = U.parse_nt(nt)
    tmp = tempfile.mkdtemp(prefix="c08_")
    try:
        ref_variant = {"fmt": "nt", "how": "raw"}
        ref_name = "raw N-Triples string"
        try:
            ref = run_variant(R, ref_variant, T, cfg, t, tmp)
        except U.Skipped as exc:
            ref = exc
        outs = {}                                       # variant index -> normalised output | U.Skipped
        for i, v in enumerate(case["variants"]):
            try:
                outs[i] = run_variant(R, dict(v, id=i), T, cfg, t, tmp)
            except U.Skipped as exc:
                outs[i] = exc

        def sides_with(cand, o):
            d = difference(cand, o, T, cfg, t)
            return d is None or d[0] == "tie"

        def plain(fmt, how):
            for j, w in enumerate(case["variants"]):
                if w["fmt"] == fmt and w["how"] == how and not w.get("comp") and not w.get("parts") and not w.get("rebind") \
                        and not w.get("members") and not w.get("nested"):
                    return j
            return None

        # raw string vs file delivery of the very same text (the reference is a raw string itself: both would break together)
        raw_blamed = set()
        for fmt in LINE_FORMATS:
            ri, fi = plain(fmt, "raw"), plain(fmt, "file")
            if ri is None or fi is None:
                continue
            a, b = outs[fi], outs[ri]
            two = dict(case, variants=[case["variants"][ri], case["variants"][fi]])
            if isinstance(a, U.Skipped) != isinstance(b, U.Skipped):
                bad, sig = ("raw string", b.signature) if isinstance(b, U.Skipped) else ("file", a.signature)
                raw_blamed.add(fmt)
                R.emit("C08:channel-differs:raw-vs-file:crash",
                       "%s: the %s delivery raises %s, the other delivery of the same text returns normally" % (fmt, bad, sig), two)
            elif not isinstance(a, U.Skipped):
                d = difference(a, b, T, cfg, t)
                if d is not None:
                    raw_blamed.add(fmt)
                    R.emit("C08:channel-differs:raw-vs-file:%s" % d[0],
                           "%s: raw_graph=<text> and graph_file_input=<file holding the same text> yield different shapes "
                           "(reference below = file delivery): %s" % (fmt, d[1]), two)
        # the reference stays the raw N-Triples string unless it disagrees with its own file delivery AND the file delivery is the
        # one most other channels agree with (otherwise every channel would be blamed for a defect of the raw-string reader)
        fi = plain("nt", "file")
        if "nt" in raw_blamed and fi is not None and not isinstance(outs[fi], U.Skipped):
            others = [o for j, o in outs.items() if not isinstance(o, U.Skipped) and case["variants"][j]["fmt"] not in LINE_FORMATS]
            votes_file = sum(1 for o in others if sides_with(outs[fi], o))
            votes_raw = 0 if isinstance(ref, U.Skipped) else sum(1 for o in others if sides_with(ref, o))
            if isinstance(ref, U.Skipped) or votes_file > votes_raw:
                ref, ref_variant, ref_name = outs[fi], {"fmt": "nt", "how": "file"}, "N-Triples file (the raw string disagrees with it)"
                R.stats["reference_switched_to_file"] += 1
        # every channel against the abstract graph: the line-based channels (reference included) could mangle IRIs together
        mangled = {}
        for i, v in enumerate(case["variants"]):
            if isinstance(outs[i], U.Skipped):
                bad = unexpected_tokens(outs[i].text, T) if getattr(outs[i], "text", None) else []
            else:
                bad = unexpected_iris(outs[i], T, cfg)
            if bad:
                mangled[i] = bad
                R.emit("C08:iri-mangled:%s" % channel_name(v),
                       "channel %s (compression %s, %d file(s)) prints IRIs that do not occur in the graph: %s"
                       % (channel_name(v), v.get("comp"), n_files(v), "; ".join("%s <%s>" % b for b in bad[:4])),
                       dict(case, variants=[v]), observed=[list(b) for b in bad[:6]])
        if (unexpected_tokens(ref.text, T) if getattr(ref, "text", None) else []) if isinstance(ref, U.Skipped) \
                else unexpected_iris(ref, T, cfg):
            sane = [j for j, w in enumerate(case["variants"]) if w["fmt"] not in LINE_FORMATS and not w.get("rebind")
                    and not isinstance(outs[j], U.Skipped) and j not in mangled]
            sane.sort(key=lambda j: (case["variants"][j]["how"] != "graph", j))
            if sane:                                    # do not blame the sane channels for differing from a mangled reference
                ref, ref_name = outs[sane[0]], "channel %s (the raw N-Triples output has mangled IRIs)" % channel_name(case["variants"][sane[0]])
                R.stats["reference_switched_to_rdflib"] += 1
        # a reference that NO other format agrees with, while the other formats agree among themselves, is outvoted (a defect of the
        # N-Triples reader would otherwise be blamed on every other channel); the nt channels are then reported as differing
        if not isinstance(ref, U.Skipped) and ref_name == "raw N-Triples string":
            others = [j for j, w in enumerate(case["variants"]) if w["fmt"] != "nt" and w["how"] in ("raw", "file", "graph")
                      and not (w.get("comp") or w.get("parts") or w.get("rebind") or w.get("members") or w.get("nested"))
                      and not isinstance(outs[j], U.Skipped) and j not in mangled]
            if len(others) >= 3 and not any(sides_with(ref, outs[j]) for j in others):
                votes = dict((j, sum(1 for k in others if sides_with(outs[j], outs[k]))) for j in others)
                best = max(others, key=lambda j: (votes[j], case["variants"][j]["how"] == "graph", -j))
                if votes[best] >= max(3, (2 * len(others) + 2) // 3):
                    ref = outs[best]
                    ref_name = "channel %s (no other format agrees with the raw N-Triples string, %d of %d agree with this one)" % (
                        channel_name(case["variants"][best]), votes[best], len(others))
                    ri = plain("tsv_spo", "raw")
                    if ri is not None and not isinstance(outs[ri], U.Skipped) and sides_with(ref, outs[ri]):
                        ref_variant = {"fmt": "tsv_spo", "how": "raw"}
                    R.stats["reference_outvoted"] += 1
        if isinstance(ref, U.Skipped):
            R.crashes["reference: " + ref.signature] += 1
            return
        if any(sh["cons"] for sh in ref):
            R.nontrivial.add(U.digest(nt, cfg, t))
        refs = {}

        def reference_for(v):
            """Reference for a line-reader delivery in several files: the reference channel with the triples in the order in
            which the files deliver them (a partition that is not contiguous permutes the document: that is C09's subject)."""
            if v["fmt"] not in LINE_FORMATS or not v.get("parts"):
                return ref
            order = tuple(i for part in v["parts"] for i in part)
            if order == tuple(range(len(T))):
                return ref
            if order not in refs:
                try:
                    refs[order] = run_variant(R, dict(ref_variant, id=1000 + len(refs)), [T[i] for i in order], cfg, t, tmp)
                except U.Skipped:
                    refs[order] = ref
            return refs[order]

        status = {}                                     # variant index -> None (agrees) | ("differs", kind, why) | ("crashes", sig)
        for i, v in enumerate(case["variants"]):
            nd = outs[i]
            if isinstance(nd, U.Skipped):
                R.crashes[nd.signature] += 1
                status[i] = ("crashes", nd.signature, nd.signature)
                continue
            ref_v = reference_for(v)
            d = difference(ref_v, nd, T, cfg, t)
            if d is None and ref_v is not ref and canon(ref) != canon(nd):
                R.stats["differs_from_original_order_only"] += 1
            status[i] = None if d is None else ("differs", d[0], d[1])

        def plain_ok(fmt, comp=None, nf=1):
            """does the format agree with the reference for (one file | nf files) with the given compression?  None: not run"""
            for j, w in enumerate(case["variants"]):
                if w["fmt"] == fmt and w["how"] in ("file", "files") and w.get("comp") == comp and n_files(w) == nf \
                        and (nf == 1) == (w["how"] == "file") and not w.get("rebind") and not w.get("members") \
                        and not w.get("nested"):
                    return status[j] is None or status[j][1] == "tie"       # a tie is no evidence against the format
            return None

        for i, v in enumerate(case["variants"]):
            st = status[i]
            if st is None:
                continue
            if v["how"] == "raw" and v["fmt"] in raw_blamed:     # already reported as raw-vs-file
                continue
            if i in mangled:                                     # already reported as iri-mangled
                continue
            if v.get("nested") and not (st[0] == "differs" and st[1] == "tie") and plain_ok(v["fmt"], "zip", 1) is not False:
                R.emit("C08:channel-differs:zip:nested-member",
                       "channel %s, compression_mode='zip', archive whose members %r lie under the folder graph/ (%d member(s), nested: "
                       "%r) %s; a flat archive of the same format agrees with the reference (%s): %s"
                       % (v["fmt"], ["graph/part%d.%s" % (k, EXT[v["fmt"]]) for k, b in enumerate(v["nested"]) if b], len(v["nested"]),
                          v["nested"], "raises " + st[1] if st[0] == "crashes" else "yields other shapes", ref_name, st[2]),
                       dict(case, variants=[v]))
                continue
            if v.get("members"):
                single = plain_ok(v["fmt"], "gz", 1)
                if st[0] == "differs" and st[1] == "tie":
                    R.emit("C08:channel-differs:%s:tie" % v["fmt"], "channel %s, two-member gz file: %s" % (v["fmt"], st[2]),
                           dict(case, variants=[v]))
                elif single is not False:
                    R.emit("C08:channel-differs:%s-gz:multi-member" % v["fmt"],
                           "channel %s with compression_mode='gz' reading a file made of TWO gzip members (first half written, second "
                           "half appended) %s; the same text as one member agrees with the reference (%s): %s"
                           % (v["fmt"], "raises " + st[1] if st[0] == "crashes" else "yields other shapes", ref_name, st[2]),
                           dict(case, variants=[v]))
                    continue
                else:
                    pass                                   # the one-member gz file fails as well: reported below as usual
                if st[0] == "differs" and st[1] == "tie":
                    continue
            if v.get("rebind"):
                twin = [j for j, w in enumerate(case["variants"]) if not w.get("rebind") and
                        all(w.get(k) == v.get(k) for k in ("fmt", "how", "comp", "parts"))]
                twin_ok = not twin or status[twin[0]] is None or status[twin[0]][1] == "tie"
                if st[0] == "differs" and st[1] == "tie":
                    R.emit("C08:channel-differs:%s:tie" % v["fmt"], "channel %s with re-bound prefixes: %s" % (v["fmt"], st[2]),
                           dict(case, variants=[v]))
                elif twin_ok:
                    R.emit("C08:channel-differs:%s:prefix-rebound" % v["fmt"],
                           "channel %s reading a Turtle document whose second half binds the prefix labels nsa/nsb to the other "
                           "namespace (same local names before and after) %s; the same delivery with full IRIs agrees with the "
                           "reference (%s): %s" % (channel_name(v), "raises " + st[1] if st[0] == "crashes" else "yields other shapes",
                                                  ref_name, st[2]), dict(case, variants=[v]))
                continue
            name = channel_name(v)
            comp, nf = v.get("comp"), n_files(v)
            detail = ""
            if v["how"] in ("file", "files") and plain_ok(v["fmt"]) is True:
                if comp and plain_ok(v["fmt"], comp, 1) is not True and (nf == 1 or plain_ok(v["fmt"], None, nf) is not False):
                    detail += ":" + comp
                elif comp and nf > 1 and plain_ok(v["fmt"], None, nf) is True:
                    detail += ":" + comp
                if nf > 1 and not (comp and plain_ok(v["fmt"], comp, 1) is False):
                    detail += ":files=%d" % nf
            elif v["how"] in ("file", "files") and plain_ok(v["fmt"]) is None:
                detail = (":" + comp if comp else "") + (":files=%d" % nf if nf > 1 else "")
            one = dict(case, variants=[dict((k, x) for k, x in v.items() if k != "id")])
            if st[0] == "crashes":
                R.emit("C08:channel-crashes:%s%s" % (name, detail),
                       "channel %s (compression %s, %d file(s)) raises %s; the reference channel (%s) returns normally"
                       % (name, comp, nf, st[1], ref_name), one, observed=st[1])
            else:
                if st[1] == "tie":                     # independent of compression / number of files / raw vs file
                    name, detail = (v["fmt"] if v["how"] != "graph" else name), ""
                R.emit("C08:channel-differs:%s%s:%s" % (name, detail, st[1]),
                       "channel %s (compression %s, %d file(s)%s) yields other shapes than the %s: %s"
                       % (name, comp, nf, ", partition %r" % v["parts"] if v.get("parts") else "", ref_name, st[2]), one)
    finally:
        shutil.rmtree(tmp, ignore_errors=True)


# ------------------------------------------------------------------------------------------------
# cases
# ------------------------------------------------------------------------------------------------
SIZES = {"selftest": (10, 6), "quick": (280, 120), "thorough": (1400, 600)}        # IRI-only graphs, graphs with blank nodes


def _partition(rng, n_triples, k, contiguous):
    if contiguous:
        cuts = sorted(rng.randint(0, n_triples) for _ in range(k - 1))
        bounds = [0] + cuts + [n_triples]
        return [list(range(a, b)) for a, b in zip(bounds, bounds[1:])]
    parts = [[] for _ in range(k)]
    for i in range(n_triples):
        parts[rng.randrange(k)].append(i)
    return parts


def _variants(rng, n_triples, formats, with_graph=True):
    out = []
    k = rng.randint(2, 4)
    for fmt in formats:
        out.append({"fmt": fmt, "how": "raw"})
        out.append({"fmt": fmt, "how": "file"})
        for comp in ("gz", "xz", "zip"):
            out.append({"fmt": fmt, "how": "file", "comp": comp})
        parts = _partition(rng, n_triples, k, contiguous=rng.random() < 0.3)
        out.append({"fmt": fmt, "how": "files", "parts": parts})
        comp = rng.choice(("gz", "xz"))
        out.append({"fmt": fmt, "how": "files", "comp": comp, "parts": parts})
        out.append({"fmt": fmt, "how": "file", "comp": "zip", "parts": parts})                     # one archive, k members
        groups = [[i] for i in range(k)] if rng.random() < 0.5 else [list(range(k - 1)), [k - 1]]
        out.append({"fmt": fmt, "how": "files", "comp": "zip", "parts": parts, "archives": groups})  # several archives
        k2 = rng.randint(1, 4)
        if k2 != k:
            out.append({"fmt": fmt, "how": "files" if k2 > 1 else "file", "comp": rng.choice((None, "gz", "xz", "zip")),
                        "parts": _partition(rng, n_triples, k2, contiguous=False)})
    if rng.random() < 0.5:                               # zip members stored under a folder of the archive, alone and mixed
        for fmt in formats:
            if fmt in ("nt", "tsv_spo", "turtle", "turtle_iter"):
                kn = rng.randint(1, 3)
                parts = _partition(rng, n_triples, kn, contiguous=True)
                out.append({"fmt": fmt, "how": "file", "comp": "zip", "parts": parts, "nested": [True] * kn})
                if kn > 1:
                    out.append({"fmt": fmt, "how": "file", "comp": "zip", "parts": parts,
                                "nested": [i % 2 == (0 if rng.random() < 0.5 else 1) for i in range(kn)]})
    if rng.random() < 0.6:                               # a .gz file made of two gzip members
        for fmt in formats:
            out.append({"fmt": fmt, "how": "file", "comp": "gz", "members": 2})
    if with_graph:
        out.append({"fmt": "turtle", "how": "graph"})
    return out


def _retype(T, rng):
    """More datatypes: some of the plain/custom literals become xsd:decimal / xsd:boolean / xsd:date / xsd:string-typed."""
    M = U.lib()[0]
    mp = {M.Lit("y"): M.Lit("2.5", dt=XSD + "decimal"), M.Lit("z"): M.Lit("true", dt=XSD + "boolean"),
          M.Lit("w", dt=U.DT_FOO): M.Lit("2020-01-31", dt=XSD + "date"), M.Lit("2", dt=M.XSD_INTEGER): M.Lit("two words")}
    return U.dedup([(s, p, mp.get(o, o)) for (s, p, o) in T])


# Lexical forms that stress the readers.  Deliberately absent: '%' (was the marker of the repaired '%'-for-'@' defect; kept out so
# that old and new trees are judged alike) and raw tabs / line breaks (not representable in tsv_spo).
TRICKY = ["bob@ex.org", "a#b", 'say "hi"', "back\\slash", u"caf\u00e9 \u4e2d", "a  b", "semi;colon, comma.", "<tag>", "ends with dot.",
          "http://ex.org/x", "x^^y", "_:b", "@en", " lead"]
# Characters at which str.splitlines() -- but neither N-Triples, TSV nor Turtle -- ends a line; written raw by the nt / tsv_spo /
# turtle_iter renderers, always in the middle of the text.  (RDF/XML cannot carry U+000C: blank in that rendering only.)
LINE_SEPARATORS = [u"first\u2028second", u"next\u0085line", u"page\x0cbreak", u"a\u2028b\u0085c\x0cd"]
LANGUAGE_TAGGED = [("hello", "en"), ("hola", "es"), ("colour", "en-GB"),
                   # '@' inside the text, followed later by a blank; the last one (no blank after '@') is the control
                   ("reach me @ the office", "en"), ("a @ b", "en-GB"), ("bob@example.org", "en")]


def _add_tricky(T, rng):
    M, S, G = U.lib()
    subjects = U.dedup([s for (s, p, o) in T if isinstance(s, M.IRI)])
    out = list(T)
    props = (G.EX + "label", G.PROP_P, G.OTHER + "note")
    for _ in range(rng.randint(2, 5)):
        lx = rng.choice(TRICKY)
        out.append(M.Triple(rng.choice(subjects), rng.choice(props), M.Lit(lx) if rng.random() < 0.7 else M.Lit(lx, dt=U.DT_FOO)))
    return U.dedup(out)


def _add_separators_and_languages(T, rng):
    """Plain, custom-typed and language-tagged literals with line-separator characters + ordinary language-tagged literals."""
    M, S, G = U.lib()
    subjects = U.dedup([s for (s, p, o) in T if isinstance(s, M.IRI)])
    out = list(T)
    props = (G.EX + "label", G.PROP_P, G.OTHER + "note")
    for _ in range(rng.randint(2, 4)):
        lx = rng.choice(LINE_SEPARATORS)
        lit = (M.Lit(lx), M.Lit(lx, dt=U.DT_FOO), M.Lit(lx, lang=rng.choice(("en", "es"))))[rng.randrange(3)]
        out.append(M.Triple(rng.choice(subjects), rng.choice(props), lit))
    for _ in range(rng.randint(1, 3)):
        lx, lang = rng.choice(LANGUAGE_TAGGED)
        out.append(M.Triple(rng.choice(subjects), rng.choice(props), M.Lit(lx, lang=lang)))
    return U.dedup(out)


def _add_non_ascii_iris(T, rng):
    """Class, property and instance IRIs with raw non-ASCII characters (legal in RDF 1.1 IRIs; written raw in UTF-8)."""
    M, S, G = U.lib()
    typed = U.dedup([s for (s, p, o) in T if p == M.RDF_TYPE and isinstance(s, M.IRI)])
    classes = U.dedup([o for (s, p, o) in T if p == M.RDF_TYPE])
    nino, zurich, east = M.IRI(G.EX + u"Ni\u00f1o"), M.IRI(G.EX + u"Z\u00fcrich"), M.IRI(G.OTHER + u"\u6771\u4eac")
    prenom, strasse = G.EX + u"pr\u00e9nom", G.OTHER + u"stra\u00dfe_\u540d"
    out = list(T)
    out += [M.Triple(zurich, M.RDF_TYPE, nino), M.Triple(zurich, prenom, M.Lit("x")), M.Triple(east, M.RDF_TYPE, nino),
            M.Triple(east, strasse, zurich)]
    if classes:
        out.append(M.Triple(zurich, M.RDF_TYPE, classes[0]))
    for s in typed[:2]:
        out.append(M.Triple(s, prenom, M.Lit(u"Jos\u00e9")))
        if rng.random() < 0.5:
            out.append(M.Triple(s, strasse, east))
    out = U.dedup(out)
    rng.shuffle(out)
    return out


def _add_twins(T, rng):
    """The same local names in both namespaces, the twins in the second half of the document (for the re-bound prefixes)."""
    M, S, G = U.lib()
    first = list(T)
    twins = []
    for (s, p, o) in T:
        for a, b in ((G.EX, G.OTHER), (G.OTHER, G.EX)):
            if p.startswith(a) and p != M.RDF_TYPE and "/" not in p[len(a):] and "#" not in p[len(a):] and len(twins) < 4:
                twins.append(M.Triple(s, b + p[len(a):], M.Lit("twin") if len(twins) % 2 else M.Lit("7", dt=M.XSD_INTEGER)))
    second = U.dedup([t for t in twins if t not in first])
    while len(second) < len(first):                      # keep the twins in the second half
        second.append(M.Triple(M.IRI(G.EX + "pad%d" % len(second)), G.EX + "padding", M.Lit("x")))
    return U.dedup(first + second)


def gen_cases(tier, seed):
    M, S, G = U.lib()
    rng = random.Random("C08|%s|%s" % (tier, seed))
    n_iri, n_bn = SIZES[tier]
    cases = []
    modes = ({"all_classes_mode": True}, {"target_classes": [G.CLASS_A, G.CLASS_B]}, {"all_classes_mode": True, "inverse_paths": True})
    fam = U.mixed_family(rng, n_iri // 4, n_iri - n_iri // 4, bnodes=False, big=(tier == "thorough"))
    for gi, (origin, T) in enumerate(fam):
        if gi % 3 == 1:
            T = _retype(T, rng)
        if gi % 4 == 2:
            T = _add_tricky(T, rng)
        if gi % 4 == 0 or gi % 8 == 2:
            T = _add_separators_and_languages(T, rng)
        if gi % 5 == 1:
            T = _add_non_ascii_iris(T, rng)
        rebind = gi % 5 == 3
        if rebind:
            T = _add_twins(T, rng)
        variants = _variants(rng, len(T), FORMATS)
        if rebind or gi % 5 == 1:
            variants += [{"fmt": "turtle_iter", "how": "raw", "rebind": True}, {"fmt": "turtle_iter", "how": "file", "rebind": True},
                         {"fmt": "turtle_iter", "how": "file", "comp": "gz", "rebind": True},
                         {"fmt": "turtle", "how": "file", "rebind": True}, {"fmt": "turtle", "how": "raw", "rebind": True}]
        cases.append({"family": "iri", "origin": origin, "nt": U.to_nt(T), "cfg": modes[gi % 3], "t": (0, 0, 0.5)[gi % 3],
                      "variants": variants})
    fam = [("enum-bnode", T) for T in U.enum_small(n_bn // 3, "bnode")]
    for i in range(n_bn - n_bn // 3):
        fam.append(("random-bnode", U.rand_graph(rng, n_nodes=rng.randint(3, 8), n_triples=rng.randint(4, 20), n_classes=rng.randint(2, 3),
                                                 n_props=rng.randint(2, 4), p_bnode=0.35)))
    for gi, (origin, T) in enumerate(fam):
        cases.append({"family": "bnode", "origin": origin, "nt": U.to_nt(T), "cfg": modes[gi % 3], "t": (0, 0.5)[gi % 2],
                      "variants": _variants(rng, len(T), LINE_FORMATS)})
    n_main = len(cases)
    for k in range(max(4, n_iri // 6)):                  # the archive at one path is replaced between two runs of one process
        a, b = cases[(7 * k) % n_iri], cases[(7 * k + 3) % n_iri]
        cases.append({"family": "zip-replace", "origin": "pair", "nt": a["nt"], "nt2": b["nt"], "cfg": modes[k % 3], "t": 0,
                      "fmt": FORMATS[k % len(FORMATS)], "how": ("file", "files")[(k // len(FORMATS)) % 2], "variants": []})
    return cases[:n_main] + cases[n_main:]


RULE = ("one evaluation = one fresh Shaper run on one delivery of the graph. Every delivery (format in nt/tsv_spo/turtle_iter/turtle/xml/"
        "n3/json-ld x {raw string, one file, 2-4 files with an arbitrary partition of the triples, rdflib Graph object} x compression in "
        "{none, gz, xz, zip with 1-4 members, several zip archives}) must give the same normalised ShExC output as the raw N-Triples "
        "string: labels, instance counts, multiset of (inverse, predicate, value, cardinality, ratio, count), multiset of figure "
        "comments (prefixes expanded, order ignored; instances_report_mode='mixed'). Differences that concern only the choice among "
        "equally frequent shape references are reported with kind 'tie'. Graphs with blank nodes: only nt, tsv_spo, turtle_iter and the "
        "rdflib Graph object. For nt/tsv_spo/turtle_iter the raw string is also compared with the file holding the same text (raw-vs-file). "
        "Every output is checked against the abstract graph (labels, rdf:type values, property IRIs: iri-mangled); a fifth of the graphs has "
        "non-ASCII class/property/instance IRIs, another fifth is also delivered as Turtle whose halves re-bind the same prefix labels. "
        "60 %% of the graphs are also delivered as a .gz file of two gzip members per format; extra family: a zip archive replaced at the "
        "same path between two runs of one process. URLs are impossible offline: skipped. A channel that raises while the reference does not is reported as "
        "C08:channel-crashes and counted in skipped_crashes.")


# ------------------------------------------------------------------------------------------------
# driver
# ------------------------------------------------------------------------------------------------
def _init_worker():
    U.env()


def _work(case):
    R = _Book()
    t0 = time.time()
    err = None
    try:
        check_case(case, R)
    except Exception as exc:
        import traceback
        err = "%s: %s\n%s" % (type(exc).__name__, exc, traceback.format_exc()[-1200:])
    seen, kept = collections.Counter(), []
    for f in R.findings:
        seen[f["key"]] += 1
        if seen[f["key"]] <= 1:
            kept.append(f)
    return {"evaluations": R.evaluations, "crashes": dict(R.crashes), "nontrivial": sorted(R.nontrivial), "findings": kept,
            "counts": dict(seen), "stats": dict(R.stats), "error": err, "secs": time.time() - t0}


def _strip_case(case):
    return dict((k, v) for k, v in case.items() if k != "origin")


def run(pid=PID, tier="quick", seed=0):
    if pid != PID:
        raise ValueError("bounded.channels has no check for %r" % pid)
    if tier not in SIZES:
        tier = "quick"
    t0 = time.time()
    U.env()
    cases = gen_cases(tier, int(seed or 0))
    ctx = multiprocessing.get_context("fork")
    evaluations, crashes, nontrivial, findings, errors, counts = 0, collections.Counter(), set(), [], [], collections.Counter()
    stats = collections.Counter()
    pool = ctx.Pool(WORKERS, initializer=_init_worker)
    try:
        for res in pool.imap_unordered(_work, cases, chunksize=2):
            evaluations += res["evaluations"]
            crashes.update(res["crashes"])
            nontrivial.update(res["nontrivial"])
            findings.extend(res["findings"])
            counts.update(res["counts"])
            stats.update(res["stats"])
            if res.get("error"):
                errors.append(res["error"])
    finally:
        pool.close()
        pool.join()
    findings.sort(key=lambda f: (f["key"], len(json.dumps(f["input"]["case"], sort_keys=True, default=str)),
                                 json.dumps(f["input"], sort_keys=True, default=str)))
    by_key = collections.OrderedDict()
    for f in findings:
        by_key.setdefault(f["key"], f)
    # at most MAX_FINDINGS: prefer one key per (category, channel) before listing compression / file variants of the same channel
    ranked = sorted(by_key, key=lambda k: (k.endswith(":tie"), k.count(":"), k))
    out_findings = []
    for key in ranked[:MAX_FINDINGS]:
        f = dict(by_key[key])
        f["input"] = U.jsonable(dict(f["input"], case=_strip_case(f["input"]["case"])))
        f["occurrences"] = counts[key]
        out_findings.append(f)
    samples = []
    for c in cases[:: max(1, len(cases) // 3)][:3]:
        s = _strip_case(c)
        if len(s["variants"]) > 3:
            s["variants"] = s["variants"][:3] + ["... %d more" % (len(s["variants"]) - 3)]
        samples.append(U.jsonable(s))
    undecided = []
    if errors:
        undecided.append("channels monitor C08: %d case(s) raised inside the monitor, first: %s" % (len(errors), errors[0]))
    return {"name": "channels-monitor", "label": "bounded", "property": pid, "tier": tier, "seed": seed,
            "evaluations": evaluations, "distinct_nontrivial": len(nontrivial), "cases": len(cases), "rule": RULE,
            "bounds": "%d IRI-only graphs (enumerated 3-node graphs + seeded random graphs with 3-%d nodes, plain / xsd:integer / "
                      "xsd:decimal / xsd:boolean / xsd:date / custom-datatype literals, a quarter with lexical forms containing @ # ; , . < > "
                      "\\ escaped quotes, double blanks, non-ASCII, three eighths with language-tagged literals and plain / custom-typed / "
                      "language-tagged literals containing U+2028, U+0085, U+000C (blank instead of U+000C in RDF/XML); no '%%', no "
                      "unquoted numbers) x ~%d "
                      "deliveries each; %d graphs with blank nodes x ~%d deliveries (line readers + rdflib Graph object); multi-file "
                      "deliveries of the line readers are compared with the raw N-Triples string in the order of the files (%d of "
                      "them agree with it but not with the original order: tie-breaks follow the triple order); seed %s; wall-clock "
                      "guard %d s per run"
                      % (SIZES[tier][0], 12 if tier == "thorough" else 8, len(cases[0]["variants"]), SIZES[tier][1],
                         len([c for c in cases if c["family"] == "bnode"][-1]["variants"]), stats["differs_from_original_order_only"], seed, U.TIMEOUT),
            "samples": samples, "skipped_crashes": dict(crashes), "findings": out_findings, "undecided": undecided,
            "distinct_finding_keys": len(by_key), "all_finding_keys": dict((k, counts[k]) for k in sorted(by_key)),
            "wall_s": round(time.time() - t0, 2)}


def _replay_here(doc):
    inp = doc.get("input") or {}
    case = inp.get("case")
    if not case or "variants" not in case:
        return True, "replay: document carries no channels case"
    U.env()
    R = _Book()
    check_case(case, R)
    key = doc.get("key")
    hit = [f for f in R.findings if f["key"] == key]
    if hit:
        return False, "reproduced %s: %s" % (key, hit[0]["what"])
    if R.findings:
        return False, "reproduced with a different key %s (recorded %s): %s" % (R.findings[0]["key"], key, R.findings[0]["what"])
    if R.crashes:
        return True, "not reproduced: sheXer did not complete (%s)" % dict(R.crashes)
    return True, "not reproduced on this tree (%d sheXer runs, no disagreement)" % R.evaluations


def replay(doc):
    """ok=False iff the disagreement reproduces.  The order in which rdflib hands over the triples depends on the hash seed of the
    process, so a disagreement of kind 'tie' is also looked for in fresh processes with PYTHONHASHSEED = 0..5."""
    ok, msg = _replay_here(doc)
    if not ok or not str(doc.get("key", "")).endswith(":tie"):
        return ok, msg
    import subprocess
    for k in range(6):
        env = dict(os.environ, PYTHONHASHSEED=str(k), VERIF_REPO=U.repo_path())
        try:
            p = subprocess.run([sys.executable, "-m", "bounded.channels", "replay-doc"], input=json.dumps(doc), capture_output=True,
                               text=True, timeout=120, env=env, cwd=U.VERIF)
            got = json.loads(p.stdout.strip().split("\n")[-1])
        except Exception:
            continue
        if not got[0]:
            return False, "%s (PYTHONHASHSEED=%d)" % (got[1], k)
    return ok, msg + " (also with PYTHONHASHSEED 0..5)"


# ------------------------------------------------------------------------------------------------
# selftest
# ------------------------------------------------------------------------------------------------
def _mutants():
    U.env()
    import shexer.io.graph.yielder.multifile_base_triples_yielder as mb
    import shexer.io.graph.yielder.rdflib_triple_yielder as rt
    from shexer.model.Literal import Literal as model_Literal

    def skip_last_file():
        old = mb.MultifileBaseTripleYielder.yield_triples

        def yield_triples(self, parse_namespaces=True):
            self._reset_count()
            files = list(self._list_of_files)
            for a_source_file in (files[:-1] if len(files) > 1 else files):
                for a_triple in self._yield_triples_of_file(a_source_file, parse_namespaces):
                    yield a_triple
        mb.MultifileBaseTripleYielder.yield_triples = yield_triples
        return lambda: setattr(mb.MultifileBaseTripleYielder, "yield_triples", old)

    def every_literal_a_string():
        old = rt.RdflibTripleYielder._turn_into_model_literal

        def _turn_into_model_literal(rdflib_literal):
            return model_Literal(content=str(rdflib_literal), elem_type=XSD + "string")
        rt.RdflibTripleYielder._turn_into_model_literal = staticmethod(_turn_into_model_literal)
        return lambda: setattr(rt.RdflibTripleYielder, "_turn_into_model_literal", staticmethod(old))

    def raw_reader_splitlines():
        import shexer.io.line_reader.raw_string_line_reader as rs
        old = rs.RawStringLineReader.read_lines

        def read_lines(self):
            for a_line in self._raw_string.splitlines():          # also splits at U+2028, U+0085, \x0c ...
                if a_line.strip() != "":
                    yield a_line
        rs.RawStringLineReader.read_lines = read_lines
        return lambda: setattr(rs.RawStringLineReader, "read_lines", old)

    def iri_unicode_escape():
        import shexer.io.graph.yielder.nt_triples_yielder as m1
        import shexer.io.graph.yielder.tsv_nt_triples_yielder as m2
        import shexer.io.graph.yielder.big_ttl_triples_yielder as m3
        saved = []

        def wrap(fn):
            def tuned(a_token, *a, **kw):
                if a_token.startswith("<") and a_token.endswith(">"):       # 'decodes \\uXXXX', mangles raw non-ASCII
                    a_token = a_token.encode("utf-8").decode("unicode_escape")
                return fn(a_token, *a, **kw)
            return tuned
        for mod in (m1, m2, m3):
            for name in ("tune_subj", "tune_token", "tune_prop"):
                if hasattr(mod, name):
                    saved.append((mod, name, getattr(mod, name)))
                    setattr(mod, name, wrap(getattr(mod, name)))
        return lambda: [setattr(mod, name, fn) for mod, name, fn in saved]

    def prefixed_name_memo():
        import shexer.io.graph.yielder.big_ttl_triples_yielder as m3
        old = m3.BigTtlTriplesYielder._parse_elem

        def _parse_elem(self, raw_elem):
            if ":" not in raw_elem or raw_elem[0] in '<"_':
                return old(self, raw_elem)
            memo = self.__dict__.setdefault("_pname_memo", {})            # never cleared by a later @prefix
            if raw_elem not in memo:
                memo[raw_elem] = old(self, raw_elem)
            return memo[raw_elem]
        m3.BigTtlTriplesYielder._parse_elem = _parse_elem
        return lambda: setattr(m3.BigTtlTriplesYielder, "_parse_elem", old)

    def zip_archive_cache():
        import shexer.utils.factories.triple_yielders_factory as tf
        old = tf._get_base_zip_archive_if_needed
        cache = {}

        def _get_base_zip_archive_if_needed(source_file, list_of_source_files, compression_mode):
            if compression_mode != "zip":
                return None
            paths = [source_file] if source_file is not None else list(list_of_source_files)
            for a_path in paths:
                if a_path not in cache:                   # opened once per path, never invalidated
                    cache[a_path] = zipfile.ZipFile(a_path, "r")
            return [cache[a_path] for a_path in paths]
        tf._get_base_zip_archive_if_needed = _get_base_zip_archive_if_needed
        return lambda: setattr(tf, "_get_base_zip_archive_if_needed", old)

    def gz_first_member_only():
        import zlib
        import shexer.io.graph.yielder.rdflib_triple_yielder as rt
        old = rt.get_content_gz_file

        def get_content_gz_file(gz_path):
            with open(gz_path, "rb") as in_stream:
                return zlib.decompress(in_stream.read(), 16 + zlib.MAX_WBITS)      # stops after the first gzip member
        rt.get_content_gz_file = get_content_gz_file
        return lambda: setattr(rt, "get_content_gz_file", old)

    def nt_language_tag_first_arroba():
        import shexer.io.graph.yielder.nt_triples_yielder as m1
        old = m1.NtTriplesYielder._look_for_last_index_of_literal_token

        def _look_for_last_index_of_literal_token(self, target_str, first_index):
            target_substring = target_str[first_index:]
            if m1.there_is_arroba_after_last_quotes(target_substring):       # first '@' of the literal instead of the last one
                return self._look_for_last_index_of_unspaced_token(target_str, first_index + target_substring.find("@"))
            return old(self, target_str, first_index)
        m1.NtTriplesYielder._look_for_last_index_of_literal_token = _look_for_last_index_of_literal_token
        return lambda: setattr(m1.NtTriplesYielder, "_look_for_last_index_of_literal_token", old)

    def zip_members_under_a_folder_dropped():
        import shexer.utils.factories.triple_yielders_factory as tf
        old = tf.list_of_zip_internal_files

        def list_of_zip_internal_files(zip_base_archive):
            return [a_name for a_name in zip_base_archive.namelist() if "/" not in a_name]
        tf.list_of_zip_internal_files = list_of_zip_internal_files
        return lambda: setattr(tf, "list_of_zip_internal_files", old)

    return [("list_of_zip_internal_files drops the archive members that lie under a folder", "C08:channel-differs:zip:nested-member",
             zip_members_under_a_folder_dropped),
            ("the N-Triples tokenizer looks for the FIRST '@' of a language-tagged literal", "C08:channel-differs:nt",
             nt_language_tag_first_arroba),
            ("opened zip archives are cached per path and never invalidated", "C08:channel-differs:zip:stale-archive", zip_archive_cache),
            ("get_content_gz_file decompresses the first gzip member only", "-gz:multi-member", gz_first_member_only),
            ("the line readers decode IRIs with unicode_escape (raw non-ASCII becomes mojibake)", "C08:iri-mangled:", iri_unicode_escape),
            ("turtle_iter memoises prefixed names across a second @prefix for the same label", "C08:channel-differs:turtle_iter:prefix-rebound",
             prefixed_name_memo),
            ("RawStringLineReader.read_lines uses splitlines()", "C08:channel-differs:raw-vs-file:", raw_reader_splitlines),
            ("the multi-file yielder skips the last file / archive member", ":files=", skip_last_file),
            ("the rdflib yielder reports every literal as xsd:string", "C08:channel-differs:turtle", every_literal_a_string)]


def _selftest(verbose=True):
    ok = True
    t00 = time.time()
    base = run(PID, "selftest", 0)
    baseline = set(base["all_finding_keys"])
    if verbose:
        print("unpatched tree at selftest size: %d runs, keys %s, undecided %s" % (base["evaluations"], sorted(baseline), base["undecided"]))
    ok = ok and not base["undecided"]
    for desc, want, patch in _mutants():
        t0 = time.time()
        undo = patch()
        try:
            res = run(PID, "selftest", 0)
        finally:
            undo()
        new = [k for k in res["all_finding_keys"] if k not in baseline]
        hit = any(want in k for k in new)
        ok = ok and hit
        if verbose:
            print("%-4s C08 mutant: %-70s -> want *%s*, %d new key(s) %s  [%d runs, %.1fs]"
                  % ("ok" if hit else "FAIL", desc, want, len(new), sorted(new, key=lambda k: (k.count(":"), k))[:4], res["evaluations"],
                     time.time() - t0))
    if verbose:
        print("selftest %s in %.1fs" % ("passed: every mutant is detected" if ok else "FAILED", time.time() - t00))
    return ok


def main(argv):
    if len(argv) >= 1 and argv[0] == "selftest":
        return 0 if _selftest() else 1
    if len(argv) >= 1 and argv[0] == "replay-doc":     # helper of replay(): document on stdin, [ok, message] on stdout
        print(json.dumps(list(_replay_here(json.loads(sys.stdin.read())))))
        return 0
    if len(argv) >= 2 and argv[0] == "run":
        res = run(argv[1], argv[2] if len(argv) > 2 else "quick", int(argv[3]) if len(argv) > 3 else 0)
        brief = dict((k, v) for k, v in res.items() if k not in ("samples", "findings", "rule"))
        print(json.dumps(brief, indent=1, default=str))
        for f in res["findings"]:
            print("FINDING %s (x%d): %s" % (f["key"], f.get("occurrences", 1), f["what"][:900]))
            print("   input: %s" % json.dumps(f["input"], default=str)[:1500])
        return 0
    print(__doc__)
    return 2


if __name__ == "__main__":
    sys.exit(main(sys.argv[1:]))
