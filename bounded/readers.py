"""Bounded monitors of the two streaming readers of sheXer (from $VERIF_REPO).  Label: bounded -- evidence by
testing, never a proof.

  C06  NtTriplesYielder(raw_graph=line).yield_triples() / .error_triples against an oracle built from the
       abstract triple every line is generated from (rdflib's N-Triples parser referees validity and the
       generator: rejected lines are dropped and counted).
  C07  BigTtlTriplesYielder(raw_graph=doc).yield_triples() against the abstract statement groups the document
       is laid out from, after rdflib's Turtle parser (the referee) has read the same triples from the same text;
       documents outside the reader's dialect must raise.

Every single reader call runs under signal.alarm(2) inside the workers of a fork pool (N-Triples lines
additionally under a CPU-time timer); a timeout is the result "hang" and the worker goes on with the next case.
Deviations are attributed to root causes (one stable key each) by symptom and input features, see
_readers_util.nt_classify / ttl_classify.  Each root cause is reported once, with the plainest reproducer found
per symptom class (key = <pid>:<root-cause category>:<symptom class>; a hang always has a key of its own ending
in ":hang", an exception one ending in ":raise:<Type>"); at most MAX_FINDINGS findings are returned, hang keys first,
raise keys second, undocumented categories third (the rest, if any, is listed under "suppressed_findings").  Unlike the pipeline monitor, an
exception of a reader on an in-dialect / valid input IS a deviation here (the statements say what is yielded).

    run(pid, tier, seed) -> dict      replay(doc) -> (ok, message)
    python -m bounded.readers selftest           (from /verif: each property's check can fail)
    python -m bounded.readers run C06 [quick|thorough] [seed]
"""
import collections
import gc
import json
import multiprocessing
import os
import random
import sys
import time

try:
    from . import _readers_util as R
    from . import _pipeline_util as U
except ImportError:                                    # executed as a plain script
    sys.path.insert(0, os.path.dirname(os.path.abspath(__file__)))
    import _readers_util as R
    import _pipeline_util as U

PIDS = ("C06", "C07")
WORKERS = 12
MAX_FINDINGS = 20
CANDIDATES = 3                      # reproducers kept per key until the confirmation pass

SIZES = {
    # C06: (L values under all layouts, L values under the default layout, random lines, documents)
    # C07: ([(separator alphabet, max tokens) of the exhaustive families], random documents per layout style)
    "selftest": {"C06": ([0, 1], [2], 300, 40), "C07": ([((" ", "\n"), 7)], 150)},
    "quick": {"C06": ([0, 1, 2], [3], 3000, 300), "C07": ([((" ", "\n"), 9), ((" ", "\n", " # c\n"), 7)], 10000)},
    "thorough": {"C06": ([0, 1, 2, 3], [4], 30000, 3000),
                 "C07": ([((" ", "\n"), 9), ((" ", "\n", " # c\n", "\t", "\n# c\n"), 7), ((" ", "\n", " # c\n"), 8)], 100000)},
}

RULES = {
    "C06": "one evaluation = one N-Triples line (or one small document) read by NtTriplesYielder under a timeout; expected = exactly "
           "one triple with the node kinds, IRIs, blank-node labels (as '_:label') of the abstract triple the line was generated "
           "from, literal content = the lexical form between the outer quotes exactly as written (sheXer does not unescape, so the "
           "ESCAPED text is compared), datatype xsd:string / rdf:langString / the stated IRI, and error_triples == 0; lines rdflib's "
           "N-Triples parser rejects are dropped; documents (lines + blank and comment lines) must behave like their lines one by one",
    "C07": "one evaluation = one Turtle document read by BigTtlTriplesYielder under a timeout; rdflib's Turtle parser must read from "
           "the same text exactly the abstract triples the document was laid out from (else the case is dropped), and the reader must "
           "yield those triples, once each, in document order: node kinds, IRIs after prefix/base expansion, blank-node labels, literal "
           "datatypes (plain xsd:string, tagged rdf:langString, untyped integer xsd:integer) and lexical forms (sheXer's escaped "
           "content is unescaped before comparing); a document outside the dialect must raise, or yield what rdflib reads",
}

# A finding key is "<pid>:<root-cause category>:<symptom class>".  Symptom classes: hang | raise:<ExceptionType> |
# statement-dropped / missing-triple | extra-triple | wrong-node | wrong-content | wrong-datatype | error-count |
# wrong-triples (outside the dialect).  A non-termination ALWAYS has a key of its own ending in ":hang", an exception
# one ending in ":raise:<ExceptionType>"; one root cause may therefore show up under two or three keys.
# What each root-cause category means (shown in the finding next to the plainest reproducer); the order of this
# table is the order of the findings within one symptom rank.
CAUSE_DOC = collections.OrderedDict([
    # ---- C06
    ("unicode-line-separator-in-literal",
     "a literal holding U+2028 / U+2029 / U+0085 / FF / VT / FS / GS / RS unescaped (legal in N-Triples, whose only line ends "
     "are LF and CR): the statement must stay one line"),
    ("bnode-label-with-dot",
     "blank-node label with '.', '-' or digits inside (_:genid.1, _:b-2, _:a.b.c): the label is one token up to the next blank"),
    ("multi-file",
     "several N-Triples files read through list_of_source_files (sheXer's factory: MultiNtTriplesYielder, also over the members "
     "of one ZIP archive): triples in file order, error_triples = malformed lines so far while every triple is yielded and at the end"),
    ("multi-file:compressed",
     "gz / xz compressed N-Triples files through get_triple_yielder(list_of_source_files=..., input_format='nt', "
     "compression_mode=...) (and, as controls, one gz / xz / zip file through source_file=): valid documents, so the triples "
     "of all members in order and error_triples == 0"),
    ("multi-zip",
     "two ZIP archives (MultiZipTriplesYielder): once the iteration is over the totals count the last archive twice "
     "(its figures are added to the running total AND still read from _current_yielder)"),
    ("no-space-after-object",
     "object token that ends at the next blank (blank node, typed / language-tagged literal, literal with '^^' in it) directly "
     "followed by the final dot or a tab"),
    ("dot-glued-to-object-before-comment",
     "the final dot touches a blank-node / typed / language-tagged object and a comment follows: only a LINE-final dot is taken off "
     "the token, so here the dot stays part of the label / datatype IRI / language tag"),
    ("blank-node-subject-followed-by-tab", "blank-node subject followed by a tab instead of a blank"),
    ("trailing-comment-scanned-as-literal",
     "the literal scanner works on the whole rest of the line, trailing comment included: a '\"', '^^' or '@' in the comment moves "
     "the 'last quote' / switches the typed branch"),
    ("caret-caret-then-space-inside-lexical-form",
     "lexical form containing '^^' and a blank later on: the token is taken to start its datatype at the first '^^' of the line "
     "and ends at the next blank, inside the literal"),
    ("escaped-backslash-then-escaped-quote",
     "plain literal containing an escaped backslash followed by an escaped quote (an odd number >= 3 of backslashes before a "
     "quote): the closing-quote search takes the escaped quote for the end of the literal"),
    ("quote-then-caret-caret-in-lexical-form",
     "lexical form that begins with '^^' (the OPENING quote is then followed by ^^) or contains an escaped quote followed by ^^: "
     "utils/uri.decide_literal_type takes that '\"^^' for the datatype marker"),
    ("caret-caret-in-lang-literal",
     "LANGUAGE-TAGGED literal with '^^' in its text: the reader must look for the language tag first (it does on the recorded "
     "tree, where only plain and typed literals with '^^' fail)"),
    ("caret-caret-in-plain-literal", "plain or language-tagged literal with '^^' somewhere in its lexical form (typed branch of the tokenizer)"),
    ("language-tag-not-detected", "language-tagged literal reported as xsd:string"),
    ("prefix-like-substring-in-lexical-form",
     "typed literal whose lexical form contains 'xsd:' / 'rdf:' / 'dt:' / 'geo:': decide_literal_type searches the whole token "
     "and builds the datatype from the text after that substring"),
    ("prefix-like-substring-in-datatype-iri",
     "typed literal whose datatype IRI contains 'xsd:' / 'rdf:' / 'dt:' / 'geo:' (e.g. urn:x-dt:foo): datatype rebuilt from a "
     "hard-wired namespace + the rest of the token"),
    ("comment-line-not-recognised",
     "comment lines are tokenised like statements: counted in error_triples, and a comment holding three <..> terms is yielded as a triple"),
    ("document-differs-from-its-lines", "a document does not behave like its lines read one by one"),
    ("content-truncated-at-escaped-quote",
     "literal content is cut at the first escaped quote (utils/uri.parse_literal uses find('\"', 1)); kinds and datatype are right"),
    # ---- C07
    ("line-final-token", "a prefixed name, 'a', blank node, integer or typed literal that ends its line"),
    ("literal-closing-quote-at-end-of-line", "closing quote of a plain literal as last character of its line"),
    ("language-tag", "language-tagged literal"),
    ("custom-prefix-datatype",
     "datatype written with a declared prefix other than xsd/rdf/dt/geo: decide_literal_type ignores the prefix table"),
    ("relative-datatype-under-base",
     "literal whose datatype is a relative IRI (\"20\"^^<celsius>): it resolves against the @base in force, also when the same "
     "literal text was read under another base earlier in the document or in an earlier document of the same process"),
    ("colon-in-local-name",
     "prefixed name whose local part contains ':' (ex:item:42, voc:part:of): the namespace replaces the label only, the local part "
     "stays whole, so ex:item:42 / ex:item:43 / ex:item are three nodes"),
    ("tab-before-comment",
     "trailing comment whose '#' follows a TAB (or TAB+blank / several blanks) on a line that is followed by more of the "
     "document: it must be stripped like a comment after one blank (the same document with ' # note' reads correctly)"),
    ("prefix-redeclared",
     "a prefix label declared again with another namespace: from there on the later declaration holds (names used before and after)"),
    ("base-redeclared", "@base declared again: relative IRIs after it resolve against the later base"),
    ("comment-literal-bounds-not-found",
     "comment stripping locates the first literal of a line with the regex [^\\\\]\" : it misses an opening quote in column 0, an "
     "empty literal and a closing quote after an escaped backslash -> IndexError, or text inside the literal cut as comment"),
    ("comment-hash-inside-later-literal",
     "' #' inside the second or later literal of a line is taken for a comment start (only the first literal is protected)"),
    ("outside-dialect-no-blank-before-punctuation",
     "'ex:o.' / 'ex:a,ex:b' / '42.': the punctuation is swallowed into the token; triples are lost or fused silently instead of an error"),
    ("outside-dialect-statement-on-directive-line", "a statement after '@prefix ... .' on the same line is ignored silently"),
    ("base-fragment-or-path-reference",
     "<#frag> and </path> under @base: the leading character is dropped and the rest appended to the base "
     "(<#f> -> base + 'f', </p> -> base + 'p') instead of RFC 3986 resolution"),
    ("base-non-http-absolute-iri", "with @base in force every <IRI> not starting with 'http' (e.g. <urn:ex:a>) gets the base prepended"),
    ("trailing-semicolon", "'; .' (legal Turtle): both ';' and '.' yield the current triple, so the last triple of the statement comes twice"),
])
_CAUSE_ORDER = list(CAUSE_DOC)


def make_key(pid, category, symptom):
    return "%s:%s:%s" % (pid, category, symptom)


def split_key(key):
    """-> (pid, category, symptom class); the category may itself hold ':' (multi-file:compressed), the symptom class is
    the last component, or 'raise:<ExceptionType>'."""
    parts = key.split(":")
    if len(parts) >= 4 and parts[-2] == "raise":
        return parts[0], ":".join(parts[1:-2]), "raise:" + parts[-1]
    return parts[0], ":".join(parts[1:-1]), parts[-1]


def _key_rank(pid, key):
    """hang keys first, raise keys second, then categories this module has no description for ('other' and
    the outside-dialect constructs that used to raise: possibly new defects), then the documented rest."""
    _, category, symptom = split_key(key)
    known = category in CAUSE_DOC
    order = _CAUSE_ORDER.index(category) if known else -1
    if symptom == "hang":
        return (0, order, key)
    if symptom.startswith("raise:"):
        return (1, order, key)
    if not known:
        return (2, order, key)
    return (3, order, key)


# ================================================================================================
# case generation (parent process)
# ================================================================================================
def gen_cases(pid, tier, seed):
    """-> list of work units: ("line", case) | ("ntdoc", items) | ("ntdoc-oracle", items) | ("ttl", case) |
    ("ttlx", case: @prefix / @base declared again) | ("ttlseq", documents read one after the other by one process) |
    ("multifile", case) | ("outside", construct, text)."""
    rng = random.Random("%s-%s" % (pid, seed))
    size = SIZES[tier][pid]
    units = []
    if pid == "C06":
        L_all, L_default, n_random, n_docs = size
        seen = set()

        def add(case):
            if case not in seen:
                seen.add(case)
                units.append(("line", case))
        for case in R.nt_literal_cases(L_all, R.nt_layouts(True)):
            add(case)
        for case in R.nt_literal_cases(L_default, R.nt_layouts(False)):
            add(case)
        for case in R.nt_node_cases():
            add(case)
        for case in R.nt_line_separator_cases():
            add(case)
        for case in R.nt_bnode_label_cases():
            add(case)
        for case in R.multifile_cases():
            units.append(("multifile", case))
        for items in R.nt_line_separator_documents():
            units.append(("ntdoc-oracle", items))
        lo = max(L_all + L_default) + 1
        for _ in range(n_random):
            add(R.nt_random_case(rng, lo, lo + 5))
        for i in range(n_docs):
            items = []
            for _ in range(rng.randint(2, 5)):
                r = rng.random()
                if r < 0.6:
                    c = R.nt_random_case(rng, 0, 3)
                    # documents are about order / counting: keep to the default layout (the line cases cover the others)
                    items.append(("line", c[:3] + R.DEFAULT_LAYOUT))
                elif r < 0.85:
                    items.append(("comment", rng.choice(R.COMMENT_LINES)))
                else:
                    items.append(("blank", rng.choice(["", "   ", "\t"])))
            units.append(("ntdoc", items))
    else:
        families, n_random = size
        seen = set()
        for (separators, max_tokens) in families:
            for case in R.ttl_exhaustive_cases(separators, max_tokens):
                sig = json.dumps([case["groups"], case["seps"]])
                if sig not in seen:
                    seen.add(sig)
                    units.append(("ttl", case))
        for case in R.ttl_term_cases():
            units.append(("ttl", case))
        for i in range(n_random):
            units.append(("ttl", R.ttl_random_case(rng, safe_layout=False)))
            units.append(("ttl", R.ttl_random_case(rng, safe_layout=True)))
        for case in R.ttl_tab_comment_cases():
            units.append(("ttl", case))
        for case in R.ttl_redeclaration_cases():
            units.append(("ttlx", case))
        for case in R.ttl_colon_local_cases():
            units.append(("ttlx", case))
        for case in R.ttl_sequence_cases():
            units.append(("ttlseq", case))
        for (construct, text) in R.OUTSIDE_DIALECT:
            units.append(("outside", construct, text))
    return units


def _chunks(units, pid):
    n = 250 if pid == "C06" else 40
    return [units[i:i + n] for i in range(0, len(units), n)]


# ================================================================================================
# one work unit (worker process)
# ================================================================================================
def _jsonable_outcome(outcome):
    if outcome[0] == "ok":
        return {"status": "ok", "value": outcome[1]}
    if outcome[0] == "hang":
        return {"status": "hang"}
    return {"status": "raise", "exception": outcome[1], "where": outcome[2], "message": outcome[3]}


_PLAIN_CACHE = {}                              # per process: layout variant of a line -> outcome (counterfactuals of nt_attribute)
_HANGS_CONFIRMED = collections.Counter()      # per worker process: root-cause category -> hangs seen under the plain 2 s alarm
TRUST_AFTER = 2                                # after that many, a CPU-timer expiry of the same category is taken as a hang at once


def _nt_case(x):
    """(s, p, o, sep1, sep2, sep3, comment) with hashable nodes (a replayed case comes back from JSON as lists)."""
    return (tuple(x[0]), x[1], tuple(x[2])) + tuple(x[3:])


_WALL_ONLY = [False]                           # confirmation / replay: no CPU timer at all


def _read_line(case):
    """One N-Triples line through the reader.  The CPU timer expiring is a hang only once the plain wall-clock alarm
    has confirmed TRUST_AFTER hangs of the same root-cause category in this worker (a regression can bring thousands
    of hanging lines; two seconds each would not fit the budget); until then the 2 s alarm alone decides."""
    line = R.nt_line(case)
    if _WALL_ONLY[0]:
        return R.read_nt(line, cpu=None)
    outcome = R.read_nt(line)
    if outcome[0] == "hang":
        category = R.nt_classify(case, outcome)[0][0]
        if _HANGS_CONFIRMED[category] < TRUST_AFTER:
            outcome = R.read_nt(line, cpu=None)
            if outcome[0] == "hang":
                _HANGS_CONFIRMED[category] += 1
    return outcome


def _read_variant(variant):
    if variant not in _PLAIN_CACHE:
        if len(_PLAIN_CACHE) > 50000:
            _PLAIN_CACHE.clear()
        _PLAIN_CACHE[variant] = _read_line(variant)
    return _PLAIN_CACHE[variant]


def eval_unit(unit, confirm=False):
    """-> {"evaluated": 0/1, "dropped": reason or None, "deviations": [(key, record)]}.
    confirm=True: the plain 2 s wall-clock alarm only (no CPU timer)."""
    kind = unit[0]
    res = {"evaluated": 0, "dropped": None, "deviations": [], "note": None, "nontrivial": 0}
    if kind == "line":
        case = _nt_case(unit[1])
        line = R.nt_line(case)
        g = R.nt_generator_agrees(case, line)
        if g is not None and not g.startswith("quirk"):
            res["dropped"] = g
            return res
        if g is not None:
            res["note"] = "rdflib-unquote-quirk"
        _WALL_ONLY[0] = bool(confirm)
        if confirm:
            _PLAIN_CACHE.clear()
        outcome = _read_line(case)
        res["evaluated"] = 1
        res["nontrivial"] = 1 if (case[2][0] != "I" or case[3:] != R.DEFAULT_LAYOUT) else 0
        exp = R.nt_expected(case)
        for (category, symptom, text) in R.nt_attribute(case, outcome, _read_variant):
            rec = {"pid": "C06", "kind": "line", "case": list(case), "text": line, "expected": {"triples": [exp], "error_triples": 0},
                   "observed": _jsonable_outcome(outcome), "symptom": text}
            res["deviations"].append((make_key("C06", category, symptom), rec))
        res["sample"] = {"line": line, "expected": exp, "observed": _jsonable_outcome(outcome)}
        return res
    if kind == "ntdoc":
        items = [(k, _nt_case(x) if k == "line" else x) for (k, x) in unit[1]]
        for k, x in items:
            if k == "line":
                g = R.nt_generator_agrees(x, R.nt_line(x))
                if g is not None and not g.startswith("quirk"):
                    res["dropped"] = g
                    return res
        evaluated, devs, doc = R.nt_doc_check(items)
        if not evaluated:
            res["dropped"] = "document holds a line the reader does not get through on its own (covered by the line cases)"
            return res
        res["evaluated"] = 1
        res["nontrivial"] = 1
        for (category, symptom, text) in devs:
            rec = {"pid": "C06", "kind": "ntdoc", "case": [list(i) for i in unit[1]], "text": doc, "symptom": text}
            res["deviations"].append((make_key("C06", category, symptom), rec))
        return res
    if kind == "ntdoc-oracle":
        items = [(k, _nt_case(x)) for (k, x) in unit[1]]
        doc = "\n".join(R.nt_line(x) for k, x in items) + "\n"
        ref = R.rdflib_nt(doc)
        want = []
        for k, x in items:
            e = R.nt_expected(x)
            want.append(e[:4] + [R.unescape(e[4]), e[5]] if e[3] == "Literal" else e)
        if ref[0] != "ok":
            res["dropped"] = "rejected: " + ref[1]
            return res
        if ref[1] != want:
            res["dropped"] = "disagrees: rdflib reads %r, generator %r" % (ref[1], want)
            return res
        devs, doc = R.nt_doc_oracle_check(items)
        res["evaluated"] = 1
        res["nontrivial"] = 1
        for (category, symptom, text) in devs:
            rec = {"pid": "C06", "kind": "ntdoc-oracle", "case": [list(i) for i in unit[1]], "text": doc, "symptom": text,
                   "expected": {"triples": [R.nt_expected(x) for k, x in items], "error_triples": 0}}
            res["deviations"].append((make_key("C06", category, symptom), rec))
        return res
    if kind == "multifile":
        case = unit[1]
        texts, rows, errs_at, bad = R.multifile_content(case)
        good = "".join(ln + "\n" for t in texts for ln in t.split("\n") if ln and ln not in R.MALFORMED_LINES)
        ref = R.rdflib_nt(good)                                   # the referee reads the good statements of all files
        if ref[0] != "ok" or ref[1] != rows:
            res["dropped"] = ("rejected: " + ref[1]) if ref[0] != "ok" else "disagrees: rdflib reads %r, generator %r" % (ref[1], rows)
            return res
        outcome = R.read_multifile(case)
        res["evaluated"] = 1
        res["nontrivial"] = 1
        for (category, symptom, descr) in R.multifile_classify(case, outcome):
            rec = {"pid": "C06", "kind": "multifile", "case": case, "text": "\n--- next file ---\n".join(texts),
                   "expected": {"triples": rows, "error_triples_while_each_triple_is_yielded": errs_at, "error_triples_at_the_end": bad},
                   "observed": _jsonable_outcome(outcome), "symptom": descr}
            res["deviations"].append((make_key("C06", category, symptom), rec))
        return res
    if kind == "ttlseq":
        case = unit[1]
        texts, exps = [], []
        for d in case["docs"]:
            t, e = R.redecl_text(d), R.redecl_expected(d)
            ref = R.rdflib_ttl(t)
            if ref[0] != "ok":
                res["dropped"] = "rejected: " + ref[1]
                return res
            if not R.same_graph(ref[1], e):
                res["dropped"] = "disagrees: rdflib reads %r, generator %r" % (ref[1], e)
                return res
            texts.append(t)
            exps.append(e)
        res["evaluated"] = 1
        res["nontrivial"] = 1
        for i, (d, t, e) in enumerate(zip(case["docs"], texts, exps)):      # same process, one after the other
            outcome = R.read_ttl(t)
            devs = R.redecl_classify(d, outcome, e)
            if devs:
                category, symptom, descr = devs[0]
                if category == "other" and R.has_relative_datatype(d):
                    category = "relative-datatype-under-base"
                rec = {"pid": "C07", "kind": "ttlseq", "case": case, "text": "\n--- next document, same process ---\n".join(texts),
                       "expected": exps, "observed": _jsonable_outcome(outcome),
                       "symptom": "document %d of %d read one after the other: %s" % (i + 1, len(texts), descr)}
                res["deviations"].append((make_key("C07", category, symptom), rec))
                break
        return res
    if kind == "ttlx":
        case = unit[1]
        text = R.redecl_text(case)
        exp = R.redecl_expected(case)
        ref = R.rdflib_ttl(text)
        if ref[0] != "ok":
            res["dropped"] = "rejected: " + ref[1]
            return res
        if not R.same_graph(ref[1], exp):
            res["dropped"] = "disagrees: rdflib reads %r, generator %r" % (ref[1], exp)
            return res
        outcome = R.read_ttl(text)
        res["evaluated"] = 1
        res["nontrivial"] = 1
        for (category, symptom, descr) in R.redecl_classify(case, outcome, exp):
            rec = {"pid": "C07", "kind": "ttlx", "case": case, "text": text, "expected": exp,
                   "observed": _jsonable_outcome(outcome), "symptom": descr}
            res["deviations"].append((make_key("C07", category, symptom), rec))
        return res
    if kind == "ttl":
        case = unit[1]
        text = R.ttl_text(case)
        toks, exp = R.ttl_tokens(case["groups"])
        ref = R.rdflib_ttl(text)
        if ref[0] != "ok":
            res["dropped"] = "rejected: " + ref[1]
            return res
        if not R.same_graph(ref[1], exp):
            res["dropped"] = "disagrees: rdflib reads %r, generator %r" % (ref[1], exp)
            return res
        outcome = R.read_ttl(text)
        res["evaluated"] = 1
        res["nontrivial"] = 1
        devs = R.ttl_classify(case, outcome, exp)
        if devs and case.get("family") == "tab-before-comment":
            # counterfactual: what the same document shows with its comment after ONE blank is not put down to the TAB
            twin = R.ttl_tab_comment_twin(case)
            same = set(d[1] for d in R.ttl_classify(twin, R.read_ttl(R.ttl_text(twin)), exp))
            devs = [(cat if sym in same else "tab-before-comment", sym, descr) for (cat, sym, descr) in devs]
        for (category, symptom, descr) in devs:
            rec = {"pid": "C07", "kind": "ttl", "case": case, "text": text, "expected": exp,
                   "observed": _jsonable_outcome(outcome), "symptom": descr}
            res["deviations"].append((make_key("C07", category, symptom), rec))
        res["sample"] = {"document": text, "expected": exp, "observed": _jsonable_outcome(outcome)}
        return res
    if kind == "outside":
        construct, text = unit[1], unit[2]
        ref = R.rdflib_ttl(text)
        if ref[0] != "ok":
            res["dropped"] = "rejected: " + ref[1]
            return res
        outcome = R.read_ttl(text)
        res["evaluated"] = 1
        res["nontrivial"] = 1
        rec = {"pid": "C07", "kind": "outside", "construct": construct, "text": text, "expected": "an exception, or the triples rdflib reads: %r"
               % (ref[1],), "observed": _jsonable_outcome(outcome)}
        if outcome[0] == "hang":
            rec["symptom"] = "hang"
            res["deviations"].append((make_key("C07", "outside-dialect-" + construct, "hang"), rec))
        elif outcome[0] == "ok":
            got = R.ttl_norm_rows(outcome[1])
            if not (R.same_graph(ref[1], got) and len(got) == len(ref[1])):
                rec["symptom"] = "no exception; %d triple(s) yielded, rdflib reads %d" % (len(got), len(ref[1]))
                res["deviations"].append((make_key("C07", "outside-dialect-" + construct, "wrong-triples"), rec))
            else:
                res["note"] = "outside-dialect-read-correctly"
        else:
            res["note"] = "outside-dialect-raised"
        return res
    raise ValueError("unknown work unit %r" % (kind,))


def _rank(rec):
    """plainest reproducer first."""
    complexity = (0, 0)
    if rec["kind"] == "line":
        complexity = R.nt_complexity(_nt_case(rec["case"]))
    elif rec["kind"] == "ttl":
        complexity = R.ttl_complexity(rec["case"])
    elif rec["kind"] == "ttlx":
        complexity = (R.REDECL_LAYOUTS.index(rec["case"]["layout"]), len(rec["case"]["parts"]))
    return (complexity, len(rec["text"]), rec["text"])


def _init_worker():
    R.import_readers()
    R.install_handlers()
    gc.freeze()                      # the CPU-time guard must not be tripped by a collection of the inherited heap


def _work(chunk):
    out = {"evaluated": 0, "nontrivial": 0, "dropped": collections.Counter(), "dropped_examples": [], "notes": collections.Counter(),
           "counts": collections.Counter(), "examples": {}, "errors": [], "samples": []}
    for unit in chunk:
        try:
            r = eval_unit(unit)
        except R.ReaderTimeout:                                     # a late signal: the case counts as a hang of the harness
            out["errors"].append("late timeout signal in %r" % (unit[0],))
            continue
        except Exception as exc:                                   # a bug of the monitor itself must be visible
            import traceback
            out["errors"].append("%s: %s\n%s" % (type(exc).__name__, exc, traceback.format_exc()[-800:]))
            continue
        out["evaluated"] += r["evaluated"]
        out["nontrivial"] += r["nontrivial"]
        if r["dropped"]:
            reason = r["dropped"].split(":")[0]
            out["dropped"][reason] += 1
            if reason == "disagrees" and len(out["dropped_examples"]) < 2:
                out["dropped_examples"].append(r["dropped"][:400])
        if r["note"]:
            out["notes"][r["note"]] += 1
        if r.get("sample") is not None and len(out["samples"]) < 1:
            out["samples"].append(r["sample"])
        for (key, rec) in r["deviations"]:
            out["counts"][key] += 1
            lst = out["examples"].setdefault(key, [])
            lst.append((_rank(rec), rec))
            lst.sort(key=lambda x: x[0])
            del lst[CANDIDATES:]
    return out


def _confirm_work(item):
    key, rec = item
    unit = _unit_of(rec)
    try:
        r = eval_unit(unit, confirm=True)
    except BaseException as exc:
        return key, rec, False, "confirmation failed: %r" % (exc,)
    for (k, rec2) in r["deviations"]:
        if k == key:
            return key, rec2, True, ""
    return key, rec, False, "not reproduced under the %d s wall-clock alarm: %r" % (R.WALL_SECONDS, [d[0] for d in r["deviations"]])


def _unit_of(rec):
    if rec["kind"] == "line":
        return ("line", rec["case"])
    if rec["kind"] == "ntdoc":
        return ("ntdoc", rec["case"])
    if rec["kind"] in ("ttl", "ttlx", "ntdoc-oracle", "multifile", "ttlseq"):
        return (rec["kind"], rec["case"])
    return ("outside", rec["construct"], rec["text"])


# ================================================================================================
# driver
# ================================================================================================
def run(pid, tier="quick", seed=0):
    if pid not in PIDS:
        raise ValueError("readers monitor has no check for %r" % pid)
    if tier not in SIZES:
        tier = "quick"
    t0 = time.time()
    U.env()
    R.import_readers()
    units = gen_cases(pid, tier, int(seed or 0))
    chunks = _chunks(units, pid)
    ctx = multiprocessing.get_context("fork")
    evaluated, nontrivial = 0, 0
    dropped, notes, counts = collections.Counter(), collections.Counter(), collections.Counter()
    examples, errors, samples, dropped_examples = {}, [], [], []
    pool = ctx.Pool(WORKERS, initializer=_init_worker)
    try:
        for res in pool.imap_unordered(_work, chunks, chunksize=1):
            evaluated += res["evaluated"]
            nontrivial += res["nontrivial"]
            dropped.update(res["dropped"])
            notes.update(res["notes"])
            counts.update(res["counts"])
            errors.extend(res["errors"])
            dropped_examples.extend(res["dropped_examples"])
            if len(samples) < 40:
                samples.extend(res["samples"])
            for key, lst in res["examples"].items():
                cur = examples.setdefault(key, [])
                cur.extend(lst)
                cur.sort(key=lambda x: x[0])
                del cur[CANDIDATES:]
        # confirmation pass: every reproducer that will be reported is run again under the plain wall-clock alarm
        keys = sorted(examples, key=lambda k: _key_rank(pid, k))
        todo = [(k, rec) for k in keys for (_, rec) in examples[k]]
        confirmed, unconfirmed = {}, []
        for (key, rec, ok, info) in pool.imap(_confirm_work, todo, chunksize=1):
            if ok:
                confirmed.setdefault(key, (rec, info))
            else:
                unconfirmed.append("%s: %s | %r" % (key, info, rec["text"][:200]))
    finally:
        pool.close()
        pool.join()
    ordered = [k for k in keys if k in confirmed]
    findings, suppressed = [], []
    for key in ordered:
        rec, _ = confirmed[key]
        _, category, symptom = split_key(key)
        what = "%s -> %s | %d deviating case(s) with this root cause and symptom class | this reproducer: %s" % (
            CAUSE_DOC.get(category, "deviation without a documented root cause"), symptom, counts[key], rec.get("symptom"))
        f = {"key": key, "what": what, "input": U.jsonable(rec), "occurrences": counts[key]}
        if len(findings) < MAX_FINDINGS:
            findings.append(f)
        else:
            suppressed.append({"key": key, "what": what, "text": rec["text"]})
    undecided = []
    if errors:
        undecided.append("readers monitor %s: %d case(s) raised inside the monitor, first: %s" % (pid, len(errors), errors[0]))
    if dropped.get("disagrees"):
        undecided.append("readers monitor %s: generator and rdflib disagree on %d case(s) (dropped), first: %s"
                         % (pid, dropped["disagrees"], (dropped_examples or ["?"])[0]))
    lost = [k for k in keys if k not in confirmed]
    if lost:
        undecided.append("readers monitor %s: %d key(s) seen under the CPU-time guard did not reproduce under the wall-clock alarm: %s"
                         % (pid, len(lost), "; ".join(unconfirmed[:3])))
    step = max(1, len(samples) // 3)
    if pid == "C06":
        bounds = ("alphabet of %d symbols %r; exhaustive lexical forms of L in %r symbols x 5 suffix forms (none, @en, @en-GB, "
                  "^^<xsd:anyURI>, ^^<%s>) x %d layouts (separator in %r, before the dot %r, trailing comment %r); L in %r under "
                  "the default layout; %d IRIs / %d blank-node labels in every position + separator product on a small node set "
                  "(+ comments %r); %d random lines of %d..%d symbols over the alphabet + %r; %d documents of 2-5 lines with blank "
                  "and comment lines; each of the 8 characters str.splitlines() breaks at (U+2028 U+2029 U+0085 FF VT FS GS RS) at the "
                  "start / middle / end of plain, tagged and typed literals under every layout, next to every alphabet symbol, and in "
                  "2-3 statement documents; seed %s; guards: alarm %d s + CPU timer %.2f s per call"
                  % (len(R.SYMBOLS), R.SYMBOLS, SIZES[tier][pid][0], R.DT_FOO, len(R.nt_layouts(True)), R.SEPS, R.PRE_DOT, R.COMMENTS,
                     SIZES[tier][pid][1], len(R.IRIS), len(R.BNODES), R.ODD_COMMENTS, SIZES[tier][pid][2],
                     max(SIZES[tier][pid][0] + SIZES[tier][pid][1]) + 1, max(SIZES[tier][pid][0] + SIZES[tier][pid][1]) + 6,
                     R.EXTRA_SYMBOLS, SIZES[tier][pid][3], seed, R.WALL_SECONDS, R.CPU_SECONDS))
    else:
        bounds = ("every placement of separators at every token boundary (families %r: separator alphabet, max tokens) of %d statement "
                  "shapes %r x %d term palettes (<= 3 triples); every subject/predicate/object writing (%d/%d/%d: prefixed, <absolute>, "
                  "<relative> under @base, blank nodes, 'a', literals with escapes and '#' ';' ',' '.', language tags, datatypes as "
                  "<IRI> / xsd: / custom prefix, integers) in canonical layout, literals x trailing comments; 2 x %d random documents "
                  "(1-3 subjects, ';' and ',' groups, rich separators %r, and a house-style layout with breaks after punctuation "
                  "only); 410 documents with one trailing comment after TAB / TAB+blank / several blanks at every token boundary that is followed by "
                  "more of the document; 14 documents x 3 layouts that declare a prefix label or @base again and reuse the same names; %d documents "
                  "outside the dialect; seed %s; guard: alarm %d s per document"
                  % (SIZES[tier][pid][0], len(R.SHAPES), R.SHAPES, len(R.PALETTES), len(R.SUBJ), len(R.PRED),
                     len(R.OBJ), SIZES[tier][pid][1], sorted(set(R.RICH_SEPS)), len(R.OUTSIDE_DIALECT), seed, R.WALL_SECONDS))
    return {"name": "readers-monitor", "label": "bounded", "property": pid, "tier": tier, "seed": seed,
            "evaluations": evaluated, "distinct_nontrivial": nontrivial, "cases": len(units),
            "rule": RULES[pid], "bounds": bounds,
            "samples": U.jsonable(samples[::step][:3]),
            "dropped_by_referee": dict(dropped), "notes": dict(notes),
            "deviating_cases_by_key": dict(sorted(counts.items())),
            "findings": findings, "suppressed_findings": suppressed, "unconfirmed": unconfirmed[:10],
            "undecided": undecided, "distinct_finding_keys": len(ordered), "wall_s": round(time.time() - t0, 2)}


def replay(doc):
    """doc["input"] as stored by run(); ok=False iff the violation reproduces on the current tree."""
    rec = doc.get("input") or {}
    if rec.get("pid") not in PIDS or "kind" not in rec:
        return True, "replay: document carries no readers case"
    U.env()
    R.import_readers()
    R.install_handlers()
    r = eval_unit(_unit_of(rec), confirm=True)
    key = doc.get("key")
    if r["dropped"]:
        return True, "not reproduced: the referee drops the case (%s)" % r["dropped"][:200]
    same = [d for d in r["deviations"] if d[0] == key]
    if same:
        return False, "reproduced %s: %s on %r" % (key, same[0][1].get("symptom"), rec.get("text"))
    if r["deviations"]:
        d = r["deviations"][0]
        return False, "reproduced with a different key %s (recorded %s): %s" % (d[0], key, d[1].get("symptom"))
    return True, "not reproduced on this tree: the reader agrees with the oracle on %r" % (rec.get("text"),)


# ================================================================================================
# selftest: every check must be able to fail
# ================================================================================================
def _mutants():
    U.env()
    R.import_readers()
    nt = sys.modules["shexer.io.graph.yielder.nt_triples_yielder"]
    ttl = sys.modules["shexer.io.graph.yielder.big_ttl_triples_yielder"]
    Literal = sys.modules["shexer.model.Literal"].Literal

    def patch(obj, name, new):
        old = getattr(obj, name)
        setattr(obj, name, new)
        return lambda: setattr(obj, name, old)

    def uri_token_off_by_one():
        old = nt.NtTriplesYielder._look_for_last_index_of_uri_token

        def bad(self, target_str, first_index):
            return old(self, target_str, first_index) - 1
        return patch(nt.NtTriplesYielder, "_look_for_last_index_of_uri_token", bad)

    def every_literal_a_string():
        old = nt.tune_token

        def bad(a_token, *args, **kw):
            x = old(a_token, *args, **kw)
            if isinstance(x, Literal):
                return Literal(content=str(x), elem_type=R.XSD_STRING)
            return x
        return patch(nt, "tune_token", bad)

    def token_end_search_runs_backwards():
        # the defect of the original tree: end of an unspaced token = find(" ") - 1, also when there is no blank left
        def bad(self, target_str, first_index):
            return target_str[first_index:].find(" ") + first_index - 1
        return patch(nt.NtTriplesYielder, "_look_for_last_index_of_unspaced_token", bad)

    def errors_of_a_finished_file_swapped():
        mf = sys.modules["shexer.io.graph.yielder.multifile_base_triples_yielder"].MultifileBaseTripleYielder

        def bad(self, a_source_file, parse_namespaces=False):
            if self._last_yielder is not None:
                self._triples_yielded_from_used_yielders += self._last_yielder.yielded_triples
                self._error_triples_from_used_yielders += self._last_yielder.yielded_triples      # the one-token swap
            self._last_yielder = self._constructor_file_yielder(a_source_file=a_source_file)
            for a_triple in self._yield_triples_of_last_yielder(parse_namespaces):
                yield a_triple
        return patch(mf, "_yield_triples_of_file", bad)

    def list_of_files_loses_compression_mode():
        F = sys.modules["shexer.utils.factories.triple_yielders_factory"]
        old = F._yielder_for_nt

        def bad(source_file, raw_graph, allow_untyped_numbers, list_of_source_files, compression_mode, zip_base_archives):
            if source_file is None and raw_graph is None and zip_base_archives is None:
                return F.MultiNtTriplesYielder(list_of_files=list_of_source_files, allow_untyped_numbers=allow_untyped_numbers)
            return old(source_file=source_file, raw_graph=raw_graph, allow_untyped_numbers=allow_untyped_numbers,
                       list_of_source_files=list_of_source_files, compression_mode=compression_mode, zip_base_archives=zip_base_archives)
        return patch(F, "_yielder_for_nt", bad)

    def bnode_label_by_regex():
        import re as _re
        pat = _re.compile(r"_:[\w\-]+")

        def bad(self, target_str, first_index):
            m = pat.match(target_str, first_index)
            return (m.end() if m else first_index + 1) - 1
        return patch(nt.NtTriplesYielder, "_look_for_last_index_of_bnode_token", bad)

    def literal_type_cached_by_suffix():
        ty = sys.modules["shexer.utils.triple_yielders"]
        old = ty.parse_literal
        cache = {}                                                     # module-level: survives documents and @base lines

        def bad(an_elem, base_namespace=None):
            content, elem_type = old(an_elem=an_elem, base_namespace=base_namespace)
            return content, cache.setdefault(an_elem[an_elem.rfind('"') + 1:], elem_type)
        return patch(ty, "parse_literal", bad)

    def lines_by_splitlines():
        rs = sys.modules["shexer.io.line_reader.raw_string_line_reader"].RawStringLineReader

        def bad(self):
            for a_line in self._raw_string.splitlines():
                if a_line.strip() != "":
                    yield a_line
        return patch(rs, "read_lines", bad)

    def prefix_expansion_memo():
        old = ttl.BigTtlTriplesYielder._parse_elem

        def bad(self, raw_elem):
            memo = self.__dict__.setdefault("_selftest_memo", {})     # survives _process_prefix_line / _process_base_line
            if raw_elem not in memo:
                memo[raw_elem] = old(self, raw_elem)
            return memo[raw_elem]
        return patch(ttl.BigTtlTriplesYielder, "_parse_elem", bad)

    def comments_stripped_before_blank_normalisation():
        def bad(self, str_line):
            result = str_line.strip()
            if " #" in result:                                   # on the RAW line: a '#' after a TAB is not seen
                result = self._remove_comments_if_needed(result)
            result = ttl._OTHER_BLANKS.sub(" ", result)
            result = ttl._SEVERAL_BLANKS.sub(" ", result)
            return result.strip()
        return patch(ttl.BigTtlTriplesYielder, "_clean_line", bad)

    def typed_branch_tested_before_language_tag():
        uri = sys.modules["shexer.utils.uri"]

        def bad(self, target_str, first_index):
            target_substring = target_str[first_index:]
            if "^^" in target_substring:                                        # typed: now tested FIRST
                return self._look_for_last_index_of_unspaced_token(target_str, first_index + target_substring.find("^^"))
            elif uri.there_is_arroba_after_last_quotes(target_substring):       # language tag
                return self._look_for_last_index_of_unspaced_token(target_str, target_str.rfind("@"))
            success = False
            index_of_quotes = 1
            while not success:
                if '"' not in target_substring[index_of_quotes + 1:]:
                    return len(target_str) - 1
                index_of_second_quotes = target_substring[index_of_quotes + 1:].find('"') + index_of_quotes + 1
                if target_substring[index_of_second_quotes - 1] != "\\":
                    success = True
                elif target_substring[index_of_second_quotes - 2] == "\\":
                    success = True
                index_of_quotes = index_of_second_quotes
            return index_of_quotes + (len(target_str) - len(target_substring))
        return patch(nt.NtTriplesYielder, "_look_for_last_index_of_literal_token", bad)

    def local_part_cut_at_second_colon():
        uri = sys.modules["shexer.utils.uri"]

        def bad(target_uri, prefix_namespaces_dict, include_corners=True):
            for a_prefix in prefix_namespaces_dict:
                if target_uri.startswith(a_prefix + ":"):
                    result = prefix_namespaces_dict[a_prefix] + target_uri.split(":")[1]
                    return uri.add_corners(result) if include_corners else result
            raise ValueError("Unrecognized prefix in the following element" + target_uri)
        return patch(ttl, "unprefixize_uri_mandatory", bad)

    def state_machine_keeps_waiting_for_object():
        old = ttl.BigTtlTriplesYielder._assing_tmp_element_and_promote_state

        def bad(self, token):
            if self._state == ttl._WAITING_FOR_PRED and self._tmp_p is not None:
                self._state = ttl._WAITING_FOR_OBJ          # after ';' the new predicate is taken for the object
            return old(self, token)
        return patch(ttl.BigTtlTriplesYielder, "_assing_tmp_element_and_promote_state", bad)

    def comma_resets_to_predicate():
        def bad2(self, a_line):
            next_token, next_index = self._next_line_token(a_line, 0)
            while next_token is not None:
                if next_token == ",":
                    yield self._current_triple()
                    self._state = ttl._WAITING_FOR_PRED           # mutant: ',' handled like ';'
                elif next_token == ";":
                    yield self._current_triple()
                    self._state = ttl._WAITING_FOR_PRED
                elif next_token == ".":
                    yield self._current_triple()
                    self._state = ttl._WAITING_FOR_SUBJ
                else:
                    self._assing_tmp_element_and_promote_state(next_token)
                next_token, next_index = self._next_line_token(a_line, next_index)
        return patch(ttl.BigTtlTriplesYielder, "_process_line_with_potential_triples", bad2)

    return [
        ("C06", "NtTriplesYielder._look_for_last_index_of_uri_token off by one", uri_token_off_by_one),
        ("C06", "tune_token labels every literal xsd:string", every_literal_a_string),
        ("C06", "token end = find(' ') - 1 (non-termination must come back under keys ending in :hang)", token_end_search_runs_backwards, ":hang"),
        ("C06", "RawStringLineReader.read_lines uses str.splitlines()", lines_by_splitlines, "", "C06:unicode-line-separator-in-literal:"),
        ("C06", "multi-file: yielded_triples of the finished file added to the error total", errors_of_a_finished_file_swapped, "",
         "C06:multi-file:error-count"),
        ("C06", "_look_for_last_index_of_literal_token tests the typed branch before the language tag", typed_branch_tested_before_language_tag, "",
         "C06:caret-caret-in-lang-literal:"),
        ("C06", "_yielder_for_nt: the list-of-files branch drops compression_mode", list_of_files_loses_compression_mode, "",
         "C06:multi-file:compressed:"),
        ("C06", "_look_for_last_index_of_bnode_token matches _:[\\w\\-]+", bnode_label_by_regex, "", "C06:bnode-label-with-dot:"),
        ("C07", "parse_literal caches the datatype by the text after the closing quote", literal_type_cached_by_suffix, "",
         "C07:relative-datatype-under-base:"),
        ("C07", "_clean_line strips comments before tabs / multiple blanks are normalised", comments_stripped_before_blank_normalisation, "",
         "C07:tab-before-comment:"),
        ("C07", "unprefixize_uri_mandatory cuts the local part at the second colon", local_part_cut_at_second_colon, "",
         "C07:colon-in-local-name:"),
        ("C07", "_parse_elem memoised by raw token across @prefix / @base lines", prefix_expansion_memo, "", "C07:prefix-redeclared:"),
        ("C07", "_assing_tmp_element_and_promote_state: predicate after ';' taken for the object", state_machine_keeps_waiting_for_object),
        ("C07", "',' handled like ';' in the statement state machine", comma_resets_to_predicate),
    ]


def _selftest(verbose=True):
    ok = True
    t00 = time.time()
    baseline = {}
    for mutant in _mutants():
        pid, desc, patch = mutant[:3]
        must_end = mutant[3] if len(mutant) > 3 else ""
        must_start = mutant[4] if len(mutant) > 4 else ""
        t0 = time.time()
        if pid not in baseline:                        # finding keys of the unpatched tree at the same size
            res0 = run(pid, "selftest", 0)
            baseline[pid] = set(f["key"] for f in res0["findings"]) | set(f["key"] for f in res0["suppressed_findings"])
        undo = patch()
        try:
            res = run(pid, "selftest", 0)
        finally:
            undo()
        keys = [f["key"] for f in res["findings"]]
        new = [k for k in keys if k not in baseline[pid] and k.endswith(must_end) and k.startswith(must_start)]
        hit = bool(new)
        if must_end == ":hang":                       # and no hang may hide under a key of another symptom class
            hit = hit and not any(f["input"].get("observed", {}).get("status") == "hang" and not f["key"].endswith(":hang")
                                  for f in res["findings"])
        ok = ok and hit
        if verbose:
            print("%-4s %-4s mutant: %-84s -> %d new finding key(s) %s  [%d cases, %.1fs]"
                  % ("ok" if hit else "FAIL", pid, desc, len(new), new[:4], res["evaluations"], time.time() - t0))
    if verbose:
        print("selftest %s in %.1fs" % ("passed: every mutant is detected" if ok else "FAILED", time.time() - t00))
    return ok


def main(argv):
    if len(argv) >= 1 and argv[0] == "selftest":
        return 0 if _selftest() else 1
    if len(argv) >= 2 and argv[0] == "run":
        res = run(argv[1], argv[2] if len(argv) > 2 else "quick", int(argv[3]) if len(argv) > 3 else 0)
        brief = dict((k, v) for k, v in res.items() if k not in ("samples", "findings", "rule", "bounds", "suppressed_findings"))
        print(json.dumps(brief, indent=1, default=str))
        for f in res["findings"]:
            print("FINDING %s (x%d): %s" % (f["key"], f.get("occurrences", 1), f["what"][:900]))
            print("   text: %r" % (f["input"].get("text"),))
        for f in res["suppressed_findings"]:
            print("SUPPRESSED (cap of %d) %s: %s" % (MAX_FINDINGS, f["key"], f["what"][:300]))
            print("   text: %r" % (f["text"],))
        return 0
    print(__doc__)
    return 2


if __name__ == "__main__":
    sys.exit(main(sys.argv[1:]))
